#!/bin/bash
# runs the quick (or given) tier of every claimed check; prints one summary line per check
tier="${1:-quick}"
cd "$(dirname "$0")"
for id in $(python3 -c "import json;print(' '.join(c['property_id'] for c in json.load(open('MANIFEST.json'))['checks']))"); do
  out=$(./check $id $tier 2>&1); code=$?
  echo "$id exit=$code $(echo "$out" | grep -E "^C[0-9]+ (quick|thorough):" | tail -1)"
  echo "$out" | grep -E "^(VIOLATION|INCONCLUSIVE)" | head -5
done

//! Search engine shared by all properties: shards, statistics, proptest-driven
//! tape search with shrinking, known-finding matching, violations.

use std::cell::RefCell;
use std::collections::{BTreeMap, BTreeSet, HashSet};
use std::fs::File;
use std::hash::{Hash, Hasher};
use std::io::{Seek, SeekFrom, Write};

use proptest::strategy::{Strategy, ValueTree};
use proptest::test_runner::{Config, RngAlgorithm, RngSeed, TestCaseError, TestError, TestRunner};
use serde_json::{Value, json};

#[derive(Clone, Copy, Debug, PartialEq, Eq)]
pub enum Tier {
    Quick,
    Thorough,
}

impl Tier {
    pub fn name(&self) -> &'static str {
        match self {
            Tier::Quick => "quick",
            Tier::Thorough => "thorough",
        }
    }
    /// Picks the quick or thorough value.
    pub fn pick<T>(&self, quick: T, thorough: T) -> T {
        match self {
            Tier::Quick => quick,
            Tier::Thorough => thorough,
        }
    }
}

/// A violation of a property on one concrete case.
#[derive(Clone, Debug)]
pub struct Violation {
    /// Classifier signature (narrow; matched against known findings).
    pub sig: String,
    /// One line: what fails.
    pub what: String,
    /// The rendered inputs, sufficient for `--replay` without any generator.
    pub inputs: Value,
    pub expected: Value,
    pub observed: Value,
}

impl Violation {
    pub fn new(sig: impl Into<String>, what: impl Into<String>, inputs: Value) -> Self {
        Violation {
            sig: sig.into(),
            what: what.into(),
            inputs,
            expected: Value::Null,
            observed: Value::Null,
        }
    }
    pub fn exp_obs(mut self, expected: impl Into<Value>, observed: impl Into<Value>) -> Self {
        self.expected = expected.into();
        self.observed = observed.into();
        self
    }
    pub fn to_json(&self, prop: &str, tier: &str, seed: u64) -> Value {
        json!({
            "property": prop, "tier": tier, "seed": seed, "sig": self.sig, "what": self.what,
            "inputs": self.inputs, "expected": self.expected, "observed": self.observed,
        })
    }
}

#[derive(Clone, Debug)]
pub struct KnownFinding {
    pub status: String,
    pub property: String,
    pub sig: String,
    pub what: String,
    pub witness: Option<String>,
}

#[derive(Clone, Debug, Default)]
pub struct KnownFindings {
    pub all: Vec<KnownFinding>,
}

impl KnownFindings {
    pub fn load(path: &str) -> KnownFindings {
        let mut kf = KnownFindings::default();
        let Ok(text) = std::fs::read_to_string(path) else {
            return kf;
        };
        let v: Value = serde_json::from_str(&text).expect("known_findings.json must be valid JSON");
        for e in v.as_array().expect("known_findings.json must be a list") {
            kf.all.push(KnownFinding {
                status: e["status"].as_str().unwrap_or("").to_string(),
                property: e["property"].as_str().unwrap_or("").to_string(),
                sig: e["sig"].as_str().unwrap_or("").to_string(),
                what: e["what"].as_str().unwrap_or("").to_string(),
                witness: e["witness"].as_str().map(|s| s.to_string()),
            });
        }
        kf
    }
    /// An OPEN finding (of any property: one root cause shows under several) with exactly this signature.
    pub fn open_match(&self, sig: &str) -> Option<&KnownFinding> {
        self.all.iter().find(|k| k.status == "open" && k.sig == sig)
    }
}

#[derive(Default)]
pub struct Stats {
    pub evaluations: u64,
    pub nontrivial: HashSet<u64>,
    pub classes: BTreeMap<String, u64>,
    pub discards: BTreeMap<String, u64>,
    pub known_hits: BTreeMap<String, u64>,
    pub samples: Vec<Value>,
    pub violations: Vec<Violation>,
    pub exhaustive_parts: BTreeSet<String>,
    pub notes: BTreeMap<String, Value>,
}

pub struct Shard {
    pub prop: String,
    pub tier: Tier,
    pub seed: u64,
    pub shard: u32,
    pub nshards: u32,
    pub known: KnownFindings,
    pub strict: bool,
    pub stats: Stats,
    frozen: bool,
    journal: Option<File>,
    max_samples: usize,
}

pub fn hash64<T: Hash + ?Sized>(t: &T) -> u64 {
    // FNV-1a over the std Hash stream: stable across runs (no random keys)
    struct Fnv(u64);
    impl Hasher for Fnv {
        fn finish(&self) -> u64 {
            self.0
        }
        fn write(&mut self, bytes: &[u8]) {
            for b in bytes {
                self.0 ^= *b as u64;
                self.0 = self.0.wrapping_mul(0x100000001b3);
            }
        }
    }
    let mut h = Fnv(0xcbf29ce484222325);
    t.hash(&mut h);
    h.finish()
}

pub fn mix_seed(seed: u64, prop: &str, shard: u32, salt: u64) -> u64 {
    hash64(&(seed, prop, shard, salt))
}

impl Shard {
    pub fn new(prop: &str, tier: Tier, seed: u64, shard: u32, nshards: u32, known: KnownFindings, journal_path: Option<&str>) -> Shard {
        let journal = journal_path.map(|p| File::create(p).expect("journal file"));
        Shard {
            prop: prop.to_string(),
            tier,
            seed,
            shard,
            nshards,
            known,
            strict: false,
            stats: Stats::default(),
            frozen: false,
            journal,
            max_samples: 6,
        }
    }

    /// This shard's share of `total` cases.
    pub fn share(&self, total: u64) -> u64 {
        let n = self.nshards as u64;
        total / n + if (self.shard as u64) < total % n { 1 } else { 0 }
    }

    /// Does index `i` of an enumerated space belong to this shard?
    pub fn mine(&self, i: u64) -> bool {
        i % self.nshards as u64 == self.shard as u64
    }

    /// Record the input about to be executed, so a process death can be attributed.
    pub fn journal(&mut self, text: &str) {
        if let Some(f) = self.journal.as_mut() {
            let _ = f.seek(SeekFrom::Start(0));
            let _ = f.set_len(0);
            let _ = f.write_all(text.as_bytes());
        }
        crate::watchdog::case_started();
    }

    pub fn eval(&mut self) {
        if !self.frozen {
            self.stats.evaluations += 1;
        }
    }
    pub fn evals(&mut self, n: u64) {
        if !self.frozen {
            self.stats.evaluations += n;
        }
    }
    pub fn nontrivial(&mut self, fingerprint: u64) {
        if !self.frozen {
            self.stats.nontrivial.insert(fingerprint);
        }
    }
    pub fn class(&mut self, name: &str) {
        if !self.frozen {
            *self.stats.classes.entry(name.to_string()).or_insert(0) += 1;
        }
    }
    pub fn class_n(&mut self, name: &str, n: u64) {
        if !self.frozen {
            *self.stats.classes.entry(name.to_string()).or_insert(0) += n;
        }
    }
    pub fn discard(&mut self, reason: &str) {
        if !self.frozen {
            *self.stats.discards.entry(reason.to_string()).or_insert(0) += 1;
        }
    }
    pub fn sample(&mut self, v: impl FnOnce() -> Value) {
        if !self.frozen && self.stats.samples.len() < self.max_samples {
            let v = v();
            self.stats.samples.push(v);
        }
    }
    /// Keep a sample only every `every`-th call (spreads samples across the run).
    pub fn sample_sparse(&mut self, every: u64, v: impl FnOnce() -> Value) {
        if !self.frozen && self.stats.samples.len() < self.max_samples && self.stats.evaluations % every == 0 {
            let v = v();
            self.stats.samples.push(v);
        }
    }
    pub fn note(&mut self, key: &str, v: Value) {
        self.stats.notes.insert(key.to_string(), v);
    }
    pub fn exhaustive(&mut self, part: &str) {
        self.stats.exhaustive_parts.insert(part.to_string());
    }

    /// Returns Ok if the violation matches an open known finding (counted), else Err.
    pub fn triage(&mut self, v: Violation) -> Result<(), Violation> {
        if !self.strict {
            if let Some(k) = self.known.open_match(&v.sig) {
                let sig = k.sig.clone();
                if !self.frozen {
                    *self.stats.known_hits.entry(sig).or_insert(0) += 1;
                }
                return Ok(());
            }
        }
        Err(v)
    }

    /// Direct (non-proptest) case for enumerated spaces: records the violation and continues.
    /// Returns false when enough violations were collected and the caller should stop.
    pub fn report(&mut self, r: Result<(), Violation>) -> bool {
        if let Err(v) = r {
            if let Err(v) = self.triage(v) {
                if !self.stats.violations.iter().any(|x| x.sig == v.sig) {
                    self.stats.violations.push(v);
                }
            }
        }
        self.stats.violations.len() < 8
    }

    /// Random search: `cases` tapes of up to `max_len` cells, shrunk on failure.
    /// `f` decodes the tape, runs the case, records statistics through `&mut Shard`.
    pub fn search<F>(&mut self, salt: u64, cases: u64, min_len: usize, max_len: usize, f: F)
    where
        F: Fn(&mut Shard, &[u32]) -> Result<(), Violation>,
    {
        if cases == 0 {
            return;
        }
        let seed = mix_seed(self.seed, &self.prop, self.shard, salt);
        let mut seed_bytes = [0u8; 32];
        for i in 0..4 {
            seed_bytes[i * 8..i * 8 + 8].copy_from_slice(&hash64(&(seed, i as u64)).to_le_bytes());
        }
        let config = Config {
            cases: cases.min(u32::MAX as u64) as u32,
            failure_persistence: None,
            rng_seed: RngSeed::Fixed(seed),
            rng_algorithm: RngAlgorithm::ChaCha,
            max_shrink_iters: 1500,
            max_global_rejects: 1,
            ..Config::default()
        };
        let _ = seed_bytes;
        let mut runner = TestRunner::new(config);
        let strategy = proptest::collection::vec(proptest::num::u32::ANY, min_len..=max_len);
        let cell = RefCell::new(&mut *self);
        let failed = RefCell::new(false);
        let result = runner.run(&strategy, |tape| {
            let mut guard = cell.borrow_mut();
            let sh: &mut Shard = &mut guard;
            if *failed.borrow() {
                sh.frozen = true;
            }
            crate::watchdog::case_started();
            let r = f(sh, &tape);
            let r = match r {
                Ok(()) => Ok(()),
                Err(v) => sh.triage(v),
            };
            match r {
                Ok(()) => Ok(()),
                Err(v) => {
                    *failed.borrow_mut() = true;
                    sh.frozen = true;
                    Err(TestCaseError::fail(v.sig))
                }
            }
        });
        drop(cell);
        match result {
            Ok(()) => {}
            Err(TestError::Fail(_, tape)) => {
                // re-run the minimal tape to obtain the violation itself
                self.frozen = true;
                let r = f(self, &tape);
                self.frozen = false;
                match r {
                    Err(mut v) => {
                        if let Value::Object(m) = &mut v.inputs {
                            m.insert("tape".to_string(), json!(tape));
                        }
                        if !self.stats.violations.iter().any(|x| x.sig == v.sig) {
                            self.stats.violations.push(v);
                        }
                    }
                    Ok(()) => {
                        // not reproducible on re-run: state leaked between cases — infrastructure fault
                        panic!("harness fault: shrunk case did not fail on re-run (property {} shard {})", self.prop, self.shard);
                    }
                }
            }
            Err(TestError::Abort(reason)) => {
                panic!("harness fault: proptest aborted: {}", reason);
            }
        }
        self.frozen = false;
    }

    pub fn to_json(&self) -> Value {
        let s = &self.stats;
        let mut nt: Vec<u64> = s.nontrivial.iter().cloned().collect();
        nt.sort();
        json!({
            "shard": self.shard,
            "evaluations": s.evaluations,
            "nontrivial": nt,
            "classes": s.classes,
            "discards": s.discards,
            "known_hits": s.known_hits,
            "samples": s.samples,
            "violations": s.violations.iter().map(|v| v.to_json(&self.prop, self.tier.name(), self.seed)).collect::<Vec<_>>(),
            "exhaustive_parts": s.exhaustive_parts,
            "notes": s.notes,
        })
    }
}

/// Tape reader: deterministic decoder over proptest-drawn cells. An exhausted
/// tape yields 0, which every decoder maps to its simplest alternative.
pub struct Tape<'a> {
    cells: &'a [u32],
    pos: usize,
}

impl<'a> Tape<'a> {
    pub fn new(cells: &'a [u32]) -> Self {
        Tape { cells, pos: 0 }
    }
    pub fn raw(&mut self) -> u32 {
        let v = self.cells.get(self.pos).copied().unwrap_or(0);
        self.pos += 1;
        v
    }
    /// Uniform in 0..n, monotone in the cell (0 stays 0 when shrinking).
    pub fn choose(&mut self, n: usize) -> usize {
        if n <= 1 {
            // still consume a cell so that decoders stay aligned
            self.raw();
            return 0;
        }
        ((self.raw() as u64 * n as u64) >> 32) as usize
    }
    /// Inclusive range.
    pub fn range(&mut self, lo: i64, hi: i64) -> i64 {
        debug_assert!(hi >= lo);
        lo + self.choose((hi - lo + 1) as usize) as i64
    }
    /// True with probability num/den; false when the cell shrinks to 0.
    pub fn chance(&mut self, num: u32, den: u32) -> bool {
        let c = self.choose(den as usize) as u32;
        c >= den - num
    }
    pub fn pick<'b, T>(&mut self, items: &'b [T]) -> &'b T {
        &items[self.choose(items.len())]
    }
    pub fn exhausted(&self) -> bool {
        self.pos >= self.cells.len()
    }
    pub fn used(&self) -> usize {
        self.pos
    }
}

#[allow(dead_code)]
pub fn strategy_smoke() {
    // keeps the ValueTree import used on all cfgs
    let mut runner = TestRunner::deterministic();
    let t = proptest::num::u32::ANY.new_tree(&mut runner).unwrap();
    let _ = t.current();
}

//! rbv — property-based verification harness for ngeor/rusty-basic.
//!
//! rbv <PROP> quick|thorough        run a check (parent: spawns worker processes)
//! rbv <PROP> --replay <file>       re-execute the rendered inputs of a replay file
//! rbv --worker <PROP> <tier> <seed> <shard> <nshards> <out.json> <journal>

mod engine;
mod impl_run;
mod panics;
mod pool;
mod props;
mod watchdog;
mod genr;
mod refsem;
mod corpus;

use engine::Tier;

fn usage() -> ! {
    eprintln!("usage: rbv <PROP> quick|thorough | rbv <PROP> --replay <file>");
    std::process::exit(2)
}

fn main() {
    let args: Vec<String> = std::env::args().collect();
    if args.len() < 2 {
        usage();
    }
    panics::install();
    if args[1] == "--worker" {
        if args.len() < 9 {
            usage();
        }
        let prop = args[2].clone();
        let tier = if args[3] == "thorough" { Tier::Thorough } else { Tier::Quick };
        let seed: u64 = args[4].parse().expect("seed");
        let shard: u32 = args[5].parse().expect("shard");
        let nshards: u32 = args[6].parse().expect("nshards");
        let out = args[7].clone();
        let journal = args[8].clone();
        pool::worker_main(&prop, tier, seed, shard, nshards, &out, &journal);
        return;
    }
    if args[1] == "--run" && args.len() > 2 {
        let text = std::fs::read_to_string(&args[2]).expect("read program");
        let mut opts = impl_run::RunOpts::budget(args.get(3).and_then(|s| s.parse().ok()).unwrap_or(2_000_000));
        opts.typed_vars = true;
        opts.depths = true;
        opts.rows = true;
        let t0 = std::time::Instant::now();
        match impl_run::run_src(&text, &opts) {
            Err(e) => println!("front error: {}", e.to_json()),
            Ok(o) => println!("stdout={:?}\nend={}\nticks={} statements={} typed={:?} depth={:?} wall={:?}", o.stdout_str(), o.end.to_json(), o.ticks, o.statements, o.typed_anomaly, o.depth_anomaly, t0.elapsed()),
        }
        return;
    }
    if args[1] == "--ast" && args.len() > 2 {
        let text = std::fs::read_to_string(&args[2]).expect("read program");
        match impl_run::parse(&text) {
            Ok(p) => println!("{:?}", p),
            Err(e) => println!("{}", e.to_json()),
        }
        return;
    }
    if args[1] == "--gen" && args.len() > 3 {
        // --gen core|calls|control|arrays <count> [substring]: generated programs (+ reference outcome) containing the substring
        use genr::build::{Gen, GenCfg};
        let n: u64 = args[3].parse().unwrap_or(100);
        let needle = args.get(4).cloned().unwrap_or_default();
        let mut shown = 0;
        for i in 0..n {
            let tape: Vec<u32> = (0..300).map(|k| (engine::hash64(&(i, k as u64)) >> 16) as u32).collect();
            let prog = match args[2].as_str() {
                "calls" => Gen::new(&tape, &GenCfg::core(8, 2)).calls_program(),
                "control" => Gen::new(&tape, &GenCfg::core(20, 3)).control_program(),
                "arrays" => Gen::new(&tape, &GenCfg::core(20, 2)).array_program(),
                _ => Gen::new(&tape, &GenCfg::core(14, 3)).core_program(),
            };
            let r = genr::print::render(&prog, &genr::print::Layout::plain());
            if r.text.contains(&needle) {
                shown += 1;
                let out = match refsem::run(&prog, 200_000) {
                    refsem::Outcome::Determined(res) => format!("determined stdout={:?} end={:?}", res.stdout, res.end),
                    refsem::Outcome::Undetermined(why, _) => format!("undetermined: {}", why),
                };
                println!("--- {}\n{}\n=> {}", i, r.text, out);
                if shown >= 5 {
                    break;
                }
            }
        }
        return;
    }
    if args[1] == "--corpus" {
        let all = corpus::candidates();
        let acc = corpus::accepted();
        println!("candidates={} accepted={}", all.len(), acc.len());
        if args.len() > 2 {
            for (i, s) in acc.iter().enumerate().take(args[2].parse().unwrap_or(3)) {
                println!("--- {}\n{}", i, s);
            }
        }
        return;
    }
    if args.len() < 3 {
        usage();
    }
    let prop = args[1].to_uppercase();
    if props::lookup(&prop).is_none() {
        eprintln!("unknown property {}", prop);
        std::process::exit(2);
    }
    if args[2] == "--replay" {
        if args.len() < 4 {
            usage();
        }
        std::process::exit(pool::replay_main(&prop, &args[3]));
    }
    let tier = match args[2].as_str() {
        "quick" => Tier::Quick,
        "thorough" => Tier::Thorough,
        _ => usage(),
    };
    let seed: u64 = std::env::var("VERIF_SEED").ok().and_then(|s| s.trim().parse::<i64>().ok()).map(|v| v as u64).unwrap_or(0);
    std::process::exit(pool::parent_main(&prop, tier, seed));
}

//! Generators: program IR, pretty-printer with layout knobs and site map, tape decoders.
pub mod build;
pub mod inject;
pub mod ir;
pub mod print;

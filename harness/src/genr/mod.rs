//! generators

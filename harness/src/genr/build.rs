//! Tape -> well-typed program (construction, not rejection). Cell value 0 always
//! selects the simplest alternative, so that shrinking the tape simplifies the program.

use super::ir::*;
use crate::engine::Tape;

#[derive(Clone, Debug)]
pub struct GenCfg {
    pub max_stmts: usize,
    pub max_depth: usize,
    pub strings: bool,
    pub data: bool,
    /// place deliberate run-time errors
    pub errors: bool,
    pub procs: bool,
    pub arrays: bool,
    pub records: bool,
    pub gotos: bool,
    pub gosubs: bool,
    pub handlers: bool,
    pub deftypes: bool,
    /// every statement also prints a trace token
    pub trace: bool,
    pub floats: bool,
    /// calls_program: always add the recursive function (FOR / SELECT shapes) and call it with an argument of 2 or 3
    pub force_rec: bool,
}

impl GenCfg {
    pub fn core(max_stmts: usize, max_depth: usize) -> GenCfg {
        GenCfg { max_stmts, max_depth, strings: true, data: true, errors: true, procs: false, arrays: false, records: false, gotos: false, gosubs: false, handlers: false, deftypes: true, trace: false, floats: true, force_rec: false }
    }
}

#[derive(Clone, Debug)]
struct ScopeVar {
    idx: usize,
    name: String,
    sty: STy,
    bounds: Vec<(i32, i32)>,
    /// reserved as a loop counter (never an assignment target of generated statements)
    reserved: bool,
    /// may be read (arrays only after DIM executed; kept simple: DIMs come first)
    readable: bool,
}

pub struct Gen<'t, 'c> {
    pub t: Tape<'t>,
    pub cfg: &'c GenCfg,
    pub prog: Program,
    scope: Vec<ScopeVar>,
    in_proc: Option<usize>,
    stmts_left: usize,
    counter_seq: usize,
    label_seq: usize,
    data_items: Vec<DataItem>,
    data_read: usize,
    deftype_letters: Vec<(char, Ty)>,
    trace_seq: usize,
    error_placed: bool,
    /// names of procedures that can be called from the current body (index, is_function)
    callable: Vec<usize>,
    depth_in_loops: usize,
    name_salt: usize,
    in_args: usize,
    shared_names: Vec<String>,
    consts: Vec<(String, Ty)>,
    /// a DIM SHARED whole-number variable that serves as FOR counter in subprograms and in the main module
    shared_counter: Option<(String, Ty)>,
    shared_counter_busy: bool,
    /// while set, no call is generated (body of a loop that counts in the shared counter)
    no_calls: usize,
    /// statements that must stand directly in front of the FOR statement just generated
    for_pre: Vec<Stmt>,
}

const SMALL: [i64; 12] = [0, 1, 2, 3, 4, 5, 7, 8, 10, 12, 16, 20];
const BIG: [i64; 10] = [100, 255, 256, 1000, 32766, 32767, 32768, 65535, 100000, 2147483647];
const WORDS: [&str; 10] = ["a", "ab", "Hello", "x y", "", "QB", "zz9", "Abc", "hello", " pad "];

impl<'t, 'c> Gen<'t, 'c> {
    pub fn new(tape: &'t [u32], cfg: &'c GenCfg) -> Self {
        Gen {
            t: Tape::new(tape),
            cfg,
            prog: Program::default(),
            scope: vec![],
            in_proc: None,
            stmts_left: cfg.max_stmts,
            counter_seq: 0,
            label_seq: 0,
            data_items: vec![],
            data_read: 0,
            deftype_letters: vec![],
            trace_seq: 0,
            error_placed: false,
            callable: vec![],
            depth_in_loops: 0,
            name_salt: 0,
            in_args: 0,
            shared_names: vec![],
            consts: vec![],
            shared_counter: None,
            shared_counter_busy: false,
            no_calls: 0,
            for_pre: vec![],
        }
    }

    // ------------------------------------------------------------------ variables

    fn default_ty_for(&self, name: &str) -> Ty {
        let c = name.chars().next().unwrap().to_ascii_uppercase();
        for (l, t) in &self.deftype_letters {
            if *l == c {
                return *t;
            }
        }
        Ty::Single
    }

    fn add_var(&mut self, name: String, sty: STy, bounds: Vec<(i32, i32)>, reserved: bool) -> usize {
        let idx = self.scope.len();
        self.scope.push(ScopeVar { idx, name: name.clone(), sty: sty.clone(), bounds: bounds.clone(), reserved, readable: true });
        let info = VarInfo { name, sty, bounds, shared: false };
        match self.in_proc {
            None => self.prog.vars.push(info),
            Some(p) => self.prog.procs[p].vars.push(info),
        }
        idx
    }

    /// A scalar variable of the given type (existing or new). Bare names are used for the default type sometimes.
    fn scalar(&mut self, ty: Ty, for_write: bool) -> LValue {
        let cands: Vec<usize> = self.scope.iter().filter(|v| v.sty == STy::B(ty) && v.bounds.is_empty() && !(for_write && v.reserved) && v.readable).map(|v| v.idx).collect();
        // prefer existing variables (3 in 4) once there are some
        if !cands.is_empty() && (cands.len() >= 3 || self.t.chance(3, 4)) {
            let i = cands[self.t.choose(cands.len())];
            let v = &self.scope[i];
            return LValue { name: v.name.clone(), var: v.idx, index: vec![], fields: vec![], sty: v.sty.clone() };
        }
        let n = self.scope.iter().filter(|v| v.sty == STy::B(ty)).count() + self.name_salt;
        let letter = match ty {
            Ty::Int => 'I',
            Ty::Long => 'L',
            Ty::Single => 'S',
            Ty::Double => 'D',
            Ty::Str => 'T',
        };
        let base = format!("{}{}", letter, n + 1);
        // bare spelling when the default type of the first letter is this type
        let name = if self.default_ty_for(&base) == ty && self.t.chance(1, 2) { base } else { format!("{}{}", base, ty.suffix()) };
        let idx = self.add_var(name.clone(), STy::B(ty), vec![], false);
        LValue { name, var: idx, index: vec![], fields: vec![], sty: STy::B(ty) }
    }

    fn fresh_counter(&mut self, ty: Ty) -> LValue {
        self.counter_seq += 1;
        let name = format!("K{}{}", self.counter_seq, ty.suffix());
        let idx = self.add_var(name.clone(), STy::B(ty), vec![], true);
        LValue { name, var: idx, index: vec![], fields: vec![], sty: STy::B(ty) }
    }

    fn num_ty(&mut self) -> Ty {
        if self.cfg.floats {
            // 0 -> Int (simplest)
            *self.t.pick(&[Ty::Int, Ty::Int, Ty::Long, Ty::Single, Ty::Single, Ty::Double])
        } else {
            *self.t.pick(&[Ty::Int, Ty::Int, Ty::Long])
        }
    }

    // ---------------------------------------------------------------- expressions

    fn small_whole(&mut self) -> i64 {
        if self.t.chance(1, 12) { *self.t.pick(&BIG) } else { *self.t.pick(&SMALL) }
    }

    fn num_lit(&mut self, ty: Ty) -> Expr {
        // a literal whose static type is `ty` where possible (Int: <=32767; Long: bigger; Single: fraction; Double: #)
        let neg = self.t.chance(1, 5);
        let e = match ty {
            Ty::Int => Expr::Lit(Lit::Whole(*self.t.pick(&SMALL))),
            Ty::Long => Expr::Lit(Lit::Whole(*self.t.pick(&[40000, 65536, 100000, 70000, 2147483647, 1000000]))),
            Ty::Single => {
                let w = *self.t.pick(&SMALL);
                let q = *self.t.pick(&[1i64, 3, 2, 0]);
                Expr::Lit(Lit::Frac { num: w * 4 + q, shift: 2, double: false })
            }
            Ty::Double => {
                if self.t.chance(1, 2) {
                    Expr::Lit(Lit::WholeDouble(*self.t.pick(&SMALL)))
                } else {
                    let w = *self.t.pick(&SMALL);
                    let q = *self.t.pick(&[1i64, 3, 2, 0]);
                    Expr::Lit(Lit::Frac { num: w * 4 + q, shift: 2, double: true })
                }
            }
            Ty::Str => unreachable!(),
        };
        if neg { Expr::Un(UnOp::Neg, Box::new(e)) } else { e }
    }

    fn any_whole_lit(&mut self) -> Expr {
        let v = self.small_whole();
        let e = Expr::Lit(Lit::Whole(v));
        if self.t.chance(1, 5) { Expr::Un(UnOp::Neg, Box::new(e)) } else { e }
    }

    /// Numeric expression; `want` biases the static type but does not force it.
    pub fn num_expr(&mut self, want: Ty, depth: usize) -> Expr {
        let leaf = depth == 0 || self.t.chance(2, 5);
        if self.cfg.procs && self.no_calls == 0 && depth > 0 && self.t.chance(1, 6) {
            if let Some(e) = self.fn_call(want, depth - 1) {
                return e;
            }
        }
        if leaf && !self.consts.is_empty() && self.t.chance(1, 10) {
            let cands: Vec<(String, Ty)> = self.consts.iter().filter(|(_, t)| t.is_numeric()).cloned().collect();
            if !cands.is_empty() {
                let (n, t) = cands[self.t.choose(cands.len())].clone();
                return Expr::Const(n, t);
            }
        }
        if leaf && self.t.chance(1, 40) {
            // a name with a subscript that is declared nowhere reads as zero of the name's type
            let ty = self.num_ty();
            let k = self.t.choose(3) as i64;
            return Expr::BuiltIn { name: format!("ZU{}{}", ty.suffix() as u32 % 7, ty.suffix()), args: vec![Expr::Lit(Lit::Whole(k))], ty };
        }
        if leaf {
            return match self.t.choose(4) {
                0 => {
                    if want.is_whole() {
                        self.any_whole_lit()
                    } else {
                        self.num_lit(want)
                    }
                }
                1 | 2 => {
                    let ty = if self.t.chance(2, 3) { want } else { self.num_ty() };
                    if self.has_readable(ty) || self.t.chance(1, 3) {
                        Expr::Load(self.readable_num(ty))
                    } else {
                        self.any_whole_lit()
                    }
                }
                _ => {
                    let ty = self.num_ty();
                    self.num_lit(ty)
                }
            };
        }
        match self.t.choose(11) {
            10 => self.logic_expr(depth - 1),
            0 | 1 | 2 => {
                let a = self.num_expr(want, depth - 1);
                let b = self.num_expr(want, depth - 1);
                Expr::Bin(BinOp::Add, Box::new(self.paren_if_binary(a)), Box::new(self.paren_if_binary(b)))
            }
            3 | 4 => {
                let a = self.num_expr(want, depth - 1);
                let b = self.num_expr(want, depth - 1);
                Expr::Bin(BinOp::Sub, Box::new(self.paren_if_binary(a)), Box::new(self.paren_if_binary(b)))
            }
            5 => {
                let a = self.num_expr(want, depth - 1);
                let b = self.num_expr(Ty::Int, 0);
                Expr::Bin(BinOp::Mul, Box::new(self.paren_if_binary(a)), Box::new(self.paren_if_binary(b)))
            }
            6 => {
                // division by a power of two (exact) or, rarely, by a variable / zero
                let mut a = self.num_expr(want, depth - 1);
                if want == Ty::Double && self.t.chance(1, 5) {
                    // a tiny exact quotient (1 / 16384 prints exactly as a DOUBLE)
                    a = Expr::Lit(Lit::WholeDouble(*self.t.pick(&[1, 3, 16385])));
                }
                let d = if self.cfg.errors && self.t.chance(1, 25) {
                    Expr::Lit(Lit::Whole(0))
                } else if self.t.chance(1, 8) {
                    Expr::Load(self.readable_num(Ty::Int))
                } else {
                    Expr::Lit(Lit::Whole(*self.t.pick(&[2, 1, 4, 8, 2, 4, 1024, 16384])))
                };
                Expr::Bin(BinOp::Div, Box::new(self.paren_if_binary(a)), Box::new(d))
            }
            7 => {
                // MOD on whole-number typed operands
                let a = self.whole_expr(depth - 1);
                let b = if self.cfg.errors && self.t.chance(1, 25) {
                    Expr::Lit(Lit::Whole(0))
                } else if self.cfg.floats && self.t.chance(1, 8) {
                    // a fractional divisor is rounded first: 2.75 -> 3, 0.75 -> 1 and (an error, when they are generated) 0.25 -> 0
                    let quarters = if self.cfg.errors { *self.t.pick(&[11i64, 3, 1, 13, 27]) } else { *self.t.pick(&[11i64, 3, 13, 27]) };
                    Expr::Lit(Lit::Frac { num: quarters, shift: 2, double: self.t.chance(1, 3) })
                } else {
                    Expr::Lit(Lit::Whole(*self.t.pick(&[3, 2, 5, 7, 10, 3, 60000, 40001])))
                };
                Expr::Paren(Box::new(Expr::Bin(BinOp::Mod, Box::new(self.paren_if_binary(a)), Box::new(b))))
            }
            8 => {
                let a = self.num_expr(want, depth - 1);
                Expr::Un(UnOp::Neg, Box::new(self.paren_if_binary(a)))
            }
            _ => {
                let a = self.num_expr(want, depth - 1);
                Expr::Paren(Box::new(a))
            }
        }
    }

    /// AND / OR on numeric operands of any type mix (worked on 16 bits only if both are INTEGER, else on the 32 bits
    /// of a LONG after rounding), NOT on a whole-number operand. Operand values reach beyond the INTEGER range on
    /// either side; fractions are never exact halves.
    fn logic_expr(&mut self, depth: usize) -> Expr {
        if self.t.chance(1, 5) {
            let a = self.whole_expr(depth);
            return Expr::Paren(Box::new(Expr::Un(UnOp::Not, Box::new(self.paren_if_binary(a)))));
        }
        let lt = self.num_ty();
        let rt = self.num_ty();
        let a = self.logic_operand(lt, depth);
        let b = self.logic_operand(rt, depth);
        let op = *self.t.pick(&[BinOp::And, BinOp::Or]);
        Expr::Paren(Box::new(Expr::Bin(op, Box::new(self.paren_if_binary(a)), Box::new(self.paren_if_binary(b)))))
    }

    fn logic_operand(&mut self, ty: Ty, depth: usize) -> Expr {
        match self.t.choose(4) {
            0 => {
                // a literal of that type; wide types carry values beyond the INTEGER range
                let neg = self.t.chance(1, 4);
                let e = match ty {
                    Ty::Int => Expr::Lit(Lit::Whole(*self.t.pick(&[3i64, 1, 7, 255, 32767, 12, 0]))),
                    Ty::Long => Expr::Lit(Lit::Whole(*self.t.pick(&[65537i64, 40000, 32768, 100001, 2147483647, 65536]))),
                    Ty::Single => Expr::Lit(Lit::Frac { num: *self.t.pick(&[100001i64, 5, 65537, 40000, 3]) * 4 + *self.t.pick(&[0i64, 1, 3]), shift: 2, double: false }),
                    Ty::Double => Expr::Lit(Lit::Frac { num: *self.t.pick(&[65537i64, 6, 100000, 2147483647, 70000]) * 4 + *self.t.pick(&[0i64, 1, 3]), shift: 2, double: true }),
                    Ty::Str => unreachable!(),
                };
                if neg { Expr::Un(UnOp::Neg, Box::new(e)) } else { e }
            }
            1 | 2 => Expr::Load(self.readable_num(ty)),
            _ => {
                if depth > 0 && ty.is_whole() {
                    self.whole_expr(depth - 1)
                } else {
                    self.num_lit(ty)
                }
            }
        }
    }

    /// Expression whose static type is INTEGER or LONG.
    fn whole_expr(&mut self, depth: usize) -> Expr {
        if depth == 0 || self.t.chance(1, 2) {
            return match self.t.choose(3) {
                0 => Expr::Lit(Lit::Whole(*self.t.pick(&SMALL))),
                1 => Expr::Load(self.readable_num(Ty::Int)),
                _ => {
                    if self.t.chance(1, 3) {
                        Expr::Load(self.readable_num(Ty::Long))
                    } else {
                        self.any_whole_lit()
                    }
                }
            };
        }
        let a = self.whole_expr(depth - 1);
        let b = self.whole_expr(depth - 1);
        let op = *self.t.pick(&[BinOp::Add, BinOp::Sub, BinOp::Mul]);
        Expr::Bin(op, Box::new(self.paren_if_binary(a)), Box::new(self.paren_if_binary(b)))
    }

    /// Parenthesise binary sub-expressions: keeps the tree independent of the precedence rules (C10 checks those).
    fn paren_if_binary(&mut self, e: Expr) -> Expr {
        match e {
            Expr::Bin(..) | Expr::Un(..) => Expr::Paren(Box::new(e)),
            o => o,
        }
    }

    fn has_readable(&self, ty: Ty) -> bool {
        self.scope.iter().any(|v| v.sty == STy::B(ty) && v.bounds.is_empty() && v.readable)
    }

    fn readable_num(&mut self, ty: Ty) -> LValue {
        self.scalar(ty, false)
    }

    pub fn str_expr(&mut self, depth: usize) -> Expr {
        if self.cfg.procs && self.no_calls == 0 && depth > 0 && self.t.chance(1, 6) {
            let cands: Vec<usize> = self.callable.iter().cloned().filter(|p| self.prog.procs[*p].ret == Some(Ty::Str)).collect();
            if !cands.is_empty() {
                let p = cands[self.t.choose(cands.len())];
                let args = self.call_args(p, depth - 1);
                return Expr::Call(p, args);
            }
        }
        if depth == 0 || self.t.chance(1, 2) {
            return if self.t.chance(1, 2) { Expr::Lit(Lit::Str(self.t.pick(&WORDS).to_string())) } else { Expr::Load(self.scalar(Ty::Str, false)) };
        }
        match self.t.choose(4) {
            0 | 1 => {
                let a = self.str_expr(depth - 1);
                let b = self.str_expr(depth - 1);
                Expr::Bin(BinOp::Add, Box::new(a), Box::new(b))
            }
            2 => {
                let a = self.str_expr(depth - 1);
                Expr::BuiltIn { name: "UCASE$".into(), args: vec![a], ty: Ty::Str }
            }
            _ => {
                let a = self.str_expr(depth - 1);
                Expr::BuiltIn { name: "LCASE$".into(), args: vec![a], ty: Ty::Str }
            }
        }
    }

    /// A string expression of bounded length (safe to assign to a variable it mentions, even in loops).
    pub fn bounded_str(&mut self, depth: usize) -> Expr {
        let e = self.str_expr(depth);
        Expr::BuiltIn { name: "LEFT$".into(), args: vec![e, Expr::Lit(Lit::Whole(24))], ty: Ty::Str }
    }

    /// Condition (INTEGER-typed truth value).
    pub fn cond(&mut self, depth: usize) -> Expr {
        if self.t.chance(1, 8) {
            // a bare number as truth value: true when it is not zero, whatever its type and size (fractions below one
            // half, values beyond the INTEGER range, values other than -1)
            return match self.t.choose(5) {
                0 => Expr::Lit(Lit::Whole(*self.t.pick(&[5i64, 0, 1, 2, 65536, 40000]))),
                1 => Expr::Lit(Lit::Frac { num: *self.t.pick(&[1i64, 0, 3, 2, 9]), shift: *self.t.pick(&[2u32, 3, 1]), double: self.t.chance(1, 3) }),
                2 => {
                    let ty = self.num_ty();
                    Expr::Load(self.readable_num(ty))
                }
                3 => {
                    let ty = self.num_ty();
                    let e = self.num_expr(ty, 1);
                    self.paren_if_binary(e)
                }
                _ => Expr::Un(UnOp::Neg, Box::new(Expr::Lit(Lit::Whole(*self.t.pick(&[1i64, 2, 7]))))),
            };
        }
        if depth == 0 || self.t.chance(3, 5) {
            let op = *self.t.pick(&BinOp::RELATIONAL);
            if self.cfg.strings && self.t.chance(1, 6) {
                let a = self.str_expr(1);
                let b = self.str_expr(0);
                return Expr::Bin(op, Box::new(a), Box::new(b));
            }
            let ty = self.num_ty();
            let a = self.num_expr(ty, 1);
            let b = self.num_expr(ty, 0);
            return Expr::Bin(op, Box::new(self.paren_if_binary(a)), Box::new(self.paren_if_binary(b)));
        }
        match self.t.choose(3) {
            0 => {
                let a = self.cond(depth - 1);
                let b = self.cond(depth - 1);
                Expr::Bin(BinOp::And, Box::new(Expr::Paren(Box::new(a))), Box::new(Expr::Paren(Box::new(b))))
            }
            1 => {
                let a = self.cond(depth - 1);
                let b = self.cond(depth - 1);
                Expr::Bin(BinOp::Or, Box::new(Expr::Paren(Box::new(a))), Box::new(Expr::Paren(Box::new(b))))
            }
            _ => {
                let a = self.cond(depth - 1);
                Expr::Un(UnOp::Not, Box::new(Expr::Paren(Box::new(a))))
            }
        }
    }

    // ----------------------------------------------------------------- statements

    fn print_stmt(&mut self) -> Stmt {
        let n = 1 + self.t.choose(3);
        let mut items = vec![];
        for k in 0..n {
            if k > 0 {
                items.push(if self.t.chance(1, 4) { PrintItem::Comma } else { PrintItem::Semi });
            }
            let e = if self.cfg.strings && self.t.chance(1, 4) {
                self.str_expr(1)
            } else {
                let ty = self.num_ty();
                // printed values: variables and shallow expressions
                if self.t.chance(1, 2) && self.has_readable(ty) { Expr::Load(self.readable_num(ty)) } else { self.num_expr(ty, 1) }
            };
            items.push(PrintItem::E(e));
        }
        if self.t.chance(1, 10) {
            items.push(PrintItem::Semi);
        }
        Stmt::Print(items)
    }

    fn assign_stmt(&mut self) -> Stmt {
        if self.cfg.strings && self.t.chance(1, 5) {
            let e = self.str_expr(2);
            // bounded length: a string that is concatenated with itself inside nested loops would explode
            let e = Expr::BuiltIn { name: "LEFT$".into(), args: vec![e, Expr::Lit(Lit::Whole(24))], ty: Ty::Str };
            let l = self.scalar(Ty::Str, true);
            return Stmt::Assign(l, e);
        }
        let ty = self.num_ty();
        let e = if self.t.chance(1, 6) {
            // value of another type: exercises the store conversion
            let other = self.num_ty();
            self.num_expr(other, 2)
        } else {
            self.num_expr(ty, 2)
        };
        let l = self.scalar(ty, true);
        Stmt::Assign(l, e)
    }

    fn error_stmt(&mut self) -> Stmt {
        self.error_placed = true;
        match self.t.choose(5) {
            0 => {
                let l = self.scalar(Ty::Int, true);
                Stmt::Assign(l, Expr::Lit(Lit::Whole(*self.t.pick(&[32768, 40000, 100000]))))
            }
            1 => {
                let l = self.scalar(Ty::Single, true);
                let a = self.num_expr(Ty::Int, 0);
                Stmt::Assign(l, Expr::Bin(BinOp::Div, Box::new(a), Box::new(Expr::Lit(Lit::Whole(0)))))
            }
            2 => {
                let l = self.scalar(Ty::Long, true);
                Stmt::Assign(l, Expr::Bin(BinOp::Mul, Box::new(Expr::Lit(Lit::WholeDouble(3000000))), Box::new(Expr::Lit(Lit::Whole(1000)))))
            }
            3 => {
                let l = self.scalar(Ty::Int, true);
                let a = self.whole_expr(0);
                Stmt::Assign(l, Expr::Bin(BinOp::Mod, Box::new(a), Box::new(Expr::Lit(Lit::Whole(0)))))
            }
            _ => {
                // INTEGER variable receives a SINGLE value out of range
                let l = self.scalar(Ty::Int, true);
                Stmt::Assign(l, Expr::Bin(BinOp::Mul, Box::new(Expr::Lit(Lit::Frac { num: 4001, shift: 1, double: false })), Box::new(Expr::Lit(Lit::Whole(100)))))
            }
        }
    }

    fn read_stmt(&mut self, depth: usize) -> Option<Stmt> {
        if !self.cfg.data || self.in_proc.is_some() || depth > 0 || self.depth_in_loops > 0 {
            return None;
        }
        // decide the DATA item this READ consumes (created on demand, all DATA lines are emitted at the end)
        let n = 1 + self.t.choose(2);
        let mut targets = vec![];
        for _ in 0..n {
            let ty = if self.cfg.strings && self.t.chance(1, 4) { Ty::Str } else { self.num_ty() };
            let l = self.scalar(ty, true);
            let out_of_data = self.cfg.errors && self.t.chance(1, 30);
            if !out_of_data {
                let item = if ty == Ty::Str {
                    DataItem::Str(self.t.pick(&WORDS).to_string())
                } else {
                    // an item of any numeric type; conversion to the target happens at READ
                    let neg = self.t.chance(1, 4);
                    let lit = match self.t.choose(4) {
                        0 | 1 => Lit::Whole(self.small_whole()),
                        2 => Lit::Frac { num: *self.t.pick(&SMALL) * 4 + *self.t.pick(&[1i64, 3, 0]), shift: 2, double: false },
                        _ => Lit::WholeDouble(*self.t.pick(&SMALL)),
                    };
                    DataItem::Num(neg, lit)
                };
                self.data_items.push(item);
            }
            targets.push(l);
        }
        Some(Stmt::Read(targets))
    }

    fn bounded_loop_header(&mut self) -> (Stmt, LValue, Expr, Stmt) {
        // counter = 0 ; condition counter < n ; increment
        let c = self.fresh_counter(Ty::Int);
        let n = 1 + self.t.choose(3) as i64;
        let init = Stmt::Assign(c.clone(), Expr::Lit(Lit::Whole(0)));
        let cond = Expr::Bin(BinOp::Lt, Box::new(Expr::Load(c.clone())), Box::new(Expr::Lit(Lit::Whole(n))));
        let inc = Stmt::Assign(c.clone(), Expr::Bin(BinOp::Add, Box::new(Expr::Load(c.clone())), Box::new(Expr::Lit(Lit::Whole(1)))));
        (init, c, cond, inc)
    }

    fn block(&mut self, depth: usize, max: usize) -> Vec<Stmt> {
        let n = 1 + self.t.choose(max);
        let mut v = vec![];
        for _ in 0..n {
            if self.stmts_left == 0 {
                break;
            }
            self.stmt_into(depth, &mut v);
        }
        if v.is_empty() {
            v.push(self.print_stmt());
        }
        v
    }

    /// A block that is empty now and then (an IF arm, ELSE, CASE, CASE ELSE or FOR body without statements).
    fn block_or_empty(&mut self, depth: usize, max: usize) -> Vec<Stmt> {
        if self.t.chance(1, 10) {
            return vec![];
        }
        self.block(depth, max)
    }

    /// Appends one statement (possibly with a preparatory statement) to `out`.
    pub fn stmt_into(&mut self, depth: usize, out: &mut Vec<Stmt>) {
        if self.stmts_left > 0 {
            self.stmts_left -= 1;
        }
        let can_nest = depth < self.cfg.max_depth && self.stmts_left >= 2;
        if self.cfg.errors && !self.error_placed && self.t.chance(1, 40) {
            out.push(self.error_stmt());
            return;
        }
        if self.cfg.procs && self.no_calls == 0 && self.t.chance(1, 5) {
            if let Some(st) = self.sub_call() {
                out.push(st);
                return;
            }
        }
        if self.cfg.procs {
            if let Some(p) = self.in_proc {
                // assign the function result now and then
                if let Some(rv) = self.prog.procs[p].result_var {
                    if self.t.chance(1, 5) {
                        let ty = self.prog.procs[p].ret.unwrap();
                        let e = if ty == Ty::Str { self.bounded_str(1) } else { self.num_expr(ty, 1) };
                        let name = self.prog.procs[p].name.clone();
                        out.push(Stmt::Assign(LValue { name, var: rv, index: vec![], fields: vec![], sty: STy::B(ty) }, e));
                        return;
                    }
                }
            }
        }
        let k = if can_nest { self.t.choose(20) } else { self.t.choose(10) };
        match k {
            0 | 1 | 2 | 3 => out.push(self.print_stmt()),
            4 | 5 | 6 | 7 => out.push(self.assign_stmt()),
            8 => match self.read_stmt(depth) {
                Some(s) => out.push(s),
                None => out.push(self.assign_stmt()),
            },
            9 => {
                // single-line IF
                let c = self.cond(1);
                // each part is one simple statement, now and then several joined by colons
                let mut then_ = vec![if self.t.chance(1, 2) { self.print_stmt() } else { self.assign_stmt() }];
                while then_.len() < 3 && self.t.chance(1, 4) {
                    then_.push(if self.t.chance(1, 2) { self.print_stmt() } else { self.assign_stmt() });
                }
                let else_ = if self.t.chance(1, 3) {
                    let mut e = vec![self.print_stmt()];
                    while e.len() < 3 && self.t.chance(1, 3) {
                        e.push(if self.t.chance(1, 2) { self.print_stmt() } else { self.assign_stmt() });
                    }
                    Some(e)
                } else {
                    None
                };
                out.push(Stmt::IfLine { cond: c, then_, else_ });
            }
            10 | 11 | 12 => {
                let arms_n = 1 + self.t.choose(3);
                let mut arms = vec![];
                for _ in 0..arms_n {
                    let c = self.cond(1);
                    let b = self.block_or_empty(depth + 1, 3);
                    arms.push((c, b));
                }
                let else_ = if self.t.chance(1, 2) { Some(self.block_or_empty(depth + 1, 2)) } else { None };
                out.push(Stmt::If { arms, else_ });
            }
            13 | 14 => out.push(self.select_stmt(depth)),
            15 | 16 | 17 => {
                let f = self.for_stmt(depth);
                out.append(&mut self.for_pre);
                out.push(f);
            }
            18 => {
                let (init, _c, cond, inc) = self.bounded_loop_header();
                let extra = if self.t.chance(1, 3) { Some(self.cond(0)) } else { None };
                let cond = match extra {
                    Some(x) => Expr::Bin(BinOp::And, Box::new(Expr::Paren(Box::new(cond))), Box::new(Expr::Paren(Box::new(x)))),
                    None => cond,
                };
                self.depth_in_loops += 1;
                let mut body = self.block(depth + 1, 3);
                self.depth_in_loops -= 1;
                body.push(inc);
                out.push(init);
                out.push(Stmt::While { cond, body });
            }
            _ => {
                let (init, _c, cond, inc) = self.bounded_loop_header();
                let kind = *self.t.pick(&[DoKind::TopWhile, DoKind::TopUntil, DoKind::BottomWhile, DoKind::BottomUntil]);
                let extra = if self.t.chance(1, 3) { Some(self.cond(0)) } else { None };
                let cond = match kind {
                    DoKind::TopUntil | DoKind::BottomUntil => {
                        // UNTIL counter >= n [OR extra]: the loop ends on ANY non-zero value of the condition
                        let c = match cond {
                            Expr::Bin(BinOp::Lt, a, b) => Expr::Bin(BinOp::Ge, a, b),
                            o => o,
                        };
                        match extra {
                            Some(x) => Expr::Bin(BinOp::Or, Box::new(Expr::Paren(Box::new(c))), Box::new(Expr::Paren(Box::new(x)))),
                            None => c,
                        }
                    }
                    _ => match extra {
                        Some(x) => Expr::Bin(BinOp::And, Box::new(Expr::Paren(Box::new(cond))), Box::new(Expr::Paren(Box::new(x)))),
                        None => cond,
                    },
                };
                self.depth_in_loops += 1;
                let mut body = self.block(depth + 1, 3);
                self.depth_in_loops -= 1;
                body.push(inc);
                out.push(init);
                out.push(Stmt::Do { kind, cond, body });
            }
        }
    }

    fn select_stmt(&mut self, depth: usize) -> Stmt {
        let string_subject = self.cfg.strings && self.t.chance(1, 5);
        let (subject, sty) = if string_subject {
            (self.str_expr(1), Ty::Str)
        } else {
            let ty = self.num_ty();
            (self.num_expr(ty, 1), ty)
        };
        let ncases = 1 + self.t.choose(3);
        let mut cases = vec![];
        for _ in 0..ncases {
            let nitems = *self.t.pick(&[1usize, 2, 1, 3, 4]);
            let mut items = vec![];
            for _ in 0..nitems {
                let mk = |g: &mut Self| if sty == Ty::Str { g.str_expr(0) } else { g.num_expr(sty, 0) };
                let it = match self.t.choose(3) {
                    0 => CaseItem::Val(mk(self)),
                    1 => {
                        let op = *self.t.pick(&BinOp::RELATIONAL);
                        CaseItem::Is(op, mk(self))
                    }
                    _ => {
                        let a = mk(self);
                        let b = mk(self);
                        CaseItem::Range(a, b)
                    }
                };
                items.push(it);
            }
            let body = self.block_or_empty(depth + 1, 2);
            cases.push((items, body));
        }
        let else_ = if self.t.chance(1, 2) { Some(self.block_or_empty(depth + 1, 2)) } else { None };
        Stmt::Select { subject, cases, else_ }
    }

    fn for_stmt(&mut self, depth: usize) -> Stmt {
        let cty = *self.t.pick(&[Ty::Int, Ty::Int, Ty::Long, Ty::Single, Ty::Double]);
        let cty = if self.cfg.floats { cty } else { Ty::Int };
        // now and then the loop counts in a DIM SHARED variable (also from inside subprograms); its body makes no calls,
        // so that no other activation moves the counter
        let use_shared = self.shared_counter.is_some() && !self.shared_counter_busy && self.t.chance(1, 4);
        let (var, cty) = if use_shared {
            let (n, t) = self.shared_counter.clone().unwrap();
            let v = self.scope.iter().find(|v| v.name == n).expect("shared counter in scope").clone();
            (LValue { name: v.name.clone(), var: v.idx, index: vec![], fields: vec![], sty: v.sty.clone() }, t)
        } else {
            (self.fresh_counter(cty), cty)
        };
        if use_shared {
            self.shared_counter_busy = true;
            self.no_calls += 1;
        }
        let from_v = *self.t.pick(&[1i64, 0, 2, 3, -1, 5]);
        let len = self.t.choose(4) as i64; // iterations - 1 (or empty loop when reversed)
        let step_kind = self.t.choose(6);
        let (from, to, step): (Expr, Expr, Option<Expr>) = match step_kind {
            0 | 1 => (lit_i(from_v), lit_i(from_v + len), None),
            2 => (lit_i(from_v), lit_i(from_v + len * 2), Some(lit_i(2))),
            3 => (lit_i(from_v + len), lit_i(from_v), Some(Expr::Un(UnOp::Neg, Box::new(lit_i(1))))),
            4 => {
                // run-time computed step held in a variable assigned just before
                (lit_i(from_v + len * 2), lit_i(from_v), Some(Expr::Un(UnOp::Neg, Box::new(Expr::Paren(Box::new(Expr::Bin(BinOp::Add, Box::new(lit_i(1)), Box::new(lit_i(1)))))))))
            }
            _ => {
                if cty.is_whole() && self.cfg.floats && self.t.chance(1, 3) {
                    // a whole step of another type than the counter: a LONG- or DOUBLE-typed expression for an INTEGER / LONG
                    // counter (counter + step must come back as a value of the counter's type). Fractional steps for
                    // whole-number counters stay out: the statements do not say whether the step is converted once or on
                    // every pass.
                    match self.t.choose(3) {
                        0 => (lit_i(from_v), lit_i(from_v + len), Some(Expr::Paren(Box::new(Expr::Bin(BinOp::Sub, Box::new(Expr::Lit(Lit::Whole(40001))), Box::new(Expr::Lit(Lit::Whole(40000)))))))),
                        1 => (lit_i(from_v), lit_i(from_v + len * 2), Some(Expr::Lit(Lit::WholeDouble(2)))),
                        _ => (lit_i(from_v + len), lit_i(from_v), Some(Expr::Paren(Box::new(Expr::Bin(BinOp::Sub, Box::new(Expr::Lit(Lit::Whole(40000))), Box::new(Expr::Lit(Lit::Whole(40001)))))))),
                    }
                } else if cty.is_whole() {
                    (lit_i(from_v), lit_i(from_v + len), Some(lit_i(1)))
                } else {
                    // half steps for floating counters
                    (lit_i(from_v), lit_i(from_v + len), Some(Expr::Lit(Lit::Frac { num: 1, shift: 1, double: cty == Ty::Double })))
                }
            }
        };
        // a fractional limit for a whole-number counter is converted to the counter's type first (x.75 rounds up: one more pass)
        let to = if self.cfg.floats && cty.is_whole() && step_kind <= 1 && from_v + len >= 0 && self.t.chance(1, 6) {
            let q = *self.t.pick(&[3i64, 1]);
            Expr::Lit(Lit::Frac { num: (from_v + len) * 4 + q, shift: 2, double: false })
        } else {
            to
        };
        // occasionally bounds are variables / expressions
        let to = if self.t.chance(1, 5) { Expr::Bin(BinOp::Add, Box::new(self.paren_if_binary(to)), Box::new(lit_i(0))) } else { to };
        self.depth_in_loops += 1;
        let body = self.block_or_empty(depth + 1, 3);
        self.depth_in_loops -= 1;
        if use_shared {
            self.shared_counter_busy = false;
            self.no_calls -= 1;
        }
        // the step held in a variable that the body changes: the step of the loop is the value it had on entry
        let (step, body) = if step_kind == 4 && cty.is_whole() && !use_shared && self.t.chance(1, 2) {
            let sv = self.fresh_counter(Ty::Int);
            self.for_pre.push(Stmt::Assign(sv.clone(), Expr::Un(UnOp::Neg, Box::new(lit_i(2)))));
            let mut bd = body;
            bd.push(Stmt::Assign(sv.clone(), Expr::Bin(BinOp::Sub, Box::new(Expr::Load(sv.clone())), Box::new(lit_i(1)))));
            (Some(Expr::Load(sv)), bd)
        } else {
            (step, body)
        };
        let next_names = self.t.chance(1, 3);
        // now and then a bound is written in parentheses (a keyword may follow the closing parenthesis without a blank)
        let to = if self.t.chance(1, 6) { Expr::Paren(Box::new(to)) } else { to };
        let from = if self.t.chance(1, 8) { Expr::Paren(Box::new(from)) } else { from };
        Stmt::For { var, from, to, step, body, next_names }
    }

    // -------------------------------------------------------------------- program

    fn gen_deftypes(&mut self) {
        if !self.cfg.deftypes || !self.t.chance(1, 4) {
            return;
        }
        // one DEFtype over a letter range used by generated names (I, L, S, D, T, K)
        let (ty, a, b) = *self.t.pick(&[(Ty::Int, 'I', 'K'), (Ty::Long, 'L', 'L'), (Ty::Double, 'D', 'D'), (Ty::Str, 'T', 'T'), (Ty::Int, 'A', 'Z')]);
        self.prog.deftypes.push((ty, a, b));
        for c in a..=b {
            self.deftype_letters.push((c, ty));
        }
    }

    pub fn core_program(mut self) -> Program {
        self.gen_deftypes();
        let mut main = vec![];
        let target = 3 + self.t.choose(self.cfg.max_stmts.saturating_sub(2).max(1));
        self.stmts_left = target;
        while self.stmts_left > 0 {
            self.stmt_into(0, &mut main);
        }
        // closing observation: print a few variables so that the output depends on the state
        let mut items = vec![];
        let vars: Vec<ScopeVar> = self.scope.iter().filter(|v| v.bounds.is_empty() && matches!(v.sty, STy::B(_))).cloned().collect();
        for v in vars.iter().take(6) {
            if !items.is_empty() {
                items.push(PrintItem::Semi);
            }
            items.push(PrintItem::E(Expr::Load(LValue { name: v.name.clone(), var: v.idx, index: vec![], fields: vec![], sty: v.sty.clone() })));
        }
        if !items.is_empty() {
            main.push(Stmt::Print(items));
        }
        if !self.data_items.is_empty() {
            // DATA lines: anywhere in the module is equivalent; put them first, last or in the middle
            let items = std::mem::take(&mut self.data_items);
            let chunks: Vec<Vec<DataItem>> = items.chunks(3).map(|c| c.to_vec()).collect();
            for (i, c) in chunks.into_iter().enumerate() {
                let pos = match self.t.choose(3) {
                    0 => main.len(),
                    1 => 0,
                    _ => main.len() / 2,
                };
                let _ = i;
                // keep textual order of DATA lines = order of creation: always insert after previously inserted ones
                let pos = pos.max(main.iter().rposition(|s| matches!(s, Stmt::Data(_))).map(|p| p + 1).unwrap_or(0));
                main.insert(pos.min(main.len()), Stmt::Data(c));
            }
        }
        self.prog.main = main;
        self.prog
    }
}

impl<'t, 'c> Gen<'t, 'c> {
    /// Arguments for a call of procedure `p` from the current scope.
    fn call_args(&mut self, p: usize, depth: usize) -> Vec<Expr> {
        self.in_args += 1;
        let r = self.call_args_inner(p, depth);
        self.in_args -= 1;
        r
    }

    fn call_args_inner(&mut self, p: usize, depth: usize) -> Vec<Expr> {
        let params: Vec<Param> = self.prog.procs[p].params.clone();
        let mut used_by_ref: Vec<usize> = vec![];
        let mut args = vec![];
        for pa in &params {
            let ty = pa.sty.ety().unwrap();
            let by_ref = self.t.chance(1, 2);
            if by_ref {
                // a plain variable of exactly the parameter's type: not a loop counter, not SHARED.
                // The same variable may be passed twice: values are written back left to right, the last one stays.
                let mut l = self.scalar(ty, true);
                let earlier: Vec<LValue> = args.iter().filter_map(|a: &Expr| if let Expr::Load(x) = a { if x.sty == STy::B(ty) && x.index.is_empty() && used_by_ref.contains(&x.var) { Some(x.clone()) } else { None } } else { None }).collect();
                if !earlier.is_empty() && self.t.chance(1, 3) {
                    l = earlier[self.t.choose(earlier.len())].clone();
                }
                let shared = self.shared_names.iter().any(|n| n.eq_ignore_ascii_case(&l.name));
                if !shared {
                    used_by_ref.push(l.var);
                    args.push(Expr::Load(l));
                    continue;
                }
            }
            // by value
            let e = if ty == Ty::Str {
                match self.t.choose(3) {
                    0 => Expr::Lit(Lit::Str(self.t.pick(&WORDS).to_string())),
                    1 => Expr::Paren(Box::new(Expr::Load(self.scalar(Ty::Str, false)))),
                    _ => {
                        let a = self.str_expr(depth.min(1));
                        match a {
                            Expr::Load(_) => Expr::Paren(Box::new(a)),
                            o => o,
                        }
                    }
                }
            } else {
                match self.t.choose(4) {
                    0 => self.any_whole_lit_in(ty),
                    1 => Expr::Paren(Box::new(Expr::Load(self.scalar(ty, false)))),
                    2 => {
                        // a value of another numeric type: converted to the parameter type
                        let other = self.num_ty();
                        let e = self.num_expr(other, depth.min(1));
                        match e {
                            Expr::Load(_) => Expr::Paren(Box::new(e)),
                            o => o,
                        }
                    }
                    _ => {
                        let e = self.num_expr(ty, depth.min(1));
                        match e {
                            Expr::Load(_) => Expr::Paren(Box::new(e)),
                            o => o,
                        }
                    }
                }
            };
            args.push(e);
        }
        args
    }

    fn any_whole_lit_in(&mut self, ty: Ty) -> Expr {
        if ty.is_whole() { self.any_whole_lit() } else { self.num_lit(ty) }
    }

    fn fn_call(&mut self, want: Ty, depth: usize) -> Option<Expr> {
        let cands: Vec<usize> = self.callable.iter().cloned().filter(|p| self.prog.procs[*p].ret.map(|t| t.is_numeric()).unwrap_or(false)).collect();
        if cands.is_empty() {
            return None;
        }
        let _ = want;
        let p = cands[self.t.choose(cands.len())];
        let args = self.call_args(p, depth);
        Some(Expr::Call(p, args))
    }

    fn sub_call(&mut self) -> Option<Stmt> {
        let cands: Vec<usize> = self.callable.iter().cloned().filter(|p| self.prog.procs[*p].ret.is_none()).collect();
        if cands.is_empty() {
            return None;
        }
        let p = cands[self.t.choose(cands.len())];
        let args = self.call_args(p, 1);
        Some(Stmt::CallSub(p, args))
    }

    fn closing_print(&mut self, out: &mut Vec<Stmt>) {
        let mut items = vec![];
        let vars: Vec<ScopeVar> = self.scope.iter().filter(|v| v.bounds.is_empty() && v.readable && matches!(v.sty, STy::B(_))).cloned().collect();
        for v in vars.iter().take(8) {
            if !items.is_empty() {
                items.push(PrintItem::Semi);
            }
            items.push(PrintItem::E(Expr::Load(LValue { name: v.name.clone(), var: v.idx, index: vec![], fields: vec![], sty: v.sty.clone() })));
        }
        if !items.is_empty() {
            out.push(Stmt::Print(items));
        }
    }

    /// Programs with SUBs/FUNCTIONs (some STATIC), SHARED variables, CONSTs, recursion.
    pub fn calls_program(mut self) -> Program {
        let mut prelude: Vec<Stmt> = vec![];
        // constants
        let nconst = self.t.choose(3);
        for k in 0..nconst {
            let (name, ty, e) = match self.t.choose(3) {
                0 => (format!("CN{}", k + 1), Ty::Int, Expr::Lit(Lit::Whole(*self.t.pick(&SMALL)))),
                1 => (format!("CN{}#", k + 1), Ty::Double, Expr::Lit(Lit::Frac { num: *self.t.pick(&[5i64, 1, 3, 9]), shift: 1, double: true })),
                _ => (format!("CN{}&", k + 1), Ty::Long, Expr::Lit(Lit::Whole(*self.t.pick(&[100000i64, 40000, 65536])))),
            };
            prelude.push(Stmt::Const(name.clone(), e));
            self.consts.push((name, ty));
        }
        // DIM SHARED scalars
        let nshared = self.t.choose(3);
        for k in 0..nshared {
            let ty = *self.t.pick(&[Ty::Int, Ty::Long, Ty::Single, Ty::Str, Ty::Double]);
            let name = format!("G{}{}", k + 1, ty.suffix());
            let idx = self.add_var(name.clone(), STy::B(ty), vec![], false);
            self.prog.vars[idx].shared = true;
            self.shared_names.push(name.clone());
            prelude.push(Stmt::Dim(Dim { var: idx, name, bounds: vec![], explicit_lower: false, sty: STy::B(ty), extended: false, shared: true, redim: 0 }));
        }
        // a SHARED loop counter (reserved: only FOR statements write it)
        if self.t.chance(1, 2) {
            let ty = *self.t.pick(&[Ty::Int, Ty::Long, Ty::Int, Ty::Single]);
            let name = format!("GK{}", ty.suffix());
            let idx = self.add_var(name.clone(), STy::B(ty), vec![], true);
            self.prog.vars[idx].shared = true;
            self.shared_names.push(name.clone());
            self.shared_counter = Some((name.clone(), ty));
            prelude.push(Stmt::Dim(Dim { var: idx, name, bounds: vec![], explicit_lower: false, sty: STy::B(ty), extended: false, shared: true, redim: 0 }));
        }
        // signatures
        let nprocs = 1 + self.t.choose(4);
        for k in 0..nprocs {
            let is_fn = self.t.chance(1, 2);
            let ret = if is_fn { Some(*self.t.pick(&[Ty::Int, Ty::Long, Ty::Single, Ty::Double, Ty::Str, Ty::Int])) } else { None };
            let name = match ret {
                Some(t) => format!("Fn{}{}", k + 1, t.suffix()),
                None => format!("Sb{}", k + 1),
            };
            let np = self.t.choose(4);
            let mut params = vec![];
            let mut vars = vec![];
            for j in 0..np {
                let ty = *self.t.pick(&[Ty::Int, Ty::Long, Ty::Single, Ty::Double, Ty::Str]);
                let extended = self.t.chance(1, 4);
                let mut pname = if extended { format!("P{}", (b'A' + j as u8) as char) } else { format!("P{}{}", (b'A' + j as u8) as char, ty.suffix()) };
                if !extended && self.t.chance(1, 5) {
                    // the bare name of a SHARED variable with another type character: a different variable
                    let cands: Vec<String> = self.shared_names.iter().filter(|n| !n.ends_with(ty.suffix())).map(|n| n[..n.len() - 1].to_string()).filter(|b| !params.iter().any(|q: &Param| q.name.starts_with(b.as_str()))).collect();
                    if !cands.is_empty() {
                        pname = format!("{}{}", cands[self.t.choose(cands.len())], ty.suffix());
                    }
                }
                params.push(Param { name: pname.clone(), var: j, sty: STy::B(ty), array: false, extended });
                vars.push(VarInfo { name: pname, sty: STy::B(ty), bounds: vec![], shared: false });
            }
            let result_var = ret.map(|t| {
                vars.push(VarInfo { name: name.clone(), sty: STy::B(t), bounds: vec![], shared: false });
                vars.len() - 1
            });
            let is_static = self.t.chance(1, 4);
            self.prog.procs.push(Proc { name, ret, params, is_static, body: vec![], vars, result_var });
        }
        self.prog.declare = self.t.chance(1, 3);
        // bodies: a procedure may call the ones before it
        let main_scope = std::mem::take(&mut self.scope);
        for p in 0..nprocs {
            self.in_proc = Some(p);
            self.scope = vec![];
            let pv: Vec<VarInfo> = self.prog.procs[p].vars.clone();
            for (i, v) in pv.iter().enumerate() {
                let is_result = self.prog.procs[p].result_var == Some(i);
                self.scope.push(ScopeVar { idx: i, name: v.name.clone(), sty: v.sty.clone(), bounds: vec![], reserved: false, readable: !is_result });
            }
            // shared variables are visible
            for g in main_scope.iter().filter(|g| self.shared_names.iter().any(|n| n == &g.name)) {
                let idx = self.scope.len();
                self.scope.push(ScopeVar { idx, name: g.name.clone(), sty: g.sty.clone(), bounds: vec![], reserved: g.reserved, readable: true });
                self.prog.procs[p].vars.push(VarInfo { name: g.name.clone(), sty: g.sty.clone(), bounds: vec![], shared: true });
            }
            self.callable = (0..p).collect();
            self.name_salt = 10 * (p + 1);
            self.counter_seq = 100 * (p + 1);
            let mut body = vec![];
            // entry observation: locals are fresh, parameters arrive converted
            let mut items = vec![PrintItem::E(Expr::Lit(Lit::Str(format!("[{}]", self.prog.procs[p].name)))), PrintItem::Semi];
            for pa in self.prog.procs[p].params.clone() {
                items.push(PrintItem::E(Expr::Load(LValue { name: pa.name.clone(), var: pa.var, index: vec![], fields: vec![], sty: pa.sty.clone() })));
                items.push(PrintItem::Semi);
            }
            items.pop();
            body.push(Stmt::Print(items));
            self.stmts_left = 2 + self.t.choose(5);
            while self.stmts_left > 0 {
                self.stmt_into(1, &mut body);
            }
            // make the by-reference effect visible: parameters are often assigned
            for pa in self.prog.procs[p].params.clone() {
                if self.t.chance(1, 2) {
                    let ty = pa.sty.ety().unwrap();
                    let e = if ty == Ty::Str { self.bounded_str(1) } else { self.num_expr(ty, 1) };
                    body.push(Stmt::Assign(LValue { name: pa.name.clone(), var: pa.var, index: vec![], fields: vec![], sty: pa.sty.clone() }, e));
                }
            }
            // a result that is assigned in some activations only (depending on a parameter): an activation that assigns
            // nothing returns zero / the empty string, whatever an earlier activation returned (also for STATIC ones)
            let mut conditional_result = false;
            if let Some(rv) = self.prog.procs[p].result_var {
                let num_params: Vec<Param> = self.prog.procs[p].params.iter().filter(|q| q.sty.ety().map(|t| t.is_numeric()).unwrap_or(false)).cloned().collect();
                if !num_params.is_empty() && self.t.chance(1, 3) {
                    conditional_result = true;
                    let pa = num_params[self.t.choose(num_params.len())].clone();
                    let ty = self.prog.procs[p].ret.unwrap();
                    let e = if ty == Ty::Str { self.bounded_str(1) } else { self.num_expr(ty, 1) };
                    let name = self.prog.procs[p].name.clone();
                    let cond = Expr::Bin(*self.t.pick(&[BinOp::Gt, BinOp::Le, BinOp::Ne]), Box::new(Expr::Load(LValue { name: pa.name.clone(), var: pa.var, index: vec![], fields: vec![], sty: pa.sty.clone() })), Box::new(Expr::Lit(Lit::Whole(*self.t.pick(&[1i64, 0, 2, 5])))));
                    body.insert(1, Stmt::IfLine { cond, then_: vec![Stmt::Assign(LValue { name, var: rv, index: vec![], fields: vec![], sty: STy::B(ty) }, e)], else_: None });
                }
            }
            if let Some(rv) = self.prog.procs[p].result_var {
                if self.t.chance(if conditional_result { 1 } else { 4 }, 5) {
                    let ty = self.prog.procs[p].ret.unwrap();
                    let e = if ty == Ty::Str { self.bounded_str(1) } else { self.num_expr(ty, 1) };
                    let name = self.prog.procs[p].name.clone();
                    body.push(Stmt::Assign(LValue { name, var: rv, index: vec![], fields: vec![], sty: STy::B(ty) }, e));
                }
            }
            self.closing_print(&mut body);
            self.prog.procs[p].body = body;
        }
        // optional recursive function (hand-built shapes with generated parameters): the recursive call sits in an
        // ELSE block, inside a FOR body whose limit differs per activation, or inside a CASE expression that is
        // followed by further CASE tests of the same SELECT (whatever a block construct keeps while it runs must be
        // kept per activation)
        let mut forced_rec: Option<usize> = None;
        if self.t.chance(1, 2) || self.cfg.force_rec {
            let p = self.prog.procs.len();
            if self.cfg.force_rec {
                forced_rec = Some(p);
            }
            let name = "Rec&".to_string();
            let n = LValue { name: "N%".into(), var: 0, index: vec![], fields: vec![], sty: STy::B(Ty::Int) };
            let acc = LValue { name: "ACC&".into(), var: 1, index: vec![], fields: vec![], sty: STy::B(Ty::Long) };
            let loc = LValue { name: "LOC%".into(), var: 2, index: vec![], fields: vec![], sty: STy::B(Ty::Int) };
            let res = LValue { name: name.clone(), var: 3, index: vec![], fields: vec![], sty: STy::B(Ty::Long) };
            let j = LValue { name: "J%".into(), var: 4, index: vec![], fields: vec![], sty: STy::B(Ty::Int) };
            let tv = LValue { name: "T&".into(), var: 5, index: vec![], fields: vec![], sty: STy::B(Ty::Long) };
            let k = *self.t.pick(&[2i64, 3, 1, 5]);
            let shape = if self.cfg.force_rec { 2 + self.t.choose(2) } else { self.t.choose(4) };
            let n_minus_1 = || Expr::Bin(BinOp::Sub, Box::new(Expr::Load(n.clone())), Box::new(Expr::Lit(Lit::Whole(1))));
            let by_value_acc = || Expr::Paren(Box::new(Expr::Load(acc.clone())));
            let recursive_part: Vec<Stmt> = match shape {
                0 | 1 => vec![
                    Stmt::Assign(acc.clone(), Expr::Bin(BinOp::Add, Box::new(Expr::Load(acc.clone())), Box::new(Expr::Load(loc.clone())))),
                    Stmt::Assign(res.clone(), Expr::Call(p, vec![n_minus_1(), Expr::Load(acc.clone())])),
                    Stmt::Print(vec![PrintItem::E(Expr::Lit(Lit::Str("u".into()))), PrintItem::Semi, PrintItem::E(Expr::Load(loc.clone())), PrintItem::Semi, PrintItem::E(Expr::Load(acc.clone()))]),
                ],
                2 => {
                    // FOR J% = a TO N% [STEP s]: the recursive call runs inside the body, the limit belongs to this activation
                    let down = self.t.chance(1, 3);
                    let (from, to, step) = if down { (Expr::Load(n.clone()), Expr::Lit(Lit::Whole(1)), Some(lit_i(-1))) } else { (Expr::Lit(Lit::Whole(1)), Expr::Load(n.clone()), if self.t.chance(1, 2) { Some(lit_i(1)) } else { None }) };
                    vec![
                        Stmt::For {
                            var: j.clone(),
                            from,
                            to,
                            step,
                            body: vec![
                                Stmt::Assign(acc.clone(), Expr::Bin(BinOp::Add, Box::new(Expr::Load(acc.clone())), Box::new(Expr::Load(loc.clone())))),
                                Stmt::Assign(tv.clone(), Expr::Call(p, vec![n_minus_1(), by_value_acc()])),
                                Stmt::Print(vec![PrintItem::E(Expr::Lit(Lit::Str("f".into()))), PrintItem::Semi, PrintItem::E(Expr::Load(j.clone())), PrintItem::Semi, PrintItem::E(Expr::Load(tv.clone()))]),
                            ],
                            next_names: self.t.chance(1, 2),
                        },
                        Stmt::Print(vec![PrintItem::E(Expr::Lit(Lit::Str("after".into()))), PrintItem::Semi, PrintItem::E(Expr::Load(j.clone()))]),
                        Stmt::Assign(res.clone(), Expr::Bin(BinOp::Add, Box::new(Expr::Load(tv.clone())), Box::new(Expr::Load(loc.clone())))),
                    ]
                }
                _ => {
                    // SELECT CASE N%: an early CASE expression calls the function again, later CASE tests follow
                    let off = *self.t.pick(&[1000i64, 0, 1]);
                    let rec_item = Expr::Bin(BinOp::Add, Box::new(Expr::Call(p, vec![n_minus_1(), by_value_acc()])), Box::new(Expr::Lit(Lit::Whole(off))));
                    let mut first_items = vec![CaseItem::Val(rec_item)];
                    if self.t.chance(1, 2) {
                        first_items.insert(0, CaseItem::Val(Expr::Lit(Lit::Whole(0))));
                    }
                    let self_item = match self.t.choose(3) {
                        0 => CaseItem::Val(Expr::Load(n.clone())),
                        1 => CaseItem::Range(Expr::Load(n.clone()), Expr::Load(n.clone())),
                        _ => CaseItem::Is(BinOp::Eq, Expr::Load(n.clone())),
                    };
                    vec![
                        Stmt::Select {
                            subject: Expr::Load(n.clone()),
                            cases: vec![
                                (first_items, vec![Stmt::Print(vec![PrintItem::E(Expr::Lit(Lit::Str("m1".into()))), PrintItem::Semi, PrintItem::E(Expr::Load(n.clone()))]), Stmt::Assign(res.clone(), Expr::Lit(Lit::Whole(1)))]),
                                (vec![CaseItem::Is(BinOp::Gt, Expr::Lit(Lit::Whole(100)))], vec![Stmt::Print(vec![PrintItem::E(Expr::Lit(Lit::Str("m2".into())))])]),
                                (vec![self_item], vec![Stmt::Print(vec![PrintItem::E(Expr::Lit(Lit::Str("self".into()))), PrintItem::Semi, PrintItem::E(Expr::Load(n.clone()))]), Stmt::Assign(res.clone(), Expr::Bin(BinOp::Add, Box::new(Expr::Load(acc.clone())), Box::new(Expr::Load(loc.clone()))))]),
                            ],
                            else_: Some(vec![Stmt::Print(vec![PrintItem::E(Expr::Lit(Lit::Str("else".into()))), PrintItem::Semi, PrintItem::E(Expr::Load(n.clone()))])]),
                        },
                    ]
                }
            };
            let body = vec![
                // a fresh local must read 0 in every activation
                Stmt::Print(vec![PrintItem::E(Expr::Lit(Lit::Str("r".into()))), PrintItem::Semi, PrintItem::E(Expr::Load(n.clone())), PrintItem::Semi, PrintItem::E(Expr::Load(loc.clone()))]),
                Stmt::Assign(loc.clone(), Expr::Bin(BinOp::Mul, Box::new(Expr::Load(n.clone())), Box::new(Expr::Lit(Lit::Whole(k))))),
                Stmt::If {
                    arms: if shape == 2 {
                        // the FOR shape multiplies the number of activations: large arguments restart at 4
                        vec![
                            (Expr::Bin(BinOp::Le, Box::new(Expr::Load(n.clone())), Box::new(Expr::Lit(Lit::Whole(0)))), vec![Stmt::Assign(res.clone(), Expr::Load(acc.clone()))]),
                            (Expr::Bin(BinOp::Gt, Box::new(Expr::Load(n.clone())), Box::new(Expr::Lit(Lit::Whole(4)))), vec![Stmt::Assign(res.clone(), Expr::Call(p, vec![Expr::Lit(Lit::Whole(4)), by_value_acc()]))]),
                        ]
                    } else {
                        vec![(Expr::Bin(BinOp::Le, Box::new(Expr::Load(n.clone())), Box::new(Expr::Lit(Lit::Whole(0)))), vec![Stmt::Assign(res.clone(), Expr::Load(acc.clone()))])]
                    },
                    else_: Some(recursive_part),
                },
            ];
            let vars = vec![
                VarInfo { name: "N%".into(), sty: STy::B(Ty::Int), bounds: vec![], shared: false },
                VarInfo { name: "ACC&".into(), sty: STy::B(Ty::Long), bounds: vec![], shared: false },
                VarInfo { name: "LOC%".into(), sty: STy::B(Ty::Int), bounds: vec![], shared: false },
                VarInfo { name: name.clone(), sty: STy::B(Ty::Long), bounds: vec![], shared: false },
                VarInfo { name: "J%".into(), sty: STy::B(Ty::Int), bounds: vec![], shared: false },
                VarInfo { name: "T&".into(), sty: STy::B(Ty::Long), bounds: vec![], shared: false },
            ];
            let params = vec![Param { name: "N%".into(), var: 0, sty: STy::B(Ty::Int), array: false, extended: false }, Param { name: "ACC&".into(), var: 1, sty: STy::B(Ty::Long), array: false, extended: false }];
            self.prog.procs.push(Proc { name, ret: Some(Ty::Long), params, is_static: false, body, vars, result_var: Some(3) });
        }
        // main
        self.in_proc = None;
        self.scope = main_scope;
        self.callable = (0..self.prog.procs.len()).collect();
        self.name_salt = 0;
        self.counter_seq = 0;
        let mut main = prelude;
        let target = 3 + self.t.choose(self.cfg.max_stmts.saturating_sub(2).max(1));
        self.stmts_left = target;
        while self.stmts_left > 0 {
            self.stmt_into(0, &mut main);
        }
        // every procedure is called at least once, STATIC ones twice
        for p in 0..self.prog.procs.len() {
            let times = if self.prog.procs[p].is_static { 2 } else { 1 };
            for _ in 0..times {
                let args = self.call_args(p, 1);
                if self.prog.procs[p].ret.is_some() {
                    main.push(Stmt::Print(vec![PrintItem::E(Expr::Call(p, args))]));
                } else {
                    main.push(Stmt::CallSub(p, args));
                }
            }
        }
        if let Some(p) = forced_rec {
            let n = 2 + self.t.choose(2) as i64;
            main.push(Stmt::Print(vec![PrintItem::E(Expr::Call(p, vec![Expr::Lit(Lit::Whole(n)), Expr::Lit(Lit::Whole(0))]))]));
        }
        self.closing_print(&mut main);
        self.prog.main = main;
        self.prog
    }
}

fn lit_i(v: i64) -> Expr {
    if v < 0 { Expr::Un(UnOp::Neg, Box::new(Expr::Lit(Lit::Whole(-v)))) } else { Expr::Lit(Lit::Whole(v)) }
}

// ------------------------------------------------------------------------------------------------
// Control-flow trace programs (C05): every statement prints a token, so stdout is the executed path.
// ------------------------------------------------------------------------------------------------

fn sv(name: &str, var: usize, ty: Ty) -> LValue {
    LValue { name: name.to_string(), var, index: vec![], fields: vec![], sty: STy::B(ty) }
}
fn ld(l: &LValue) -> Expr {
    Expr::Load(l.clone())
}
fn s_lit(s: &str) -> Expr {
    Expr::Lit(Lit::Str(s.to_string()))
}
fn pr(items: Vec<Expr>) -> Stmt {
    let mut v = vec![];
    for (i, e) in items.into_iter().enumerate() {
        if i > 0 {
            v.push(PrintItem::Semi);
        }
        v.push(PrintItem::E(e));
    }
    Stmt::Print(v)
}
fn b(op: BinOp, a: Expr, c: Expr) -> Expr {
    Expr::Bin(op, Box::new(a), Box::new(c))
}

pub struct ControlVars {
    z: LValue,
    big: LValue,
    idx: LValue,
    n: LValue,
    small: LValue,
    sres: LValue,
    tres: LValue,
    arr: usize,
    cnt: LValue,
    /// a two-parameter FUNCTION (index into procs) for failing statements inside nested call arguments
    cf: Option<usize>,
}

impl<'t, 'c> Gen<'t, 'c> {
    fn tok(&mut self, prefix: &str) -> Stmt {
        self.trace_seq += 1;
        pr(vec![s_lit(&format!("{}{}", prefix, self.trace_seq))])
    }

    /// a trace token that also shows ERR (0 again after every kind of RESUME)
    fn tok_err(&mut self, prefix: &str) -> Stmt {
        self.trace_seq += 1;
        pr(vec![s_lit(&format!("{}{}", prefix, self.trace_seq)), Expr::BuiltIn { name: "ERR".into(), args: vec![], ty: Ty::Int }])
    }

    fn new_label(&mut self, prefix: &str) -> String {
        self.label_seq += 1;
        format!("{}{}", prefix, self.label_seq)
    }

    /// [poison; failing statement] of a kind; `kind` 4 (out of data) only when asked.
    fn failing(&mut self, cv: &ControlVars, kind: usize) -> Vec<Stmt> {
        match kind {
            0 => vec![Stmt::Assign(cv.z.clone(), lit_i(0)), Stmt::Assign(cv.sres.clone(), b(BinOp::Div, Expr::Lit(Lit::Frac { num: 17, shift: 1, double: false }), ld(&cv.z)))],
            1 => vec![Stmt::Assign(cv.big.clone(), Expr::Lit(Lit::Whole(100000))), Stmt::Assign(cv.small.clone(), ld(&cv.big))],
            2 => vec![
                Stmt::Assign(cv.idx.clone(), lit_i(*self.t.pick(&[5i64, 3, -1, 99]))),
                Stmt::Assign(LValue { name: "ARR%".into(), var: cv.arr, index: vec![ld(&cv.idx)], fields: vec![], sty: STy::B(Ty::Int) }, lit_i(7)),
            ],
            3 => vec![Stmt::Assign(cv.n.clone(), lit_i(-1)), Stmt::Assign(cv.tres.clone(), Expr::BuiltIn { name: "LEFT$".into(), args: vec![s_lit("abcdef"), ld(&cv.n)], ty: Ty::Str })],
            5 => {
                // the error is raised while the arguments of a call nested in another call's arguments are collected
                let cf = cv.cf.expect("nested-call failing statement needs the helper function");
                let inner = Expr::Call(cf, vec![lit_i(2), b(BinOp::Div, lit_i(10), ld(&cv.z))]);
                vec![Stmt::Assign(cv.z.clone(), lit_i(0)), Stmt::Assign(cv.small.clone(), Expr::Call(cf, vec![lit_i(1), inner]))]
            }
            6 => {
                // the statement has pushed a partial result, called a function (which returned), and fails afterwards
                let cf = cv.cf.expect("failing statement after a call needs the helper function");
                let sum = b(BinOp::Add, lit_i(1), Expr::Call(cf, vec![lit_i(1), lit_i(2)]));
                vec![Stmt::Assign(cv.z.clone(), lit_i(0)), Stmt::Assign(cv.sres.clone(), b(BinOp::Add, sum, b(BinOp::Div, lit_i(10), ld(&cv.z))))]
            }
            7 => {
                // GET / PUT with record number 0 or below: Bad record number (63); needs the RANDOM file #3 of the prelude
                let bad = *self.t.pick(&[0i64, -1]);
                let text = if self.t.chance(1, 2) { "GET #3, {v}" } else { "PUT #3, {v}" };
                vec![Stmt::Assign(cv.n.clone(), lit_i(bad)), Stmt::Opaque { text: text.to_string(), var: Some(cv.n.clone()), bad: vec![0, -1], code: 63 }]
            }
            _ => vec![Stmt::Read(vec![cv.small.clone()])],
        }
    }

    /// [poison; block statement whose HEADER fails]: the condition of an IF / ELSEIF, a CASE value, the condition of a
    /// top-tested loop. After the repair (Z% = 2) the condition holds 5: RESUME re-executes the block statement, which then
    /// takes the arm with the failing condition (IF / CASE) or runs / skips the loop.
    fn failing_header(&mut self, cv: &ControlVars) -> Vec<Stmt> {
        let quot = || b(BinOp::Div, lit_i(10), ld(&cv.z));
        let poison = Stmt::Assign(cv.z.clone(), lit_i(0));
        let (e1, e2, c1) = (self.tok("e"), self.tok("e"), self.tok("c"));
        let st = match self.t.choose(6) {
            0 => Stmt::If { arms: vec![(b(BinOp::Ge, quot(), lit_i(1)), vec![c1]), (lit_i(-1), vec![e1])], else_: Some(vec![e2]) },
            1 => Stmt::If { arms: vec![(lit_i(0), vec![e1]), (b(BinOp::Ge, quot(), lit_i(1)), vec![c1])], else_: Some(vec![e2]) },
            2 => Stmt::If { arms: vec![(lit_i(0), vec![e1]), (b(BinOp::Eq, quot(), lit_i(1)), vec![e2]), (b(BinOp::Eq, quot(), lit_i(5)), vec![c1])], else_: None },
            3 => Stmt::Select { subject: lit_i(5), cases: vec![(vec![CaseItem::Val(lit_i(1))], vec![e1]), (vec![CaseItem::Val(quot())], vec![c1])], else_: Some(vec![e2]) },
            4 => Stmt::Select { subject: lit_i(5), cases: vec![(vec![CaseItem::Val(lit_i(1)), CaseItem::Is(BinOp::Lt, quot())], vec![e1]), (vec![CaseItem::Val(lit_i(5))], vec![c1])], else_: Some(vec![e2]) },
            _ => Stmt::Do { kind: DoKind::TopUntil, cond: b(BinOp::Ge, quot(), lit_i(1)), body: vec![e1, Stmt::Assign(cv.z.clone(), lit_i(1))] },
        };
        vec![poison, st]
    }

    fn repairs(&self, cv: &ControlVars) -> Vec<Stmt> {
        vec![Stmt::Assign(cv.z.clone(), lit_i(2)), Stmt::Assign(cv.big.clone(), lit_i(12)), Stmt::Assign(cv.idx.clone(), lit_i(1)), Stmt::Assign(cv.n.clone(), lit_i(2))]
    }

    /// Wraps statements in an encloser so that they sit first / in the middle / last in a block.
    fn enclose(&mut self, inner: Vec<Stmt>) -> Vec<Stmt> {
        let pos = self.t.choose(3);
        let mut body = vec![];
        if pos >= 1 {
            body.push(self.tok("b"));
        }
        body.extend(inner);
        if pos <= 1 && self.t.chance(2, 3) {
            body.push(self.tok("a"));
        }
        match self.t.choose(14) {
            0 => body,
            10 | 11 | 12 | 13 => {
                // loops whose counter moves FIRST: the (failing) statement can be the last one of the body, directly
                // in front of the loop's closing line and its condition
                let c = self.fresh_counter(Ty::Int);
                let mut bd = vec![Stmt::Assign(c.clone(), b(BinOp::Add, ld(&c), lit_i(1)))];
                bd.extend(body);
                let init = Stmt::Assign(c.clone(), lit_i(0));
                let lp = match self.t.choose(5) {
                    0 => Stmt::Do { kind: DoKind::BottomWhile, cond: b(BinOp::Lt, ld(&c), lit_i(2)), body: bd },
                    1 => Stmt::Do { kind: DoKind::BottomUntil, cond: b(BinOp::Ge, ld(&c), lit_i(2)), body: bd },
                    2 => Stmt::While { cond: b(BinOp::Lt, ld(&c), lit_i(2)), body: bd },
                    3 => Stmt::Do { kind: DoKind::TopUntil, cond: b(BinOp::Ge, ld(&c), lit_i(2)), body: bd },
                    _ => Stmt::Do { kind: DoKind::TopWhile, cond: b(BinOp::Lt, ld(&c), lit_i(2)), body: bd },
                };
                vec![init, lp]
            }
            1 => vec![Stmt::If { arms: vec![(lit_i(-1), body)], else_: None }],
            7 => {
                if self.t.chance(1, 2) {
                    // the block is followed by ELSEIF blocks (true or false) and no ELSE: none of them may run
                    let e1 = self.tok("e");
                    let e2 = self.tok("e");
                    let c1 = if self.t.chance(1, 2) { lit_i(-1) } else { lit_i(0) };
                    return vec![Stmt::If { arms: vec![(lit_i(-1), body), (c1, vec![e1]), (lit_i(-1), vec![e2])], else_: None }];
                }
                // the block is followed by an ELSE block that must not run
                let e = self.tok("e");
                vec![Stmt::If { arms: vec![(lit_i(-1), body)], else_: Some(vec![e]) }]
            }
            8 => {
                let e1 = self.tok("e");
                let e2 = self.tok("e");
                let e3 = self.tok("e");
                vec![Stmt::If { arms: vec![(lit_i(0), vec![e1]), (lit_i(-1), body), (lit_i(-1), vec![e2])], else_: Some(vec![e3]) }]
            }
            9 => {
                let e1 = self.tok("e");
                let e2 = self.tok("e");
                vec![Stmt::Select { subject: lit_i(1), cases: vec![(vec![CaseItem::Val(lit_i(1))], body), (vec![CaseItem::Val(lit_i(1)), CaseItem::Val(lit_i(2))], vec![e1])], else_: Some(vec![e2]) }]
            }
            2 => {
                let c = self.fresh_counter(Ty::Int);
                vec![Stmt::For { var: c, from: lit_i(1), to: lit_i(2), step: None, body, next_names: false }]
            }
            3 => {
                let c = self.fresh_counter(Ty::Int);
                let mut bd = body;
                bd.push(Stmt::Assign(c.clone(), b(BinOp::Add, ld(&c), lit_i(1))));
                vec![Stmt::Assign(c.clone(), lit_i(0)), Stmt::While { cond: b(BinOp::Lt, ld(&c), lit_i(2)), body: bd }]
            }
            4 => {
                let c = self.fresh_counter(Ty::Int);
                let mut bd = body;
                bd.push(Stmt::Assign(c.clone(), b(BinOp::Add, ld(&c), lit_i(1))));
                vec![Stmt::Assign(c.clone(), lit_i(0)), Stmt::Do { kind: DoKind::BottomUntil, cond: b(BinOp::Ge, ld(&c), lit_i(2)), body: bd }]
            }
            5 => vec![Stmt::Select { subject: lit_i(1), cases: vec![(vec![CaseItem::Val(lit_i(1))], body)], else_: None }],
            6 => {
                let c = self.fresh_counter(Ty::Int);
                vec![Stmt::For { var: c, from: lit_i(2), to: lit_i(1), step: Some(lit_i(-1)), body, next_names: false }]
            }
            _ => unreachable!(),
        }
    }

    /// A nest of loops with a GOTO that leaves the inner loop(s); counters are printed afterwards.
    fn goto_out_nest(&mut self) -> Vec<Stmt> {
        let a = self.fresh_counter(Ty::Int);
        let bb = self.fresh_counter(Ty::Int);
        let label = self.new_label("LX");
        let inner_kind = *self.t.pick(&[2usize, 0, 1, 2]);
        let target_inside_outer = self.t.chance(2, 3);
        let trig = 1 + self.t.choose(2) as i64;
        let jump = Stmt::IfLine { cond: b(BinOp::Eq, ld(&bb), lit_i(trig)), then_: vec![Stmt::Goto(label.clone())], else_: None };
        let inner_body = vec![pr(vec![s_lit("i"), ld(&a), ld(&bb)]), jump];
        let inner: Vec<Stmt> = match inner_kind {
            0 => vec![Stmt::For { var: bb.clone(), from: lit_i(1), to: lit_i(3), step: None, body: inner_body, next_names: false }],
            1 => vec![Stmt::For { var: bb.clone(), from: lit_i(3), to: lit_i(1), step: Some(lit_i(-1)), body: inner_body, next_names: false }],
            _ => {
                let mut bd = vec![Stmt::Assign(bb.clone(), b(BinOp::Add, ld(&bb), lit_i(1)))];
                bd.extend(inner_body);
                vec![Stmt::Assign(bb.clone(), lit_i(0)), Stmt::While { cond: b(BinOp::Lt, ld(&bb), lit_i(3)), body: bd }]
            }
        };
        let mut outer_body = inner;
        outer_body.push(self.tok("n"));
        if target_inside_outer {
            outer_body.push(Stmt::Label(label.clone()));
            outer_body.push(pr(vec![s_lit("o"), ld(&a), ld(&bb)]));
        }
        let outer_step = match self.t.choose(3) {
            0 => None,
            1 => Some(lit_i(1)),
            _ => Some(lit_i(2)),
        };
        let mut v = if self.t.chance(1, 2) {
            vec![Stmt::For { var: a.clone(), from: lit_i(1), to: lit_i(3), step: outer_step, body: outer_body, next_names: false }]
        } else {
            // outer loop as a DO with the counter advanced first (so that a jump to a label in the body cannot skip it)
            let mut bd = vec![Stmt::Assign(a.clone(), b(BinOp::Add, ld(&a), lit_i(1)))];
            bd.extend(outer_body);
            vec![Stmt::Assign(a.clone(), lit_i(0)), Stmt::Do { kind: DoKind::TopWhile, cond: b(BinOp::Lt, ld(&a), lit_i(3)), body: bd }]
        };
        if !target_inside_outer {
            v.push(self.tok("s"));
            v.push(Stmt::Label(label));
        }
        v.push(pr(vec![s_lit("e"), ld(&a), ld(&bb)]));
        v
    }

    pub fn control_program(mut self) -> Program {
        // module-level state
        let z = sv("Z%", self.add_var("Z%".into(), STy::B(Ty::Int), vec![], true), Ty::Int);
        let big = sv("BIG&", self.add_var("BIG&".into(), STy::B(Ty::Long), vec![], true), Ty::Long);
        let idx = sv("IDX%", self.add_var("IDX%".into(), STy::B(Ty::Int), vec![], true), Ty::Int);
        let n = sv("N%", self.add_var("N%".into(), STy::B(Ty::Int), vec![], true), Ty::Int);
        let small = sv("SM%", self.add_var("SM%".into(), STy::B(Ty::Int), vec![], true), Ty::Int);
        let sres = sv("SR!", self.add_var("SR!".into(), STy::B(Ty::Single), vec![], true), Ty::Single);
        let tres = sv("TR$", self.add_var("TR$".into(), STy::B(Ty::Str), vec![], true), Ty::Str);
        let cnt = sv("CNT%", self.add_var("CNT%".into(), STy::B(Ty::Int), vec![], true), Ty::Int);
        let sentinel = sv("SENT%", self.add_var("SENT%".into(), STy::B(Ty::Int), vec![], true), Ty::Int);
        let tries = sv("TRY%", self.add_var("TRY%".into(), STy::B(Ty::Int), vec![], true), Ty::Int);
        let arr = self.add_var("ARR%".into(), STy::B(Ty::Int), vec![(0, 2)], true);
        let mut cv = ControlVars { z, big, idx, n, small, sres, tres, arr, cnt, cf: None };
        let mut main: Vec<Stmt> = vec![];
        main.push(Stmt::Dim(Dim { var: arr, name: "ARR%".into(), bounds: vec![(0, 2)], explicit_lower: false, sty: STy::B(Ty::Int), extended: false, shared: false, redim: 0 }));
        main.push(Stmt::Assign(sentinel.clone(), lit_i(77)));
        // a RANDOM file on handle 3 (for failing GET / PUT statements)
        let random_file = self.t.chance(1, 3);
        if random_file {
            main.push(Stmt::Opaque { text: "OPEN \"c05r.tmp\" FOR RANDOM AS #3 LEN = 4".into(), var: None, bad: vec![], code: 0 });
            main.push(Stmt::Opaque { text: "FIELD #3, 4 AS ZF$".into(), var: None, bad: vec![], code: 0 });
        }
        // optionally: subprograms whose bodies hold a failing statement (handled by the module-level handler)
        let mut sub_ids: Vec<usize> = vec![];
        let mut extra_routines: Vec<Stmt> = vec![];
        if self.t.chance(1, 2) {
            let shared: [(&str, Ty); 6] = [("Z%", Ty::Int), ("BIG&", Ty::Long), ("N%", Ty::Int), ("SM%", Ty::Int), ("SR!", Ty::Single), ("TR$", Ty::Str)];
            for (nm, ty) in shared.iter() {
                let gi = self.prog.vars.iter().position(|v| v.name == *nm).unwrap();
                self.prog.vars[gi].shared = true;
                main.push(Stmt::Dim(Dim { var: gi, name: nm.to_string(), bounds: vec![], explicit_lower: false, sty: STy::B(*ty), extended: false, shared: true, redim: 0 }));
            }
            // helper function for failing statements nested in call arguments
            {
                let vars = vec![
                    VarInfo { name: "A%".into(), sty: STy::B(Ty::Int), bounds: vec![], shared: false },
                    VarInfo { name: "B%".into(), sty: STy::B(Ty::Int), bounds: vec![], shared: false },
                    VarInfo { name: "CF%".into(), sty: STy::B(Ty::Int), bounds: vec![], shared: false },
                ];
                let params = vec![Param { name: "A%".into(), var: 0, sty: STy::B(Ty::Int), array: false, extended: false }, Param { name: "B%".into(), var: 1, sty: STy::B(Ty::Int), array: false, extended: false }];
                let body = vec![Stmt::Assign(sv("CF%", 2, Ty::Int), b(BinOp::Add, ld(&sv("A%", 0, Ty::Int)), ld(&sv("B%", 1, Ty::Int))))];
                cv.cf = Some(self.prog.procs.len());
                self.prog.procs.push(Proc { name: "CF%".into(), ret: Some(Ty::Int), params, is_static: false, body, vars, result_var: Some(2) });
            }
            let nsubs = 1 + self.t.choose(2);
            for k in 0..nsubs {
                let p = self.prog.procs.len();
                let mut vars: Vec<VarInfo> = vec![];
                let mut lv: Vec<LValue> = vec![];
                for (nm, ty) in shared.iter() {
                    vars.push(VarInfo { name: nm.to_string(), sty: STy::B(*ty), bounds: vec![], shared: true });
                    lv.push(sv(nm, vars.len() - 1, *ty));
                }
                self.prog.procs.push(Proc { name: format!("CS{}", k + 1), ret: None, params: vec![], is_static: false, body: vec![], vars: vars.clone(), result_var: None });
                let main_scope = std::mem::take(&mut self.scope);
                self.in_proc = Some(p);
                for (i, v) in vars.iter().enumerate() {
                    self.scope.push(ScopeVar { idx: i, name: v.name.clone(), sty: v.sty.clone(), bounds: vec![], reserved: true, readable: true });
                }
                let pcv = ControlVars { z: lv[0].clone(), big: lv[1].clone(), idx: lv[0].clone(), n: lv[2].clone(), small: lv[3].clone(), sres: lv[4].clone(), tres: lv[5].clone(), arr: 0, cnt: lv[0].clone(), cf: cv.cf };
                let mut body = vec![self.tok("s")];
                if k > 0 && self.t.chance(1, 2) {
                    body.push(Stmt::CallSub(sub_ids[0], vec![]));
                    body.push(self.tok("v"));
                }
                // a GOSUB routine of the subprogram's own; it ends with RETURN or leaves the subprogram with its GOSUB
                // still pending (which is over then: a later RETURN of the caller must not see it)
                let own_routine = if self.t.chance(1, 3) { Some(format!("PR{}", k + 1)) } else { None };
                if let Some(l) = &own_routine {
                    body.push(Stmt::Gosub(l.clone()));
                    body.push(self.tok("j"));
                }
                // now and then a RETURN although the subprogram has no GOSUB pending (whatever its callers have pending is theirs)
                if own_routine.is_none() && self.t.chance(1, 5) {
                    body.push(Stmt::Return);
                    body.push(self.tok("y"));
                }
                let kind = *self.t.pick(&[0usize, 1, 3, 5, 6, 5, 6]);
                let f = self.failing(&pcv, kind);
                let e = self.enclose(f);
                body.extend(e);
                // otherwise the block with the failing statement is the last statement of the subprogram
                if self.t.chance(2, 3) {
                    body.push(self.tok("u"));
                }
                if let Some(l) = own_routine {
                    body.push(Stmt::ExitProc);
                    body.push(Stmt::Label(l));
                    body.push(self.tok("p"));
                    if k > 0 && self.t.chance(1, 2) {
                        // another subprogram is called while this one's GOSUB is pending (two calls deep)
                        body.push(Stmt::CallSub(sub_ids[0], vec![]));
                        body.push(self.tok("v"));
                    }
                    body.push(if self.t.chance(1, 2) { Stmt::Return } else { Stmt::ExitProc });
                }
                self.prog.procs[p].body = body;
                self.in_proc = None;
                self.scope = main_scope;
                sub_ids.push(p);
            }
        }
        let nh = 1 + self.t.choose(2);
        let handler_labels: Vec<String> = (0..nh).map(|k| format!("H{}", k + 1)).collect();
        let nr = self.t.choose(3);
        let routine_labels: Vec<String> = (0..nr).map(|k| format!("R{}", k + 1)).collect();
        let resume_targets: Vec<String> = (0..nh).map(|k| format!("LR{}", k + 1)).collect();
        let mut target_placed: Vec<bool> = vec![false; nh];
        let mut handler_resume: Vec<usize> = vec![];
        for _ in 0..nh {
            // 0 = RESUME NEXT (simplest), 1 = RESUME, 2 = RESUME label, 3 = RESUME twice (after the repairs), then RESUME NEXT:
            // a statement that cannot be repaired (a stray RETURN or RESUME) is re-executed - and nothing before it - twice
            handler_resume.push(self.t.choose(4));
        }
        // a landing label of RESUME <label> sits in the main line or, now and then, inside a GOSUB routine (the RETURN
        // that follows it needs the GOSUB that was pending when the error happened)
        let target_in_routine: Vec<Option<usize>> = (0..nh).map(|_| if nr > 0 && self.t.chance(1, 3) { Some(self.t.choose(nr)) } else { None }).collect();
        let mut active: Option<usize> = None;
        let segs = 2 + self.t.choose(7);
        let mut has_data = false;
        if self.t.chance(2, 3) {
            let h = self.t.choose(nh);
            main.push(Stmt::OnErrorGoto(Some(handler_labels[h].clone())));
            active = Some(h);
        }
        for _ in 0..segs {
            match self.t.choose(15) {
                0 | 1 => main.push(self.tok("t")),
                12 | 13 => {
                    // call of a subprogram that fails inside
                    if sub_ids.is_empty() {
                        main.push(self.tok("t"));
                    } else {
                        let p = sub_ids[self.t.choose(sub_ids.len())];
                        let c = vec![Stmt::CallSub(p, vec![])];
                        let e = if self.t.chance(1, 3) { self.enclose(c) } else { c };
                        main.extend(e);
                        main.push(self.tok("p"));
                    }
                }
                14 => {
                    // RETURN <label>: the GOSUB is over, control continues at the label
                    self.label_seq += 1;
                    let n = self.label_seq;
                    let (ro, ri, sk) = (format!("RO{}", n), format!("RI{}", n), format!("SK{}", n));
                    if self.t.chance(1, 2) {
                        // nested: the inner routine returns to a label inside the outer one, whose RETURN must go back to the main line
                        main.push(Stmt::Gosub(ro.clone()));
                        main.push(self.tok("g"));
                        extra_routines.push(Stmt::Label(ro));
                        extra_routines.push(self.tok("o"));
                        extra_routines.push(Stmt::Gosub(ri.clone()));
                        extra_routines.push(self.tok("skipped"));
                        extra_routines.push(Stmt::Label(sk.clone()));
                        extra_routines.push(self.tok("o"));
                        extra_routines.push(Stmt::Return);
                        extra_routines.push(Stmt::Label(ri));
                        extra_routines.push(self.tok("i"));
                        extra_routines.push(Stmt::ReturnTo(sk));
                    } else {
                        main.push(Stmt::Gosub(ri.clone()));
                        main.push(self.tok("skipped"));
                        main.push(Stmt::Label(sk.clone()));
                        main.push(self.tok("g"));
                        // a RETURN now has no GOSUB left to return to (error 3) - only sometimes, it ends the run
                        if self.t.chance(1, 6) {
                            main.push(Stmt::Return);
                        }
                        extra_routines.push(Stmt::Label(ri));
                        extra_routines.push(self.tok("i"));
                        extra_routines.push(Stmt::ReturnTo(sk));
                    }
                }
                2 | 3 => {
                    // enable / switch / disable a handler
                    if active.is_some() && self.t.chance(1, 4) {
                        main.push(Stmt::OnErrorGoto(None));
                        active = None;
                    } else {
                        let h = self.t.choose(nh);
                        main.push(Stmt::OnErrorGoto(Some(handler_labels[h].clone())));
                        active = Some(h);
                    }
                }
                4 | 5 | 6 => {
                    // failing statement somewhere in a block; out-of-DATA only where RESUME would not retry it
                    let allow_read = active.map(|h| handler_resume[h] != 1).unwrap_or(true);
                    let mut kind = if allow_read { self.t.choose(5) } else { self.t.choose(4) };
                    if cv.cf.is_some() && self.t.chance(1, 4) {
                        kind = 5 + self.t.choose(2);
                    }
                    if kind == 4 {
                        has_data = true;
                    }
                    if random_file && self.t.chance(1, 6) {
                        kind = 7;
                    }
                    // now and then the failing piece is the header of a block statement (the statements do not say where
                    // RESUME NEXT continues then: only under a handler that ends in RESUME / RESUME label, or without handler)
                    let header_ok = active.map(|h| handler_resume[h] != 0).unwrap_or(true);
                    let f = if header_ok && self.t.chance(1, 4) { self.failing_header(&cv) } else { self.failing(&cv, kind) };
                    let e = self.enclose(f);
                    main.extend(e);
                    main.push(self.tok("c"));
                }
                7 | 8 => {
                    let v = self.goto_out_nest();
                    main.extend(v);
                }
                9 => {
                    if nr > 0 {
                        let r = self.t.choose(nr);
                        let g = vec![Stmt::Gosub(routine_labels[r].clone())];
                        let e = if self.t.chance(1, 2) { self.enclose(g) } else { g };
                        main.extend(e);
                        main.push(self.tok("g"));
                    } else {
                        main.push(self.tok("t"));
                    }
                }
                10 => {
                    // counter-guarded backward GOTO
                    let l = self.new_label("LB");
                    main.push(Stmt::Assign(cv.cnt.clone(), lit_i(0)));
                    main.push(Stmt::Label(l.clone()));
                    main.push(Stmt::Assign(cv.cnt.clone(), b(BinOp::Add, ld(&cv.cnt), lit_i(1))));
                    main.push(pr(vec![s_lit("k"), ld(&cv.cnt)]));
                    main.push(Stmt::IfLine { cond: b(BinOp::Lt, ld(&cv.cnt), lit_i(3)), then_: vec![Stmt::Goto(l)], else_: None });
                }
                _ => {
                    // forward GOTO over a token; rarely a stray RETURN / RESUME
                    match self.t.choose(9) {
                        0 | 2 => {
                            // (a counter before it shows whether anything in front of the failing statement is executed again)
                            main.push(Stmt::Assign(cv.cnt.clone(), b(BinOp::Add, ld(&cv.cnt), lit_i(1))));
                            main.push(Stmt::Return);
                            main.push(pr(vec![s_lit("y"), ld(&cv.cnt)]));
                        }
                        1 => main.push(Stmt::Resume(ResumeKind::Next)),
                        // RESUME <label> reached while no error is being handled: error 20 like the other forms
                        8 => main.push(Stmt::ResumeLabel(resume_targets[self.t.choose(nh)].clone())),
                        _ => {
                            let l = self.new_label("LF");
                            main.push(Stmt::Goto(l.clone()));
                            main.push(self.tok("x"));
                            main.push(Stmt::Label(l));
                        }
                    }
                }
            }
            // a landing label for RESUME <label> handlers, placed after some segment
            if let Some(k) = (0..nh).find(|k| !target_placed[*k] && target_in_routine[*k].is_none()) {
                if self.t.chance(1, 3) {
                    main.push(Stmt::Label(resume_targets[k].clone()));
                    main.push(self.tok_err("l"));
                    target_placed[k] = true;
                }
            }
        }
        for k in 0..nh {
            if !target_placed[k] && target_in_routine[k].is_none() {
                main.push(Stmt::Label(resume_targets[k].clone()));
                main.push(self.tok_err("l"));
                target_placed[k] = true;
                // now and then a RETURN right after the landing label, once: whatever GOSUBs the abandoned procedures had
                // pending are gone with them, only the main module's own count
                if self.t.chance(1, 3) {
                    let c2 = match self.prog.vars.iter().position(|x| x.name == "CN2%") {
                        Some(i) => sv("CN2%", i, Ty::Int),
                        None => sv("CN2%", self.add_var("CN2%".into(), STy::B(Ty::Int), vec![], true), Ty::Int),
                    };
                    main.push(Stmt::Assign(c2.clone(), b(BinOp::Add, ld(&c2), lit_i(1))));
                    main.push(Stmt::IfLine { cond: b(BinOp::Eq, ld(&c2), lit_i(1)), then_: vec![Stmt::Return], else_: None });
                    main.push(self.tok("y"));
                }
            }
        }
        main.push(pr(vec![s_lit("end"), Expr::BuiltIn { name: "ERR".into(), args: vec![], ty: Ty::Int }, ld(&sentinel), ld(&cv.z), ld(&cv.big), ld(&cv.idx), ld(&cv.n), ld(&cv.small), ld(&cv.sres), ld(&cv.tres)]));
        main.push(Stmt::End);
        // GOSUB routines
        for (k, l) in routine_labels.iter().enumerate() {
            main.push(Stmt::Label(l.clone()));
            main.push(self.tok("r"));
            if k + 1 < nr && self.t.chance(1, 2) {
                main.push(Stmt::Gosub(routine_labels[k + 1].clone()));
                main.push(self.tok("q"));
            }
            if self.t.chance(1, 4) {
                let kk = self.t.choose(4);
                let f = self.failing(&cv, kk);
                main.extend(f);
                main.push(self.tok("w"));
            }
            // a subprogram called while this routine's GOSUB is pending
            if !sub_ids.is_empty() && self.t.chance(1, 3) {
                let p = sub_ids[self.t.choose(sub_ids.len())];
                main.push(Stmt::CallSub(p, vec![]));
                main.push(self.tok("z"));
            }
            // a landing label for RESUME <label> inside the routine: the RETURN that follows needs the GOSUB that was
            // pending when the error happened
            for t in 0..nh {
                if target_in_routine[t] == Some(k) {
                    main.push(Stmt::Label(resume_targets[t].clone()));
                    main.push(self.tok_err("l"));
                }
            }
            main.push(Stmt::Return);
        }
        main.extend(extra_routines);
        // handlers
        for (k, l) in handler_labels.iter().enumerate() {
            main.push(Stmt::Label(l.clone()));
            main.push(pr(vec![s_lit(&format!("h{}", k + 1)), Expr::BuiltIn { name: "ERR".into(), args: vec![], ty: Ty::Int }]));
            main.push(Stmt::Assign(sentinel.clone(), b(BinOp::Add, ld(&sentinel), lit_i(1))));
            match handler_resume[k] {
                0 => main.push(Stmt::Resume(ResumeKind::Next)),
                1 => {
                    main.extend(self.repairs(&cv));
                    main.push(Stmt::Resume(ResumeKind::Same));
                }
                3 => {
                    main.extend(self.repairs(&cv));
                    main.push(Stmt::Assign(tries.clone(), b(BinOp::Add, ld(&tries), lit_i(1))));
                    main.push(Stmt::IfLine { cond: b(BinOp::Lt, ld(&tries), lit_i(3)), then_: vec![Stmt::Resume(ResumeKind::Same)], else_: None });
                    main.push(Stmt::Assign(tries.clone(), lit_i(0)));
                    main.push(Stmt::Resume(ResumeKind::Next));
                }
                _ => main.push(Stmt::ResumeLabel(resume_targets[k].clone())),
            }
        }
        if has_data && self.t.chance(1, 2) {
            main.push(Stmt::Data(vec![DataItem::Num(false, Lit::Whole(5))]));
        }
        self.prog.main = main;
        self.prog
    }
}

// ------------------------------------------------------------------------------------------------
// Arrays, records and fixed-length strings (C04)
// ------------------------------------------------------------------------------------------------

#[derive(Clone)]
struct ArrInfo {
    var: usize,
    name: String,
    bounds: Vec<(i32, i32)>,
    sty: STy,
    /// declared with REDIM (may be re-dimensioned later)
    dynamic: bool,
    extended: bool,
}

impl<'t, 'c> Gen<'t, 'c> {
    fn leaf_paths(&self, sty: &STy) -> Vec<(Vec<String>, STy)> {
        match sty {
            STy::Rec(i) => {
                let mut out = vec![];
                for (f, t) in &self.prog.types[*i].fields {
                    for (mut p, lt) in self.leaf_paths(t) {
                        p.insert(0, f.clone());
                        out.push((p, lt));
                    }
                }
                out
            }
            other => vec![(vec![], other.clone())],
        }
    }

    /// The last field of a path may be written with the type character of its type (`rec.name$`, `rec.count%`).
    fn spell_fields(&mut self, fields: &[String], sty: &STy) -> Vec<String> {
        let mut f = fields.to_vec();
        if let (Some(last), Some(t)) = (f.last_mut(), sty.ety()) {
            if self.t.chance(1, 4) {
                last.push(t.suffix());
            }
        }
        f
    }

    fn value_for(&mut self, sty: &STy) -> Expr {
        match sty {
            STy::B(Ty::Str) | STy::Fixed(_) => {
                if self.t.chance(1, 3) {
                    Expr::Load(self.scalar(Ty::Str, false))
                } else {
                    s_lit(*self.t.pick(&["ab", "x", "", "hello world", "QBASIC", "12345678", "a b c"]))
                }
            }
            STy::B(t) => {
                // a value of any numeric type: converted to the element type on store
                match self.t.choose(5) {
                    0 | 1 => lit_i(*self.t.pick(&[7i64, 1, -3, 42, 100, 0, 32767, -32768])),
                    2 => Expr::Lit(Lit::Frac { num: *self.t.pick(&[5i64, 9, 13, 7, 3]), shift: 2, double: false }),
                    3 => Expr::Lit(Lit::Whole(*self.t.pick(&[40000i64, 100000, 65536]))),
                    _ => {
                        let _ = t;
                        let ty = self.num_ty();
                        Expr::Load(self.scalar(ty, false))
                    }
                }
            }
            STy::Rec(_) => unreachable!(),
        }
    }

    fn index_expr(&mut self, v: i32) -> Expr {
        match self.t.choose(6) {
            0 | 1 | 2 => lit_i(v as i64),
            3 => {
                // a fractional index rounding to v (never a tie)
                let q = *self.t.pick(&[1i64, -1]);
                let num = v as i64 * 4 + q;
                if num < 0 {
                    Expr::Un(UnOp::Neg, Box::new(Expr::Lit(Lit::Frac { num: -num, shift: 2, double: false })))
                } else {
                    Expr::Lit(Lit::Frac { num, shift: 2, double: false })
                }
            }
            4 => {
                // v = (v - 1) + 1
                b(BinOp::Add, Expr::Paren(Box::new(lit_i(v as i64 - 1))), lit_i(1))
            }
            _ => Expr::Paren(Box::new(lit_i(v as i64))),
        }
    }

    pub fn array_program(mut self) -> Program {
        // record types
        let ntypes = self.t.choose(3);
        for k in 0..ntypes {
            let nf = 1 + self.t.choose(3);
            let mut fields = vec![];
            for j in 0..nf {
                let sty = match self.t.choose(7) {
                    0 => STy::B(Ty::Int),
                    1 => STy::B(Ty::Long),
                    2 => STy::B(Ty::Single),
                    3 => STy::B(Ty::Double),
                    4 | 5 => STy::Fixed(1 + self.t.choose(6) as u16),
                    _ => {
                        if k > 0 {
                            STy::Rec(k - 1)
                        } else {
                            STy::Fixed(3)
                        }
                    }
                };
                fields.push((format!("F{}", (b'A' + j as u8) as char), sty));
            }
            self.prog.types.push(RecType { name: format!("RecT{}", k + 1), fields });
        }
        let mut main: Vec<Stmt> = vec![];
        let mut arrays: Vec<ArrInfo> = vec![];
        let narr = 1 + self.t.choose(3);
        for k in 0..narr {
            let ndim = 1 + self.t.choose(3);
            let mut bounds = vec![];
            let explicit = self.t.chance(2, 3);
            let mut total = 1;
            for d in 0..ndim {
                let mut lo = if explicit { self.t.range(-3, 3) as i32 } else { 0 };
                if explicit && d > 0 && self.t.chance(1, 3) {
                    lo = 0;
                }
                let extent = 1 + self.t.choose(if ndim == 3 { 3 } else { 4 }) as i32;
                total *= extent;
                bounds.push((lo, lo + extent - 1));
            }
            let _ = total;
            let (sty, name, extended) = match self.t.choose(8) {
                0 => (STy::B(Ty::Int), format!("AR{}%", k + 1), false),
                1 => (STy::B(Ty::Long), format!("AR{}&", k + 1), false),
                2 => (STy::B(Ty::Single), format!("AR{}", k + 1), false),
                3 => (STy::B(Ty::Double), format!("AR{}#", k + 1), false),
                4 => (STy::B(Ty::Str), format!("AR{}$", k + 1), false),
                5 => (STy::Fixed(1 + self.t.choose(6) as u16), format!("AR{}", k + 1), true),
                6 => (STy::B(*self.t.pick(&[Ty::Int, Ty::Long, Ty::Double])), format!("AR{}", k + 1), true),
                _ => {
                    if ntypes > 0 {
                        (STy::Rec(self.t.choose(ntypes)), format!("AR{}", k + 1), true)
                    } else {
                        (STy::B(Ty::Int), format!("AR{}%", k + 1), false)
                    }
                }
            };
            let var = self.add_var(name.clone(), sty.clone(), bounds.clone(), true);
            // a third of the arrays are dynamic: created by REDIM and re-dimensioned later on
            let dynamic = self.t.chance(1, 3);
            main.push(Stmt::Dim(Dim { var, name: name.clone(), bounds: bounds.clone(), explicit_lower: explicit, sty: sty.clone(), extended, shared: false, redim: if dynamic { 1 } else { 0 } }));
            arrays.push(ArrInfo { var, name, bounds, sty, dynamic, extended });
        }
        // scalars of record / fixed-string type
        let mut scalars: Vec<ArrInfo> = vec![];
        if self.t.chance(1, 2) {
            let n = 1 + self.t.choose(6) as u16;
            let var = self.add_var("FS1".into(), STy::Fixed(n), vec![], true);
            main.push(Stmt::Dim(Dim { var, name: "FS1".into(), bounds: vec![], explicit_lower: false, sty: STy::Fixed(n), extended: true, shared: false, redim: 0 }));
            scalars.push(ArrInfo { var, name: "FS1".into(), bounds: vec![], sty: STy::Fixed(n), dynamic: false, extended: true });
        }
        if ntypes > 0 && self.t.chance(1, 2) {
            let ti = self.t.choose(ntypes);
            let var = self.add_var("RC1".into(), STy::Rec(ti), vec![], true);
            main.push(Stmt::Dim(Dim { var, name: "RC1".into(), bounds: vec![], explicit_lower: false, sty: STy::Rec(ti), extended: true, shared: false, redim: 0 }));
            scalars.push(ArrInfo { var, name: "RC1".into(), bounds: vec![], sty: STy::Rec(ti), dynamic: false, extended: true });
        }
        // by-reference setters
        let set_types = [Ty::Int, Ty::Long, Ty::Single, Ty::Double, Ty::Str];
        for (k, t) in set_types.iter().enumerate() {
            let pn = format!("X{}", t.suffix());
            let vn = format!("V{}", t.suffix());
            let params = vec![Param { name: pn.clone(), var: 0, sty: STy::B(*t), array: false, extended: false }, Param { name: vn.clone(), var: 1, sty: STy::B(*t), array: false, extended: false }];
            let vars = vec![VarInfo { name: pn.clone(), sty: STy::B(*t), bounds: vec![], shared: false }, VarInfo { name: vn.clone(), sty: STy::B(*t), bounds: vec![], shared: false }];
            let body = vec![Stmt::Assign(sv(&pn, 0, *t), Expr::Load(sv(&vn, 1, *t)))];
            self.prog.procs.push(Proc { name: format!("Set{}", k + 1), ret: None, params, is_static: false, body, vars, result_var: None });
        }
        // the identity on INTEGERs (for subscripts that contain a user call)
        let idn = self.prog.procs.len();
        {
            let params = vec![Param { name: "X%".into(), var: 0, sty: STy::B(Ty::Int), array: false, extended: false }];
            let vars = vec![VarInfo { name: "X%".into(), sty: STy::B(Ty::Int), bounds: vec![], shared: false }, VarInfo { name: "Idn%".into(), sty: STy::B(Ty::Int), bounds: vec![], shared: false }];
            let body = vec![Stmt::Assign(sv("Idn%", 1, Ty::Int), Expr::Load(sv("X%", 0, Ty::Int)))];
            self.prog.procs.push(Proc { name: "Idn%".into(), ret: Some(Ty::Int), params, is_static: false, body, vars, result_var: Some(1) });
        }
        // operations
        let mut all: Vec<ArrInfo> = arrays.iter().cloned().chain(scalars.iter().cloned()).collect();
        let nops = 2 + self.t.choose(10);
        for _ in 0..nops {
            let ti = self.t.choose(all.len());
            if all[ti].dynamic && self.t.chance(1, 3) {
                // REDIM again (same number of dimensions, new bounds): every element starts afresh, the bounds are the new ones
                let mut bounds = vec![];
                let explicit = self.t.chance(2, 3);
                for _ in 0..all[ti].bounds.len() {
                    let lo = if explicit { self.t.range(-3, 3) as i32 } else { 0 };
                    let extent = 1 + self.t.choose(if all[ti].bounds.len() == 3 { 3 } else { 4 }) as i32;
                    bounds.push((lo, lo + extent - 1));
                }
                // an AS-typed array may be re-dimensioned in the short form `REDIM name(bounds)`
                let short = all[ti].extended && self.t.chance(1, 2);
                main.push(Stmt::Dim(Dim { var: all[ti].var, name: all[ti].name.clone(), bounds: bounds.clone(), explicit_lower: explicit, sty: all[ti].sty.clone(), extended: all[ti].extended, shared: false, redim: if short { 2 } else { 1 } }));
                all[ti].bounds = bounds;
                continue;
            }
            let target = all[ti].clone();
            let leaves = self.leaf_paths(&target.sty);
            let (fields, lsty) = leaves[self.t.choose(leaves.len())].clone();
            let idx_vals: Vec<i32> = target.bounds.iter().map(|(lo, hi)| {
                // bias towards the faces of the index box
                match self.t.choose(4) {
                    0 => *lo,
                    1 => *hi,
                    _ => self.t.range(*lo as i64, *hi as i64) as i32,
                }
            }).collect();
            let mut index: Vec<Expr> = idx_vals.iter().map(|v| self.index_expr(*v)).collect();
            // subscripts that contain calls: LBOUND / UBOUND of the array itself, a user FUNCTION (the identity)
            for (d, v) in idx_vals.iter().enumerate() {
                if self.t.chance(1, 6) {
                    let arr_ref = LValue { name: target.name.clone(), var: target.var, index: vec![], fields: vec![], sty: target.sty.clone() };
                    let (lo, hi) = target.bounds[d];
                    index[d] = match self.t.choose(3) {
                        0 => {
                            let ub = Expr::BuiltIn { name: "UBOUND".into(), args: vec![Expr::Load(arr_ref), lit_i(d as i64 + 1)], ty: Ty::Int };
                            if *v == hi { ub } else { b(BinOp::Sub, ub, lit_i((hi - v) as i64)) }
                        }
                        1 => {
                            let lb = Expr::BuiltIn { name: "LBOUND".into(), args: vec![Expr::Load(arr_ref), lit_i(d as i64 + 1)], ty: Ty::Int };
                            if *v == lo { lb } else { b(BinOp::Add, lb, lit_i((v - lo) as i64)) }
                        }
                        _ => Expr::Call(idn, vec![lit_i(*v as i64)]),
                    };
                }
            }
            let fields = self.spell_fields(&fields, &lsty);
            let lv = LValue { name: target.name.clone(), var: target.var, index, fields, sty: lsty.clone() };
            if lsty.ety().map(|t| t.is_numeric()).unwrap_or(false) && self.t.chance(1, 8) {
                // READ into the element / field: converted to ITS type (a DOUBLE keeps what a SINGLE cannot hold)
                let v = *self.t.pick(&[16777217i64, 5, 123456789, 40000, 7]);
                let fits = match lsty.ety().unwrap() {
                    Ty::Int => v <= 32767,
                    _ => true,
                };
                if fits {
                    self.data_items.push(DataItem::Num(false, Lit::Whole(v)));
                    main.push(Stmt::Read(vec![lv]));
                    continue;
                }
            }
            match self.t.choose(6) {
                0 | 1 | 2 => {
                    let mut e = self.value_for(&lsty);
                    if lsty.ety() == Some(Ty::Str) && self.t.chance(1, 3) {
                        // the value of another fixed-length location (usually of another length): truncated or padded on store
                        let mut fixed: Vec<LValue> = vec![];
                        for a in &all {
                            for (f, st) in self.leaf_paths(&a.sty) {
                                if matches!(st, STy::Fixed(_)) {
                                    let index = a.bounds.iter().map(|(lo, _)| lit_i(*lo as i64)).collect();
                                    fixed.push(LValue { name: a.name.clone(), var: a.var, index, fields: f, sty: st });
                                }
                            }
                        }
                        if !fixed.is_empty() {
                            e = Expr::Load(fixed[self.t.choose(fixed.len())].clone());
                        }
                    }
                    main.push(Stmt::Assign(lv, e));
                }
                3 => {
                    // read back immediately; now and then as the LEFT operand of an operator with a plain right operand
                    // (the subscripts are computed while the other operand is on its way)
                    let ety = lsty.ety();
                    if ety.map(|t| t.is_numeric()).unwrap_or(false) && self.t.chance(1, 3) {
                        let op = *self.t.pick(&[BinOp::Sub, BinOp::Add, BinOp::Mul, BinOp::Eq, BinOp::Lt]);
                        let right = if self.t.chance(1, 2) { lit_i(3) } else { lit_i(1) };
                        main.push(pr(vec![s_lit("<"), b(op, Expr::Load(lv), right), s_lit(">")]));
                    } else if ety == Some(Ty::Str) && self.t.chance(1, 4) {
                        main.push(pr(vec![s_lit("<"), b(BinOp::Add, Expr::Load(lv), s_lit("+")), s_lit(">")]));
                    } else {
                        main.push(pr(vec![s_lit("<"), Expr::Load(lv), s_lit(">")]));
                    }
                }
                4 => {
                    // store through a by-reference parameter
                    let ety = lsty.ety().unwrap();
                    let p = set_types.iter().position(|t| *t == ety).unwrap();
                    let v = self.value_for(&STy::B(ety));
                    let v = match v {
                        Expr::Load(_) => Expr::Paren(Box::new(v)),
                        o => o,
                    };
                    // the value is bound by value with conversion to the parameter type
                    let v = if ety == Ty::Str || matches!(v, Expr::Lit(Lit::Str(_))) { v } else { v };
                    if !lv.index.is_empty() && self.t.chance(1, 3) {
                        // two by-reference arguments, the first an element whose subscript calls a FUNCTION with a by-reference
                        // argument of its own: `ZW = value : ZK% = i : Set A(Idn%(ZK%)), ZW` - each value must come back to its own
                        // argument (the element gets the value; ZW and ZK% keep theirs)
                        let zk_name = "ZK%".to_string();
                        let zk_idx = match self.prog.vars.iter().position(|x| x.name == zk_name) {
                            Some(i) => i,
                            None => self.add_var(zk_name.clone(), STy::B(Ty::Int), vec![], true),
                        };
                        let zw_name = format!("ZW{}", ety.suffix());
                        let zw_idx = match self.prog.vars.iter().position(|x| x.name == zw_name) {
                            Some(i) => i,
                            None => self.add_var(zw_name.clone(), STy::B(ety), vec![], true),
                        };
                        let zk = sv(&zk_name, zk_idx, Ty::Int);
                        let zw = sv(&zw_name, zw_idx, ety);
                        let d = self.t.choose(lv.index.len());
                        let mut lv2 = lv.clone();
                        lv2.index[d] = Expr::Call(idn, vec![ld(&zk)]);
                        main.push(Stmt::Assign(zw.clone(), v));
                        main.push(Stmt::Assign(zk.clone(), lit_i(idx_vals[d] as i64)));
                        main.push(Stmt::CallSub(p, vec![Expr::Load(lv2), ld(&zw)]));
                        main.push(pr(vec![s_lit("k"), ld(&zk), ld(&zw)]));
                    } else if self.t.chance(1, 5) {
                        // the element / field in parentheses is an expression: passed by value, the location keeps its value
                        main.push(Stmt::CallSub(p, vec![Expr::Paren(Box::new(Expr::Load(lv.clone()))), v]));
                        main.push(pr(vec![s_lit("("), Expr::Load(lv), s_lit(")")]));
                    } else {
                        main.push(Stmt::CallSub(p, vec![Expr::Load(lv), v]));
                    }
                }
                _ => {
                    if !target.bounds.is_empty() {
                        let arr_ref = LValue { name: target.name.clone(), var: target.var, index: vec![], fields: vec![], sty: target.sty.clone() };
                        let d = 1 + self.t.choose(target.bounds.len());
                        let mut items = vec![Expr::BuiltIn { name: "LBOUND".into(), args: vec![Expr::Load(arr_ref.clone()), lit_i(d as i64)], ty: Ty::Int }, Expr::BuiltIn { name: "UBOUND".into(), args: vec![Expr::Load(arr_ref.clone()), lit_i(d as i64)], ty: Ty::Int }];
                        if self.t.chance(1, 2) {
                            items.push(Expr::BuiltIn { name: "LBOUND".into(), args: vec![Expr::Load(arr_ref.clone())], ty: Ty::Int });
                            items.push(Expr::BuiltIn { name: "UBOUND".into(), args: vec![Expr::Load(arr_ref)], ty: Ty::Int });
                        }
                        main.push(pr(items));
                    } else {
                        main.push(pr(vec![s_lit("<"), Expr::Load(lv), s_lit(">")]));
                    }
                }
            }
        }
        // full dump of every element and field (unrolled)
        for a in &all {
            let leaves = self.leaf_paths(&a.sty);
            let mut tuples: Vec<Vec<i32>> = vec![vec![]];
            for (lo, hi) in &a.bounds {
                let mut next = vec![];
                for t in &tuples {
                    for v in *lo..=*hi {
                        let mut x = t.clone();
                        x.push(v);
                        next.push(x);
                    }
                }
                tuples = next;
            }
            for tup in tuples {
                let mut items = vec![];
                for (fields, lsty) in &leaves {
                    let fields = self.spell_fields(fields, lsty);
                    let lv = LValue { name: a.name.clone(), var: a.var, index: tup.iter().map(|v| lit_i(*v as i64)).collect(), fields, sty: lsty.clone() };
                    if lsty.ety() == Some(Ty::Str) {
                        items.push(s_lit("["));
                        items.push(Expr::Load(lv));
                        items.push(s_lit("]"));
                    } else {
                        items.push(Expr::Load(lv));
                    }
                }
                main.push(pr(items));
            }
        }
        // final out-of-range access on a chosen face
        if !arrays.is_empty() && self.t.chance(1, 2) {
            let a = all[self.t.choose(arrays.len())].clone();
            let d = self.t.choose(a.bounds.len());
            let below = self.t.chance(1, 2);
            let leaves = self.leaf_paths(&a.sty);
            let (fields, lsty) = leaves[0].clone();
            let index: Vec<Expr> = a.bounds.iter().enumerate().map(|(k, (lo, hi))| if k == d { lit_i(if below { *lo as i64 - 1 } else { *hi as i64 + 1 }) } else { lit_i(*lo as i64) }).collect();
            let lv = LValue { name: a.name.clone(), var: a.var, index, fields, sty: lsty.clone() };
            if self.t.chance(1, 2) {
                // a value that certainly fits: the statement must fail for the subscript alone
                let e = if lsty.ety() == Some(Ty::Str) { s_lit("x") } else { lit_i(1) };
                main.push(Stmt::Assign(lv, e));
            } else {
                main.push(pr(vec![s_lit("<"), Expr::Load(lv), s_lit(">")]));
            }
            main.push(pr(vec![s_lit("not reached")]));
        }
        if !self.data_items.is_empty() {
            let items = std::mem::take(&mut self.data_items);
            for c in items.chunks(4) {
                main.push(Stmt::Data(c.to_vec()));
            }
        }
        self.prog.main = main;
        self.prog
    }
}

//! Renders IR -> program text under a layout, and returns the site map:
//! for every statement (keyed by its path) the row and column range under exactly
//! that layout.

use std::collections::BTreeMap;

use super::ir::*;
use crate::engine::hash64;

#[derive(Clone, Copy, Debug, PartialEq, Eq)]
pub enum Eol {
    Lf,
    CrLf,
    Cr,
}

impl Eol {
    pub fn text(&self) -> &'static str {
        match self {
            Eol::Lf => "\n",
            Eol::CrLf => "\r\n",
            Eol::Cr => "\r",
        }
    }
}

/// Layout knobs. `Layout::plain()` is the canonical rendering.
#[derive(Clone, Debug)]
pub struct Layout {
    pub seed: u64,
    /// 0 = upper-case keywords, identifiers as given; 1 = flip case pseudo-randomly per token; 2 = all lower
    pub case_mode: u8,
    /// 0 = single blanks; 1 = vary blanks/tabs where a blank is legal, optional blanks after , ; and around parentheses
    pub space_mode: u8,
    /// per-mille probability of a blank line before a statement line
    pub blank_lines: u32,
    /// per-mille probability of a trailing comment on a line (never on DATA lines)
    pub comments: u32,
    /// per-mille probability of joining a simple statement to the previous simple statement with a colon
    pub colons: u32,
    pub eol: Eol,
    pub indent: bool,
    /// terminate the last line with an EOL
    pub final_eol: bool,
    /// per mille of SUB calls written `CALL Name(args)` instead of `Name args`
    pub call_kw: u32,
}

impl Layout {
    pub fn plain() -> Layout {
        Layout { seed: 0, case_mode: 0, space_mode: 0, blank_lines: 0, comments: 0, colons: 0, eol: Eol::Lf, indent: true, final_eol: true, call_kw: 0 }
    }
    pub fn describe(&self) -> String {
        format!("case{} space{} blank{} comm{} colon{} {:?}", self.case_mode, self.space_mode, self.blank_lines, self.comments, self.colons, self.eol)
    }
}

#[derive(Clone, Debug, PartialEq)]
pub struct Site {
    pub row: u32,
    /// first column of the statement text (1-based)
    pub col_start: u32,
    /// last column of the statement text (1-based, inclusive)
    pub col_end: u32,
    /// index of the enclosing procedure, None = main module
    pub proc_: Option<usize>,
    /// was the statement joined by a colon to a previous one / preceded by blank lines or comments
    pub after_colon: bool,
}

pub struct Rendered {
    pub text: String,
    pub sites: BTreeMap<String, Site>,
    pub rows: u32,
    pub changed_sites: u32,
}

struct Pr<'a> {
    prog: &'a Program,
    lay: &'a Layout,
    lines: Vec<String>,
    sites: BTreeMap<String, Site>,
    tok: u64,
    cur_proc: Option<usize>,
    depth: usize,
    /// can the next simple statement be joined to the current last line with a colon?
    joinable: bool,
    changed: u32,
}

fn is_simple(s: &Stmt) -> bool {
    matches!(
        s,
        Stmt::Assign(..) | Stmt::Print(..) | Stmt::Read(..) | Stmt::Goto(..) | Stmt::Gosub(..) | Stmt::Return | Stmt::ReturnTo(..) | Stmt::CallSub(..) | Stmt::Resume(..) | Stmt::ResumeLabel(..) | Stmt::OnErrorGoto(..) | Stmt::Raw(..) | Stmt::Opaque { .. }
    )
}

pub fn path_main(i: usize) -> String {
    format!("m/{}", i)
}
pub fn path_proc(p: usize, i: usize) -> String {
    format!("p{}/{}", p, i)
}
pub fn path_child(parent: &str, block: &str, i: usize) -> String {
    format!("{}/{}/{}", parent, block, i)
}

impl<'a> Pr<'a> {
    fn rnd(&mut self, n: u64) -> u64 {
        self.tok += 1;
        hash64(&(self.lay.seed, self.tok)) % n.max(1)
    }
    fn permille(&mut self, p: u32) -> bool {
        p > 0 && self.rnd(1000) < p as u64
    }

    fn kw(&mut self, w: &str) -> String {
        self.word(w, true)
    }
    fn ident(&mut self, w: &str) -> String {
        self.word(w, false)
    }
    fn word(&mut self, w: &str, is_kw: bool) -> String {
        match self.lay.case_mode {
            0 => {
                if is_kw {
                    w.to_uppercase()
                } else {
                    w.to_string()
                }
            }
            2 => {
                let l = w.to_lowercase();
                if l != w {
                    self.changed += 1;
                }
                l
            }
            _ => {
                let mut out = String::new();
                for ch in w.chars() {
                    if self.rnd(2) == 0 {
                        out.push(ch.to_ascii_lowercase());
                    } else {
                        out.push(ch.to_ascii_uppercase());
                    }
                }
                if out != w {
                    self.changed += 1;
                }
                out
            }
        }
    }
    /// a mandatory blank
    fn sp(&mut self) -> String {
        if self.lay.space_mode == 0 {
            " ".to_string()
        } else {
            match self.rnd(5) {
                0 => {
                    self.changed += 1;
                    "  ".to_string()
                }
                1 => {
                    self.changed += 1;
                    "\t".to_string()
                }
                2 => {
                    self.changed += 1;
                    " \t ".to_string()
                }
                _ => " ".to_string(),
            }
        }
    }
    /// the blank between a keyword and the expression that follows: optional when the expression opens with a parenthesis
    /// (`NOT(A) = B`, `WHILE(X) < 3`, `CASE(1) + 2`)
    fn sp_before(&mut self, expr_text: &str) -> String {
        if self.lay.space_mode != 0 && expr_text.starts_with('(') && self.rnd(3) == 0 {
            self.changed += 1;
            return String::new();
        }
        self.sp()
    }
    /// the blank between an expression and the keyword that follows it (THEN, TO, STEP, AND, MOD ...): optional when the
    /// expression ends with a parenthesised expression (`IF (X)THEN`, `TO (9)STEP 4`, `IF X > (4)THEN`)
    fn sp_after(&mut self, e: &Expr) -> String {
        fn ends_with_paren(e: &Expr) -> bool {
            match e {
                Expr::Paren(_) => true,
                Expr::Bin(_, _, r) => ends_with_paren(r),
                Expr::Un(_, x) => ends_with_paren(x),
                _ => false,
            }
        }
        if self.lay.space_mode != 0 && ends_with_paren(e) && self.rnd(3) == 0 {
            self.changed += 1;
            return String::new();
        }
        self.sp()
    }
    /// an optional blank (default one blank)
    fn osp(&mut self) -> String {
        if self.lay.space_mode == 0 {
            " ".to_string()
        } else {
            match self.rnd(4) {
                0 => {
                    self.changed += 1;
                    String::new()
                }
                1 => {
                    self.changed += 1;
                    "  ".to_string()
                }
                _ => " ".to_string(),
            }
        }
    }
    /// an optional blank that is absent by default
    fn nsp(&mut self) -> String {
        if self.lay.space_mode == 0 {
            String::new()
        } else {
            match self.rnd(4) {
                0 => {
                    self.changed += 1;
                    " ".to_string()
                }
                _ => String::new(),
            }
        }
    }

    fn lit(&mut self, l: &Lit) -> String {
        match l {
            Lit::Whole(v) => v.to_string(),
            Lit::WholeDouble(v) => format!("{}.0#", v),
            Lit::Frac { num, shift, double } => {
                let s = dyadic_decimal(*num as i128, *shift);
                // a fraction literal always shows a '.'
                let s = if s.contains('.') { s } else { format!("{}.0", s) };
                if *double { format!("{}#", s) } else { s }
            }
            Lit::Str(s) => format!("\"{}\"", s),
        }
    }

    fn lvalue(&mut self, l: &LValue) -> String {
        let mut s = self.ident(&l.name);
        if !l.index.is_empty() {
            s.push('(');
            for (i, e) in l.index.iter().enumerate() {
                if i > 0 {
                    s.push(',');
                    s.push_str(&self.osp());
                }
                s.push_str(&self.expr(e));
            }
            s.push(')');
        }
        for f in &l.fields {
            s.push('.');
            s.push_str(&self.ident(f));
        }
        s
    }

    fn expr(&mut self, e: &Expr) -> String {
        match e {
            Expr::Lit(l) => self.lit(l),
            Expr::Load(l) => self.lvalue(l),
            Expr::Const(n, _) => self.ident(n),
            Expr::Un(UnOp::Neg, x) => format!("-{}", self.expr(x)),
            Expr::Un(UnOp::Not, x) => {
                let k = self.kw("NOT");
                let t = self.expr(x);
                let sp = self.sp_before(&t);
                format!("{}{}{}", k, sp, t)
            }
            Expr::Bin(op, a, b) => {
                let l = self.expr(a);
                let r = self.expr(b);
                if op.is_word() {
                    let k = self.kw(op.text());
                    let s1 = self.sp_after(a);
                    let s2 = self.sp_before(&r);
                    format!("{}{}{}{}{}", l, s1, k, s2, r)
                } else {
                    let s1 = self.sp();
                    let s2 = self.sp();
                    format!("{}{}{}{}{}", l, s1, op.text(), s2, r)
                }
            }
            Expr::Paren(x) => {
                let a = self.nsp();
                let b = self.nsp();
                format!("({}{}{})", a, self.expr(x), b)
            }
            Expr::Call(p, args) => {
                let name = self.prog.procs[*p].name.clone();
                let ret = self.prog.procs[*p].ret;
                let mut s = self.ident(&name);
                if let Some(t) = ret {
                    if !name.ends_with(t.suffix()) && self.fn_needs_suffix(*p) {
                        s.push(t.suffix());
                    }
                }
                if !args.is_empty() {
                    s.push('(');
                    for (i, a) in args.iter().enumerate() {
                        if i > 0 {
                            s.push(',');
                            s.push_str(&self.osp());
                        }
                        s.push_str(&self.expr(a));
                    }
                    s.push(')');
                }
                s
            }
            Expr::BuiltIn { name, args, .. } => {
                let mut s = self.kw(name);
                if !args.is_empty() {
                    s.push('(');
                    for (i, a) in args.iter().enumerate() {
                        if i > 0 {
                            s.push(',');
                            s.push_str(&self.osp());
                        }
                        s.push_str(&self.expr(a));
                    }
                    s.push(')');
                }
                s
            }
        }
    }

    fn fn_needs_suffix(&self, _p: usize) -> bool {
        false
    }

    fn indent(&self) -> String {
        if self.lay.indent { "  ".repeat(self.depth) } else { String::new() }
    }

    /// Emits a full line holding one statement text; records its site.
    fn line(&mut self, path: &str, text: String, can_join_next: bool, is_data: bool) {
        self.line_inner(Some(path), text, can_join_next, is_data, false)
    }

    fn line_inner(&mut self, path: Option<&str>, text: String, can_join_next: bool, is_data: bool, try_join: bool) {
        let colons = self.lay.colons;
        if try_join && self.joinable && self.permille(colons) && !self.lines.is_empty() {
            // join to the previous line with a colon
            self.changed += 1;
            let s1 = self.nsp();
            let s2 = self.osp();
            let last = self.lines.last_mut().unwrap();
            last.push_str(&s1);
            last.push(':');
            last.push_str(&s2);
            let col_start = last.chars().count() as u32 + 1;
            last.push_str(&text);
            let col_end = last.chars().count() as u32;
            let row = self.lines.len() as u32;
            if let Some(p) = path {
                self.sites.insert(p.to_string(), Site { row, col_start, col_end, proc_: self.cur_proc, after_colon: true });
            }
            self.joinable = can_join_next;
            return;
        }
        let blank_lines = self.lay.blank_lines;
        let mut decorated = false;
        while self.permille(blank_lines) {
            self.changed += 1;
            decorated = true;
            if self.rnd(3) == 0 {
                let n = self.rnd(1000);
                self.lines.push(format!("' comment {}", n));
            } else {
                self.lines.push(String::new());
            }
        }
        let ind = self.indent();
        let col_start = ind.chars().count() as u32 + 1;
        let mut l = format!("{}{}", ind, text);
        let col_end = l.chars().count() as u32;
        let comments = self.lay.comments;
        let mut commented = false;
        if !is_data && self.permille(comments) {
            self.changed += 1;
            commented = true;
            let n = self.rnd(1000);
            let s = self.osp();
            l.push_str(&format!("{}' c{}", s, n));
        }
        // blanks or a tab at the very end of the line (in front of the line break)
        if !is_data && self.lay.space_mode != 0 && self.rnd(6) == 0 {
            self.changed += 1;
            l.push_str(match self.rnd(3) {
                0 => " ",
                1 => "\t",
                _ => "  ",
            });
        }
        self.lines.push(l);
        let row = self.lines.len() as u32;
        if let Some(p) = path {
            self.sites.insert(p.to_string(), Site { row, col_start, col_end, proc_: self.cur_proc, after_colon: decorated });
        }
        self.joinable = can_join_next && !commented;
    }

    fn header(&mut self, path: &str, text: String) {
        self.line_inner(Some(path), text, false, false, false)
    }
    fn plain(&mut self, text: String) {
        self.line_inner(None, text, false, false, false)
    }
    /// FOR / WHILE / DO and NEXT / WEND / LOOP lines: they may share a line with their neighbours (`FOR I = 1 TO 2: PRINT I: NEXT`)
    fn loop_line(&mut self, path: &str, text: String) {
        self.line_inner(Some(path), text, true, false, true)
    }

    fn simple_text(&mut self, s: &Stmt) -> String {
        match s {
            Stmt::Assign(l, e) => {
                let a = self.lvalue(l);
                let s1 = self.sp();
                let s2 = self.sp();
                format!("{}{}={}{}", a, s1, s2, self.expr(e))
            }
            Stmt::Print(items) => {
                let mut t = self.kw("PRINT");
                let mut first = true;
                for it in items {
                    match it {
                        PrintItem::E(e) => {
                            if first {
                                t.push_str(&self.sp());
                            } else {
                                t.push_str(&self.osp());
                            }
                            t.push_str(&self.expr(e));
                        }
                        PrintItem::Semi => {
                            if first {
                                t.push_str(&self.sp());
                            }
                            t.push(';')
                        }
                        PrintItem::Comma => {
                            if first {
                                t.push_str(&self.sp());
                            }
                            t.push(',')
                        }
                    }
                    first = false;
                }
                t
            }
            Stmt::Read(ls) => {
                let mut t = self.kw("READ");
                t.push_str(&self.sp());
                for (i, l) in ls.iter().enumerate() {
                    if i > 0 {
                        t.push(',');
                        t.push_str(&self.osp());
                    }
                    t.push_str(&self.lvalue(l));
                }
                t
            }
            Stmt::Goto(l) => {
                let k = self.kw("GOTO");
                let s = self.sp();
                format!("{}{}{}", k, s, self.ident(l))
            }
            Stmt::Gosub(l) => {
                let k = self.kw("GOSUB");
                let s = self.sp();
                format!("{}{}{}", k, s, self.ident(l))
            }
            Stmt::Return => self.kw("RETURN"),
            Stmt::ReturnTo(l) => {
                let k = self.kw("RETURN");
                let s = self.sp();
                format!("{}{}{}", k, s, self.ident(l))
            }
            Stmt::Resume(ResumeKind::Same) => self.kw("RESUME"),
            Stmt::Resume(ResumeKind::Next) => {
                let a = self.kw("RESUME");
                let s = self.sp();
                format!("{}{}{}", a, s, self.kw("NEXT"))
            }
            Stmt::ResumeLabel(l) => {
                let a = self.kw("RESUME");
                let s = self.sp();
                format!("{}{}{}", a, s, self.ident(l))
            }
            Stmt::OnErrorGoto(l) => {
                let a = self.kw("ON");
                let s1 = self.sp();
                let b = self.kw("ERROR");
                let s2 = self.sp();
                let c = self.kw("GOTO");
                let s3 = self.sp();
                let tgt = match l {
                    Some(l) => self.ident(l),
                    None => "0".to_string(),
                };
                format!("{}{}{}{}{}{}{}", a, s1, b, s2, c, s3, tgt)
            }
            Stmt::CallSub(p, args) => {
                let name = self.prog.procs[*p].name.clone();
                let call_kw = self.lay.call_kw;
                if self.permille(call_kw) {
                    // the long spelling: CALL Name(arg, arg)
                    self.changed += 1;
                    let mut t = self.kw("CALL");
                    t.push_str(&self.sp());
                    t.push_str(&self.ident(&name));
                    if !args.is_empty() {
                        t.push('(');
                        for (i, a) in args.iter().enumerate() {
                            if i > 0 {
                                t.push(',');
                                t.push_str(&self.osp());
                            }
                            t.push_str(&self.expr(a));
                        }
                        t.push(')');
                    }
                    return t;
                }
                let mut t = self.ident(&name);
                for (i, a) in args.iter().enumerate() {
                    if i == 0 {
                        t.push_str(&self.sp());
                    } else {
                        t.push(',');
                        t.push_str(&self.osp());
                    }
                    t.push_str(&self.expr(a));
                }
                t
            }
            Stmt::End => self.kw("END"),
            Stmt::ExitProc => {
                let a = self.kw("EXIT");
                let s = self.sp();
                let what = match self.cur_proc {
                    Some(p) if self.prog.procs[p].ret.is_some() => "FUNCTION",
                    _ => "SUB",
                };
                format!("{}{}{}", a, s, self.kw(what))
            }
            Stmt::Raw(t) => t.clone(),
            Stmt::Opaque { text, var, .. } => match var {
                Some(l) => {
                    let v = self.lvalue(l);
                    text.replace("{v}", &v)
                }
                None => text.clone(),
            },
            other => panic!("simple_text on non-simple statement {:?}", other),
        }
    }

    fn sty_text(&mut self, sty: &STy) -> String {
        match sty {
            STy::B(t) => self.kw(t.keyword()),
            STy::Fixed(n) => {
                let a = self.kw("STRING");
                let s1 = self.sp();
                let s2 = self.sp();
                format!("{}{}*{}{}", a, s1, s2, n)
            }
            STy::Rec(i) => {
                let n = self.prog.types[*i].name.clone();
                self.ident(&n)
            }
        }
    }

    fn block(&mut self, parent: &str, name: &str, stmts: &[Stmt]) {
        self.depth += 1;
        for (i, s) in stmts.iter().enumerate() {
            let p = path_child(parent, name, i);
            self.stmt(&p, s);
        }
        self.depth -= 1;
    }

    fn stmt(&mut self, path: &str, s: &Stmt) {
        match s {
            Stmt::If { arms, else_ } => {
                for (k, (c, body)) in arms.iter().enumerate() {
                    let kw = if k == 0 { self.kw("IF") } else { self.kw("ELSEIF") };
                    let s2 = self.sp_after(c);
                    let c = self.expr(c);
                    let s1 = self.sp_before(&c);
                    let t = self.kw("THEN");
                    let hp = if k == 0 { path.to_string() } else { format!("{}/arm{}", path, k) };
                    self.header(&hp, format!("{}{}{}{}{}", kw, s1, c, s2, t));
                    self.block(path, &format!("a{}", k), body);
                }
                if let Some(e) = else_ {
                    let t = self.kw("ELSE");
                    self.plain(t);
                    self.block(path, "else", e);
                }
                let a = self.kw("END");
                let s1 = self.sp();
                let b = self.kw("IF");
                self.plain(format!("{}{}{}", a, s1, b));
            }
            Stmt::IfLine { cond, then_, else_ } => {
                let a = self.kw("IF");
                let s2 = self.sp_after(cond);
                let c = self.expr(cond);
                let s1 = self.sp_before(&c);
                let t = self.kw("THEN");
                let s3 = self.sp();
                let mut text = format!("{}{}{}{}{}{}", a, s1, c, s2, t, s3);
                // (part, index, first column offset, one past the last column offset)
                let mut spans: Vec<(&'static str, usize, usize, usize)> = vec![];
                for (k, st) in then_.iter().enumerate() {
                    if k > 0 {
                        let c1 = self.osp();
                        let c2 = self.osp();
                        text.push_str(&format!("{}:{}", c1, c2));
                    }
                    let from = text.chars().count();
                    let tt = self.simple_text(st);
                    text.push_str(&tt);
                    spans.push(("then", k, from, text.chars().count()));
                }
                if let Some(e) = else_ {
                    let s4 = self.sp();
                    let k = self.kw("ELSE");
                    let s5 = self.sp();
                    text.push_str(&format!("{}{}{}", s4, k, s5));
                    for (k, st) in e.iter().enumerate() {
                        if k > 0 {
                            let c1 = self.osp();
                            let c2 = self.osp();
                            text.push_str(&format!("{}:{}", c1, c2));
                        }
                        let from = text.chars().count();
                        let et = self.simple_text(st);
                        text.push_str(&et);
                        spans.push(("else", k, from, text.chars().count()));
                    }
                }
                self.line_inner(Some(path), text, false, false, false);
                // sub-sites for the inner statements (same row)
                let site = self.sites.get(path).cloned().unwrap();
                let base = site.col_start as usize;
                for (part, k, from, to) in spans {
                    self.sites.insert(format!("{}/{}/{}", path, part, k), Site { row: site.row, col_start: (base + from) as u32, col_end: (base + to - 1) as u32, proc_: site.proc_, after_colon: site.after_colon });
                }
            }
            Stmt::Select { subject, cases, else_ } => {
                let a = self.kw("SELECT");
                let s1 = self.sp();
                let b = self.kw("CASE");
                let e = self.expr(subject);
                let s2 = self.sp_before(&e);
                self.header(path, format!("{}{}{}{}{}", a, s1, b, s2, e));
                for (k, (items, body)) in cases.iter().enumerate() {
                    let mut t = self.kw("CASE");
                    for (i, it) in items.iter().enumerate() {
                        if i > 0 {
                            t.push(',');
                            t.push_str(&self.osp());
                        } else if let CaseItem::Val(e) = it {
                            let first = self.expr(e);
                            t.push_str(&self.sp_before(&first));
                        } else {
                            t.push_str(&self.sp());
                        }
                        match it {
                            CaseItem::Val(e) => t.push_str(&self.expr(e)),
                            CaseItem::Is(op, e) => {
                                t.push_str(&self.kw("IS"));
                                t.push_str(&self.sp());
                                t.push_str(op.text());
                                t.push_str(&self.sp());
                                t.push_str(&self.expr(e));
                            }
                            CaseItem::Range(a, b) => {
                                t.push_str(&self.expr(a));
                                t.push_str(&self.sp());
                                t.push_str(&self.kw("TO"));
                                t.push_str(&self.sp());
                                t.push_str(&self.expr(b));
                            }
                        }
                    }
                    self.depth += 1;
                    self.header(&format!("{}/case{}", path, k), t);
                    self.depth -= 1;
                    self.depth += 1;
                    self.block(path, &format!("c{}", k), body);
                    self.depth -= 1;
                }
                if let Some(e) = else_ {
                    let a = self.kw("CASE");
                    let s = self.sp();
                    let b = self.kw("ELSE");
                    self.depth += 1;
                    self.plain(format!("{}{}{}", a, s, b));
                    self.block(path, "else", e);
                    self.depth -= 1;
                }
                let a = self.kw("END");
                let s = self.sp();
                let b = self.kw("SELECT");
                self.plain(format!("{}{}{}", a, s, b));
            }
            Stmt::For { var, from, to, step, body, next_names } => {
                let mut t = self.kw("FOR");
                t.push_str(&self.sp());
                t.push_str(&self.lvalue(var));
                t.push_str(&self.sp());
                t.push('=');
                t.push_str(&self.sp());
                t.push_str(&self.expr(from));
                t.push_str(&self.sp_after(from));
                t.push_str(&self.kw("TO"));
                let to_text = self.expr(to);
                t.push_str(&self.sp_before(&to_text));
                t.push_str(&to_text);
                if let Some(s) = step {
                    t.push_str(&self.sp_after(to));
                    t.push_str(&self.kw("STEP"));
                    let step_text = self.expr(s);
                    t.push_str(&self.sp_before(&step_text));
                    t.push_str(&step_text);
                }
                self.loop_line(path, t);
                self.block(path, "b", body);
                let mut n = self.kw("NEXT");
                if *next_names {
                    n.push_str(&self.sp());
                    n.push_str(&self.lvalue(var));
                }
                self.loop_line(&format!("{}/end", path), n);
            }
            Stmt::While { cond, body } => {
                let a = self.kw("WHILE");
                let c = self.expr(cond);
                let s = self.sp_before(&c);
                self.loop_line(path, format!("{}{}{}", a, s, c));
                self.block(path, "b", body);
                let w = self.kw("WEND");
                self.loop_line(&format!("{}/end", path), w);
            }
            Stmt::Do { kind, cond, body } => {
                let (top, kw) = match kind {
                    DoKind::TopWhile => (true, "WHILE"),
                    DoKind::TopUntil => (true, "UNTIL"),
                    DoKind::BottomWhile => (false, "WHILE"),
                    DoKind::BottomUntil => (false, "UNTIL"),
                };
                let d = self.kw("DO");
                let l = self.kw("LOOP");
                let k = self.kw(kw);
                let s1 = self.sp();
                let c = self.expr(cond);
                let s2 = self.sp_before(&c);
                if top {
                    self.loop_line(path, format!("{}{}{}{}{}", d, s1, k, s2, c));
                    self.block(path, "b", body);
                    self.loop_line(&format!("{}/end", path), l);
                } else {
                    self.loop_line(path, d);
                    self.block(path, "b", body);
                    self.loop_line(&format!("{}/end", path), format!("{}{}{}{}{}", l, s1, k, s2, c));
                }
            }
            Stmt::Data(items) => {
                let mut t = self.kw("DATA");
                t.push_str(&self.sp());
                for (i, it) in items.iter().enumerate() {
                    if i > 0 {
                        t.push(',');
                        t.push_str(&self.osp());
                    }
                    match it {
                        DataItem::Num(neg, l) => {
                            if *neg {
                                t.push('-');
                            }
                            t.push_str(&self.lit(l));
                        }
                        DataItem::Str(s) => t.push_str(&format!("\"{}\"", s)),
                    }
                }
                self.line_inner(Some(path), t, false, true, false);
            }
            Stmt::Label(l) => {
                let n = self.ident(l);
                let d = self.depth;
                self.depth = 0;
                self.line_inner(Some(path), format!("{}:", n), false, false, false);
                self.depth = d;
            }
            Stmt::Dim(d) => {
                let mut t = self.kw(if d.redim > 0 { "REDIM" } else { "DIM" });
                t.push_str(&self.sp());
                if d.shared {
                    t.push_str(&self.kw("SHARED"));
                    t.push_str(&self.sp());
                }
                t.push_str(&self.ident(&d.name));
                if !d.bounds.is_empty() {
                    t.push('(');
                    for (i, (lo, hi)) in d.bounds.iter().enumerate() {
                        if i > 0 {
                            t.push(',');
                            t.push_str(&self.osp());
                        }
                        // a dimension whose lower bound is 0 may be written without it next to dimensions that spell theirs
                        let implicit_here = d.explicit_lower && *lo == 0 && i > 0 && (d.bounds.len() + i + d.name.len()) % 2 == 0;
                        if d.explicit_lower && !implicit_here {
                            t.push_str(&format!("{}", lo));
                            t.push_str(&self.sp());
                            t.push_str(&self.kw("TO"));
                            t.push_str(&self.sp());
                        }
                        // now and then an upper bound is written as a fraction that rounds to it (x.75 up, x.25 down): bounds are
                        // converted like subscripts, to the nearest whole number
                        match ((*hi as i64 + 100_000) as usize + d.name.len() + i) % 7 {
                            0 if *hi >= 1 => t.push_str(&format!("{}.75", hi - 1)),
                            3 if *hi >= 0 => t.push_str(&format!("{}.25", hi)),
                            _ => t.push_str(&format!("{}", hi)),
                        }
                    }
                    t.push(')');
                }
                if d.extended && d.redim != 2 {
                    t.push_str(&self.sp());
                    t.push_str(&self.kw("AS"));
                    t.push_str(&self.sp());
                    t.push_str(&self.sty_text(&d.sty));
                }
                self.line_inner(Some(path), t, false, false, false);
            }
            Stmt::Const(n, e) => {
                let a = self.kw("CONST");
                let s1 = self.sp();
                let nm = self.ident(n);
                let s2 = self.sp();
                let s3 = self.sp();
                let ex = self.expr(e);
                self.line_inner(Some(path), format!("{}{}{}{}={}{}", a, s1, nm, s2, s3, ex), false, false, false);
            }
            simple => {
                let t = self.simple_text(simple);
                let joinable = is_simple(simple);
                // `Name:` at the start of a line is a label: nothing is joined with a colon after an argument-less call
                let next_joinable = joinable && !matches!(simple, Stmt::CallSub(_, a) if a.is_empty());
                self.line_inner(Some(path), t, next_joinable, false, joinable);
            }
        }
        if !is_simple(s) {
            self.joinable = false;
        }
    }

    fn param_text(&mut self, p: &Param) -> String {
        let mut t = self.ident(&p.name);
        if p.array {
            t.push_str("()");
        }
        if p.extended {
            t.push_str(&self.sp());
            t.push_str(&self.kw("AS"));
            t.push_str(&self.sp());
            t.push_str(&self.sty_text(&p.sty));
        }
        t
    }

    fn proc_header(&mut self, p: &Proc, declare: bool) -> String {
        let mut t = String::new();
        if declare {
            t.push_str(&self.kw("DECLARE"));
            t.push_str(&self.sp());
        }
        t.push_str(&self.kw(if p.ret.is_some() { "FUNCTION" } else { "SUB" }));
        t.push_str(&self.sp());
        t.push_str(&self.ident(&p.name));
        if !p.params.is_empty() || declare {
            t.push_str(&self.osp());
            t.push('(');
            for (i, pa) in p.params.iter().enumerate() {
                if i > 0 {
                    t.push(',');
                    t.push_str(&self.osp());
                }
                t.push_str(&self.param_text(pa));
            }
            t.push(')');
        }
        if p.is_static && !declare {
            t.push_str(&self.sp());
            t.push_str(&self.kw("STATIC"));
        }
        t
    }

    fn program(&mut self) {
        let prog = self.prog;
        for (ty, a, b) in &prog.deftypes {
            let k = match ty {
                Ty::Int => "DEFINT",
                Ty::Long => "DEFLNG",
                Ty::Single => "DEFSNG",
                Ty::Double => "DEFDBL",
                Ty::Str => "DEFSTR",
            };
            let kw = self.kw(k);
            let s = self.sp();
            let range = if a == b { format!("{}", a) } else { format!("{}-{}", a, b) };
            let r = self.ident(&range);
            self.plain(format!("{}{}{}", kw, s, r));
        }
        if prog.declare && prog.declare_where == 0 {
            self.declares();
        }
        for t in &prog.types {
            let a = self.kw("TYPE");
            let s = self.sp();
            let n = self.ident(&t.name);
            self.plain(format!("{}{}{}", a, s, n));
            self.depth += 1;
            for (f, sty) in &t.fields {
                let fname = self.ident(f);
                let s1 = self.sp();
                let k = self.kw("AS");
                let s2 = self.sp();
                let ty = self.sty_text(sty);
                self.plain(format!("{}{}{}{}{}", fname, s1, k, s2, ty));
            }
            self.depth -= 1;
            let a = self.kw("END");
            let s = self.sp();
            let b = self.kw("TYPE");
            self.plain(format!("{}{}{}", a, s, b));
        }
        for (i, s) in prog.main.iter().enumerate() {
            let p = path_main(i);
            self.stmt(&p, s);
        }
        if prog.declare && prog.declare_where == 1 {
            self.joinable = false;
            self.declares();
        }
        for (pi, p) in prog.procs.iter().enumerate() {
            self.joinable = false;
            self.cur_proc = Some(pi);
            let h = self.proc_header(p, false);
            self.line_inner(Some(&format!("p{}", pi)), h, false, false, false);
            self.depth += 1;
            for (i, s) in p.body.iter().enumerate() {
                let path = path_proc(pi, i);
                self.stmt(&path, s);
            }
            self.depth -= 1;
            let a = self.kw("END");
            let s = self.sp();
            let b = self.kw(if p.ret.is_some() { "FUNCTION" } else { "SUB" });
            self.line_inner(Some(&format!("p{}/end", pi)), format!("{}{}{}", a, s, b), false, false, false);
            self.cur_proc = None;
        }
        if prog.declare && prog.declare_where == 2 {
            self.joinable = false;
            self.declares();
        }
    }

    fn declares(&mut self) {
        let prog = self.prog;
        for (pi, p) in prog.procs.iter().enumerate() {
            let as_ = prog.declare_as.iter().find(|(k, _)| *k == pi).map(|(_, q)| q).unwrap_or(p);
            let h = self.proc_header(as_, true);
            self.line_inner(Some(&format!("declare{}", pi)), h, false, false, false);
        }
    }
}

/// Decimal expansion of num / 2^shift (exact).
pub fn dyadic_decimal(num: i128, shift: u32) -> String {
    let neg = num < 0;
    let mut n = num.unsigned_abs();
    let mut s = shift;
    while s > 0 && n % 2 == 0 {
        n /= 2;
        s -= 1;
    }
    let whole = n >> s;
    let mut frac = n & ((1u128 << s) - 1);
    let mut out = String::new();
    if neg {
        out.push('-');
    }
    out.push_str(&whole.to_string());
    if frac != 0 {
        out.push('.');
        while frac != 0 {
            frac *= 10;
            let d = frac >> s;
            out.push(char::from(b'0' + d as u8));
            frac &= (1u128 << s) - 1;
        }
    }
    out
}

pub fn render(prog: &Program, lay: &Layout) -> Rendered {
    let mut pr = Pr { prog, lay, lines: vec![], sites: BTreeMap::new(), tok: 0, cur_proc: None, depth: 0, joinable: false, changed: 0 };
    pr.program();
    let eol = lay.eol.text();
    let mut text = pr.lines.join(eol);
    if lay.final_eol && !pr.lines.is_empty() {
        text.push_str(eol);
    }
    if lay.eol != Eol::Lf {
        pr.changed += 1;
    }
    Rendered { text, sites: pr.sites, rows: pr.lines.len() as u32, changed_sites: pr.changed }
}

//! IR utilities: enumerate statement slots (with the printer's path keys) and replace one.

use super::ir::*;

fn is_replaceable(s: &Stmt) -> bool {
    matches!(s, Stmt::Assign(..) | Stmt::Print(..) | Stmt::CallSub(..))
}

fn walk(stmts: &mut Vec<Stmt>, pathf: &dyn Fn(usize) -> String, depth: usize, counter: &mut usize, target: usize, new: &mut Option<Stmt>, found: &mut Option<(String, usize)>) {
    for i in 0..stmts.len() {
        if found.is_some() {
            return;
        }
        let p = pathf(i);
        if is_replaceable(&stmts[i]) {
            if *counter == target {
                stmts[i] = new.take().expect("replacement statement");
                *found = Some((p, depth));
                return;
            }
            *counter += 1;
            continue;
        }
        match &mut stmts[i] {
            Stmt::If { arms, else_ } => {
                for (k, (_, body)) in arms.iter_mut().enumerate() {
                    let pp = p.clone();
                    walk(body, &move |j| format!("{}/a{}/{}", pp, k, j), depth + 1, counter, target, new, found);
                }
                if let Some(e) = else_ {
                    let pp = p.clone();
                    walk(e, &move |j| format!("{}/else/{}", pp, j), depth + 1, counter, target, new, found);
                }
            }
            Stmt::Select { cases, else_, .. } => {
                for (k, (_, body)) in cases.iter_mut().enumerate() {
                    let pp = p.clone();
                    walk(body, &move |j| format!("{}/c{}/{}", pp, k, j), depth + 1, counter, target, new, found);
                }
                if let Some(e) = else_ {
                    let pp = p.clone();
                    walk(e, &move |j| format!("{}/else/{}", pp, j), depth + 1, counter, target, new, found);
                }
            }
            Stmt::For { body, .. } | Stmt::While { body, .. } | Stmt::Do { body, .. } => {
                let pp = p.clone();
                walk(body, &move |j| format!("{}/b/{}", pp, j), depth + 1, counter, target, new, found);
            }
            _ => {}
        }
    }
}

/// Number of replaceable simple statements (Assign / Print / CallSub inside blocks, not inside single-line IFs).
pub fn count_slots(prog: &Program) -> usize {
    let mut p = prog.clone();
    let mut counter = 0;
    let mut none: Option<Stmt> = None;
    let mut found = None;
    walk(&mut p.main, &|i| format!("m/{}", i), 0, &mut counter, usize::MAX, &mut none, &mut found);
    for (pi, pr) in p.procs.iter_mut().enumerate() {
        walk(&mut pr.body, &move |i| format!("p{}/{}", pi, i), 1, &mut counter, usize::MAX, &mut none, &mut found);
    }
    counter
}

/// Replaces the `target`-th replaceable statement by `make(scope)`; returns (path, nesting depth, proc index).
/// `make` receives the procedure index of the slot (None = main) so that it can add variables to that scope.
pub fn replace_slot(prog: &mut Program, target: usize, make: &mut dyn FnMut(&mut Program, Option<usize>) -> Stmt) -> Option<(String, usize, Option<usize>)> {
    // first find which scope the slot is in
    let mut probe = prog.clone();
    let mut counter = 0;
    let mut found = None;
    let mut marker = Some(Stmt::Raw("__marker__".into()));
    walk(&mut probe.main, &|i| format!("m/{}", i), 0, &mut counter, target, &mut marker, &mut found);
    let mut scope: Option<usize> = None;
    if found.is_none() {
        for (pi, pr) in probe.procs.iter_mut().enumerate() {
            walk(&mut pr.body, &move |i| format!("p{}/{}", pi, i), 1, &mut counter, target, &mut marker, &mut found);
            if found.is_some() {
                scope = Some(pi);
                break;
            }
        }
    }
    let (path, depth) = found?;
    let stmt = make(prog, scope);
    // now replace in the real program
    let mut counter = 0;
    let mut found2 = None;
    let mut new = Some(stmt);
    walk(&mut prog.main, &|i| format!("m/{}", i), 0, &mut counter, target, &mut new, &mut found2);
    if found2.is_none() {
        for (pi, pr) in prog.procs.iter_mut().enumerate() {
            walk(&mut pr.body, &move |i| format!("p{}/{}", pi, i), 1, &mut counter, target, &mut new, &mut found2);
            if found2.is_some() {
                break;
            }
        }
    }
    debug_assert_eq!(found2.as_ref().map(|f| f.0.clone()), Some(path.clone()));
    Some((path, depth, scope))
}

/// Adds a scalar variable to a scope and returns an lvalue for it.
pub fn add_scalar(prog: &mut Program, scope: Option<usize>, name: &str, ty: Ty) -> LValue {
    let vars = match scope {
        None => &mut prog.vars,
        Some(p) => &mut prog.procs[p].vars,
    };
    let idx = match vars.iter().position(|v| v.name == name) {
        Some(i) => i,
        None => {
            vars.push(VarInfo { name: name.to_string(), sty: STy::B(ty), bounds: vec![], shared: false });
            vars.len() - 1
        }
    };
    LValue { name: name.to_string(), var: idx, index: vec![], fields: vec![], sty: STy::B(ty) }
}

//! Typed IR of BASIC programs (independent of the repository's AST).

#[derive(Clone, Copy, Debug, PartialEq, Eq, Hash, PartialOrd, Ord)]
pub enum Ty {
    Int,
    Long,
    Single,
    Double,
    Str,
}

impl Ty {
    pub fn suffix(&self) -> char {
        match self {
            Ty::Int => '%',
            Ty::Long => '&',
            Ty::Single => '!',
            Ty::Double => '#',
            Ty::Str => '$',
        }
    }
    pub fn keyword(&self) -> &'static str {
        match self {
            Ty::Int => "INTEGER",
            Ty::Long => "LONG",
            Ty::Single => "SINGLE",
            Ty::Double => "DOUBLE",
            Ty::Str => "STRING",
        }
    }
    pub fn is_numeric(&self) -> bool {
        *self != Ty::Str
    }
    pub fn is_whole(&self) -> bool {
        matches!(self, Ty::Int | Ty::Long)
    }
    pub const NUMERIC: [Ty; 4] = [Ty::Int, Ty::Long, Ty::Single, Ty::Double];
    pub const ALL: [Ty; 5] = [Ty::Int, Ty::Long, Ty::Single, Ty::Double, Ty::Str];
}

/// Storage type of a variable / element / field.
#[derive(Clone, Debug, PartialEq, Eq, Hash)]
pub enum STy {
    B(Ty),
    /// STRING * n
    Fixed(u16),
    /// user-defined TYPE, by index into Program.types
    Rec(usize),
}

impl STy {
    /// The expression type seen when the storage is read.
    pub fn ety(&self) -> Option<Ty> {
        match self {
            STy::B(t) => Some(*t),
            STy::Fixed(_) => Some(Ty::Str),
            STy::Rec(_) => None,
        }
    }
}

#[derive(Clone, Debug, PartialEq)]
pub struct RecType {
    pub name: String,
    pub fields: Vec<(String, STy)>,
}

#[derive(Clone, Copy, Debug, PartialEq, Eq, Hash)]
pub enum BinOp {
    Add,
    Sub,
    Mul,
    Div,
    Mod,
    Eq,
    Ne,
    Lt,
    Le,
    Gt,
    Ge,
    And,
    Or,
}

impl BinOp {
    pub fn text(&self) -> &'static str {
        match self {
            BinOp::Add => "+",
            BinOp::Sub => "-",
            BinOp::Mul => "*",
            BinOp::Div => "/",
            BinOp::Mod => "MOD",
            BinOp::Eq => "=",
            BinOp::Ne => "<>",
            BinOp::Lt => "<",
            BinOp::Le => "<=",
            BinOp::Gt => ">",
            BinOp::Ge => ">=",
            BinOp::And => "AND",
            BinOp::Or => "OR",
        }
    }
    pub fn is_relational(&self) -> bool {
        matches!(self, BinOp::Eq | BinOp::Ne | BinOp::Lt | BinOp::Le | BinOp::Gt | BinOp::Ge)
    }
    pub fn is_word(&self) -> bool {
        matches!(self, BinOp::Mod | BinOp::And | BinOp::Or)
    }
    pub const RELATIONAL: [BinOp; 6] = [BinOp::Eq, BinOp::Ne, BinOp::Lt, BinOp::Le, BinOp::Gt, BinOp::Ge];
}

#[derive(Clone, Copy, Debug, PartialEq, Eq, Hash)]
pub enum UnOp {
    Neg,
    Not,
}

/// A numeric literal as written: non-negative magnitude; the type follows the literal rules.
#[derive(Clone, Debug, PartialEq)]
pub enum Lit {
    /// decimal whole literal (INTEGER if <= 32767, LONG if <= 2147483647)
    Whole(i64),
    /// digits with a fraction: value = num / 2^shift, printed in decimal; `double` adds the # suffix
    Frac { num: i64, shift: u32, double: bool },
    /// whole value written with a trailing # (DOUBLE) e.g. 3#
    WholeDouble(i64),
    Str(String),
}

#[derive(Clone, Debug, PartialEq)]
pub enum Expr {
    Lit(Lit),
    /// Reads a storage location.
    Load(LValue),
    Un(UnOp, Box<Expr>),
    Bin(BinOp, Box<Expr>, Box<Expr>),
    Paren(Box<Expr>),
    /// User FUNCTION call (index into Program.procs).
    Call(usize, Vec<Expr>),
    /// Built-in function call by name with already well-typed arguments; `ty` is its result type.
    BuiltIn { name: String, args: Vec<Expr>, ty: Ty },
    /// Reference to a CONST by index into the enclosing scope's constant table (name resolved at print time).
    Const(String, Ty),
}

/// A variable reference: root variable + optional subscripts + field path.
#[derive(Clone, Debug, PartialEq)]
pub struct LValue {
    /// Name as written at this use (with or without suffix).
    pub name: String,
    /// Identity of the variable in its scope (index into the scope's variable table).
    pub var: usize,
    /// Subscripts when the root is an array.
    pub index: Vec<Expr>,
    /// Field path for records.
    pub fields: Vec<String>,
    /// Storage type of the location denoted (after index and fields).
    pub sty: STy,
}

impl LValue {
    pub fn ety(&self) -> Ty {
        self.sty.ety().expect("record-typed lvalue has no expression type")
    }
}

#[derive(Clone, Debug, PartialEq)]
pub enum PrintItem {
    E(Expr),
    Semi,
    Comma,
}

#[derive(Clone, Copy, Debug, PartialEq, Eq)]
pub enum DoKind {
    TopWhile,
    TopUntil,
    BottomWhile,
    BottomUntil,
}

#[derive(Clone, Debug, PartialEq)]
pub enum CaseItem {
    Val(Expr),
    Is(BinOp, Expr),
    Range(Expr, Expr),
}

#[derive(Clone, Copy, Debug, PartialEq, Eq)]
pub enum ResumeKind {
    Same,
    Next,
}

#[derive(Clone, Debug, PartialEq)]
pub enum DataItem {
    Num(bool, Lit),
    Str(String),
}

#[derive(Clone, Debug, PartialEq)]
pub struct Dim {
    pub var: usize,
    pub name: String,
    /// (lower, upper) per dimension; empty = scalar
    pub bounds: Vec<(i32, i32)>,
    /// write `lb TO ub` (true) or only `ub` (lower bound 0)
    pub explicit_lower: bool,
    pub sty: STy,
    /// DIM x AS type (extended) vs DIM x% (compact)
    pub extended: bool,
    pub shared: bool,
    /// 0 = DIM; 1 = REDIM in the same style as a DIM; 2 = short REDIM `REDIM name(bounds)` of an existing AS-typed dynamic array
    pub redim: u8,
}

#[derive(Clone, Debug, PartialEq)]
pub enum Stmt {
    Assign(LValue, Expr),
    Print(Vec<PrintItem>),
    If { arms: Vec<(Expr, Vec<Stmt>)>, else_: Option<Vec<Stmt>> },
    /// IF c THEN simple-statements [ELSE simple-statements] on one line (each list non-empty, joined by colons)
    IfLine { cond: Expr, then_: Vec<Stmt>, else_: Option<Vec<Stmt>> },
    Select { subject: Expr, cases: Vec<(Vec<CaseItem>, Vec<Stmt>)>, else_: Option<Vec<Stmt>> },
    For { var: LValue, from: Expr, to: Expr, step: Option<Expr>, body: Vec<Stmt>, next_names: bool },
    While { cond: Expr, body: Vec<Stmt> },
    Do { kind: DoKind, cond: Expr, body: Vec<Stmt> },
    Read(Vec<LValue>),
    Data(Vec<DataItem>),
    Label(String),
    Goto(String),
    Gosub(String),
    Return,
    /// RETURN label: ends the most recent GOSUB and continues at the label
    ReturnTo(String),
    OnErrorGoto(Option<String>),
    Resume(ResumeKind),
    ResumeLabel(String),
    /// SUB call (index into Program.procs), `call_kw`: written with CALL and parentheses
    CallSub(usize, Vec<Expr>),
    Dim(Dim),
    Const(String, Expr),
    End,
    ExitProc,
    /// Verbatim statement text (used for built-in subs and fault injection); no semantics in refsem.
    Raw(String),
    /// A built-in statement without visible effect on output or variables (file set-up, GET / PUT of a record ...).
    /// `text` may mention `{v}`: the spelling of `var`. It fails with run-time error `code` when `var` holds one of `bad`.
    Opaque { text: String, var: Option<LValue>, bad: Vec<i64>, code: u16 },
}

#[derive(Clone, Debug, PartialEq)]
pub struct Param {
    pub name: String,
    pub var: usize,
    pub sty: STy,
    pub array: bool,
    /// written `x AS INTEGER` instead of `x%`
    pub extended: bool,
}

#[derive(Clone, Debug, PartialEq)]
pub struct VarInfo {
    pub name: String,
    pub sty: STy,
    /// bounds per dimension (empty = scalar)
    pub bounds: Vec<(i32, i32)>,
    pub shared: bool,
}

#[derive(Clone, Debug, PartialEq)]
pub struct Proc {
    pub name: String,
    /// Some(ty) for FUNCTION
    pub ret: Option<Ty>,
    pub params: Vec<Param>,
    pub is_static: bool,
    pub body: Vec<Stmt>,
    /// local variable table (params first)
    pub vars: Vec<VarInfo>,
    /// For FUNCTION: index of the result pseudo-variable in `vars`.
    pub result_var: Option<usize>,
}

#[derive(Clone, Debug, PartialEq, Default)]
pub struct Program {
    pub types: Vec<RecType>,
    /// DEFtype statements at the top: (type, first letter, last letter)
    pub deftypes: Vec<(Ty, char, char)>,
    pub main: Vec<Stmt>,
    pub vars: Vec<VarInfo>,
    pub procs: Vec<Proc>,
    /// emit DECLARE lines
    pub declare: bool,
    /// where the DECLARE lines go: 0 = at the top, 1 = after the main module's statements (before the subprogram
    /// bodies), 2 = after the subprogram bodies
    pub declare_where: u8,
    /// DECLARE lines that differ from their subprogram: (index of the subprogram, the signature to declare instead)
    pub declare_as: Vec<(usize, Proc)>,
}

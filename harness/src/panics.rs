//! Silent panic hook that records message + location per thread, so that
//! panics inside the code under test become data.

use std::cell::RefCell;
use std::panic::{AssertUnwindSafe, catch_unwind};

thread_local! {
    static LAST: RefCell<Option<(String, String)>> = const { RefCell::new(None) };
    static QUIET: RefCell<bool> = const { RefCell::new(false) };
}

pub fn install() {
    let default = std::panic::take_hook();
    std::panic::set_hook(Box::new(move |info| {
        let quiet = QUIET.with(|q| *q.borrow());
        if quiet {
            let msg = if let Some(s) = info.payload().downcast_ref::<&str>() {
                (*s).to_string()
            } else if let Some(s) = info.payload().downcast_ref::<String>() {
                s.clone()
            } else {
                "<non-string payload>".to_string()
            };
            let loc = info
                .location()
                .map(|l| format!("{}:{}", strip(l.file()), l.line()))
                .unwrap_or_default();
            let _ = &loc;
            LAST.with(|l| *l.borrow_mut() = Some((msg, loc)));
        } else {
            default(info);
        }
    }));
}

fn strip(path: &str) -> &str {
    path.strip_prefix("/repo/").unwrap_or(path)
}

#[derive(Clone, Debug, PartialEq)]
pub struct PanicInfo {
    pub msg: String,
    pub loc: String,
}

impl PanicInfo {
    /// Classifier signature: location + message with digits and quoted payloads collapsed.
    pub fn sig(&self) -> String {
        // location + the first three words of the message (payload details vary per input)
        let words: Vec<&str> = self.msg.split_whitespace().take(3).collect();
        let mut m = String::new();
        for ch in words.join(" ").chars().take(40) {
            if ch.is_ascii_digit() {
                if !m.ends_with('N') {
                    m.push('N');
                }
            } else {
                m.push(ch);
            }
        }
        // the line number is left out of the signature: it moves with every unrelated edit of the file
        let file = self.loc.rsplit_once(':').map(|(f, _)| f).unwrap_or(&self.loc);
        format!("panic@{}:{}", file, m)
    }
}

/// Runs `f` with panics captured (silently).
pub fn guarded<T>(f: impl FnOnce() -> T) -> Result<T, PanicInfo> {
    let prev = QUIET.with(|q| std::mem::replace(&mut *q.borrow_mut(), true));
    LAST.with(|l| *l.borrow_mut() = None);
    let r = catch_unwind(AssertUnwindSafe(f));
    QUIET.with(|q| *q.borrow_mut() = prev);
    match r {
        Ok(v) => Ok(v),
        Err(_) => {
            let (msg, loc) = LAST.with(|l| l.borrow_mut().take()).unwrap_or_default();
            Err(PanicInfo { msg, loc })
        }
    }
}

/// Last panic location recorded on this thread (for panics caught elsewhere, e.g. inside the run hook).
pub fn take_last() -> Option<PanicInfo> {
    LAST.with(|l| l.borrow_mut().take()).map(|(msg, loc)| PanicInfo { msg, loc })
}

pub fn set_quiet(q: bool) -> bool {
    QUIET.with(|c| std::mem::replace(&mut *c.borrow_mut(), q))
}

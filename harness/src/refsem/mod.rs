//! reference semantics

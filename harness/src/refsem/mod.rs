//! Reference semantics: a tree-walking big-step evaluator over the IR, written
//! from the property statements and Appendix A of DESIGN.md. Three-valued:
//! `Determined(result)` or `Undetermined(reason)` where the statements do not
//! pin the answer.

pub mod num;

use std::collections::{BTreeMap, BTreeSet};

use num::{Num, NumErr, wider};

use crate::genr::ir::*;
use crate::genr::print::{path_child, path_main, path_proc};

#[derive(Clone, Debug, PartialEq)]
pub enum Val {
    N(Num),
    S(String),
    Rec(Vec<(String, Val)>),
}

impl Val {
    pub fn num(&self) -> &Num {
        match self {
            Val::N(n) => n,
            _ => panic!("refsem: expected number, got {:?}", self),
        }
    }
    pub fn str(&self) -> &str {
        match self {
            Val::S(s) => s,
            _ => panic!("refsem: expected string, got {:?}", self),
        }
    }
}

#[derive(Clone, Debug, PartialEq)]
pub enum Cell {
    Scalar(Val),
    Array { bounds: Vec<(i32, i32)>, elems: Vec<Val> },
    /// not yet allocated (arrays before their DIM executes)
    Unset,
}

#[derive(Clone, Debug, PartialEq)]
pub struct RefErr {
    pub code: i32,
    /// site keys where the error may be reported (e.g. FOR header or NEXT line)
    pub paths: Vec<String>,
    /// call-site paths, innermost first
    pub call_sites: Vec<String>,
}

#[derive(Clone, Debug, PartialEq)]
pub enum RefEnd {
    Ok,
    Err(RefErr),
}

#[derive(Clone, Debug)]
pub struct RefResult {
    pub stdout: String,
    pub end: RefEnd,
    /// known-defect triggers the execution passed through (for attribution)
    pub triggers: BTreeSet<&'static str>,
    pub statements: u64,
    pub features: BTreeSet<String>,
    /// final values of the main module's scalar variables and arrays (name -> rendering)
    pub globals: BTreeMap<String, String>,
    /// did a printed value depend on a variable
    pub printed_var: bool,
}

pub enum Outcome {
    Determined(RefResult),
    /// reason, and the known-defect triggers touched before the run became undetermined
    Undetermined(String, BTreeSet<&'static str>),
}

enum Stop {
    Err(RefErr),
    Undet(String),
    Goto(String),
    Return,
    End,
    ExitProc,
    ResumeSame,
    ResumeNext,
    ResumeTo(String),
    ReturnTo(String),
    /// RESUME label for an error raised inside a procedure: every active procedure is abandoned, control continues at the module-level label
    Abandon(String),
}

type R<T> = Result<T, Stop>;

fn undet<T>(why: &str) -> R<T> {
    Err(Stop::Undet(why.to_string()))
}

struct Frame {
    proc_: Option<usize>,
    cells: Vec<Cell>,
}

pub struct Machine<'a> {
    prog: &'a Program,
    out: String,
    col: usize,
    frames: Vec<Frame>,
    statics: BTreeMap<usize, Vec<Cell>>,
    data: Vec<DataItem>,
    data_pos: usize,
    handler: Option<String>,
    in_handler: bool,
    err_code: i32,
    gosub_depth: usize,
    call_sites: Vec<String>,
    triggers: BTreeSet<&'static str>,
    features: BTreeSet<String>,
    statements: u64,
    budget: u64,
    printed_var: bool,
    cur_expr_uses_var: bool,
    call_depth: usize,
    consts: BTreeMap<String, Val>,
}

pub fn default_val(sty: &STy, prog: &Program) -> Val {
    match sty {
        STy::B(Ty::Str) => Val::S(String::new()),
        STy::B(t) => Val::N(Num::whole(*t, 0)),
        STy::Fixed(n) => Val::S(" ".repeat(*n as usize)),
        STy::Rec(i) => Val::Rec(prog.types[*i].fields.iter().map(|(n, t)| (n.clone(), default_val(t, prog))).collect()),
    }
}

fn fix_len(s: &str, n: usize) -> String {
    let mut t: String = s.chars().take(n).collect();
    while t.chars().count() < n {
        t.push(' ');
    }
    t
}

impl<'a> Machine<'a> {
    fn new(prog: &'a Program, budget: u64) -> Self {
        let mut data = vec![];
        for s in &prog.main {
            if let Stmt::Data(items) = s {
                data.extend(items.iter().cloned());
            }
        }
        let cells = prog.vars.iter().map(|v| if v.bounds.is_empty() { Cell::Scalar(default_val(&v.sty, prog)) } else { Cell::Unset }).collect();
        Machine {
            prog,
            out: String::new(),
            col: 0,
            frames: vec![Frame { proc_: None, cells }],
            statics: BTreeMap::new(),
            data,
            data_pos: 0,
            handler: None,
            in_handler: false,
            err_code: 0,
            gosub_depth: 0,
            call_sites: vec![],
            triggers: BTreeSet::new(),
            features: BTreeSet::new(),
            statements: 0,
            budget,
            printed_var: false,
            cur_expr_uses_var: false,
            call_depth: 0,
            consts: BTreeMap::new(),
        }
    }

    fn feat(&mut self, f: &str) {
        if !self.features.contains(f) {
            self.features.insert(f.to_string());
        }
    }

    fn err<T>(&self, code: i32, path: &str) -> R<T> {
        Err(Stop::Err(RefErr { code, paths: vec![path.to_string()], call_sites: self.call_sites.clone() }))
    }

    fn num_err<T>(&self, e: NumErr, path: &str) -> R<T> {
        match e {
            NumErr::Overflow => self.err(6, path),
            NumErr::DivZero => self.err(11, path),
            NumErr::Tie => undet("exact tie when rounding to a whole number"),
            NumErr::Inexact => undet("result not exactly representable (rounding needed)"),
        }
    }

    // ---------------------------------------------------------------- storage

    /// Resolves (frame index, cell index) of a variable of the current scope.
    fn locate(&self, var: usize) -> (usize, usize) {
        let fi = self.frames.len() - 1;
        match self.frames[fi].proc_ {
            None => (0, var),
            Some(p) => {
                let info = &self.prog.procs[p].vars[var];
                if info.shared {
                    let gi = self.prog.vars.iter().position(|g| g.name.eq_ignore_ascii_case(&info.name)).expect("shared variable must exist globally");
                    (0, gi)
                } else {
                    (fi, var)
                }
            }
        }
    }

    fn var_info(&self, var: usize) -> &VarInfo {
        let fi = self.frames.len() - 1;
        match self.frames[fi].proc_ {
            None => &self.prog.vars[var],
            Some(p) => &self.prog.procs[p].vars[var],
        }
    }

    fn elem_index(&mut self, bounds: &[(i32, i32)], idx: &[Expr], path: &str) -> R<usize> {
        let mut vals = vec![];
        for e in idx {
            let v = self.eval(e, path)?;
            let n = v.num().clone();
            let w = match n.round_whole() {
                Ok(w) => w,
                Err(NumErr::Tie) => return undet("tie in array subscript"),
                Err(e) => return self.num_err(e, path),
            };
            vals.push(w);
        }
        if vals.len() != bounds.len() {
            panic!("refsem: wrong number of subscripts generated");
        }
        let mut flat = 0usize;
        for (k, w) in vals.iter().enumerate() {
            let (lo, hi) = bounds[k];
            if *w < lo as i128 || *w > hi as i128 {
                self.feat("subscript-out-of-range");
                return self.err(9, path);
            }
            let extent = (hi - lo + 1) as usize;
            flat = flat * extent + (*w - lo as i128) as usize;
        }
        Ok(flat)
    }

    fn load(&mut self, l: &LValue, path: &str) -> R<Val> {
        self.cur_expr_uses_var = true;
        let (fi, ci) = self.locate(l.var);
        let base: Val = match &self.frames[fi].cells[ci] {
            Cell::Scalar(v) => {
                if !l.index.is_empty() {
                    panic!("refsem: subscript on scalar {}", l.name);
                }
                v.clone()
            }
            Cell::Array { bounds, .. } => {
                let bounds = bounds.clone();
                let k = self.elem_index(&bounds, &l.index, path)?;
                match &self.frames[fi].cells[ci] {
                    Cell::Array { elems, .. } => elems[k].clone(),
                    _ => unreachable!(),
                }
            }
            Cell::Unset => return undet("array used before its DIM executed"),
        };
        let mut v = base;
        for f in &l.fields {
            v = match v {
                Val::Rec(fs) => fs.into_iter().find(|(n, _)| field_eq(n, f)).map(|(_, v)| v).expect("field"),
                _ => panic!("refsem: field access on non-record"),
            };
        }
        Ok(v)
    }

    /// Converts `v` for storage into a location of type `sty`.
    fn coerce(&self, v: Val, sty: &STy, path: &str) -> R<Val> {
        match (sty, v) {
            (STy::B(Ty::Str), Val::S(s)) => Ok(Val::S(s)),
            (STy::Fixed(n), Val::S(s)) => Ok(Val::S(fix_len(&s, *n as usize))),
            (STy::B(t), Val::N(n)) if t.is_numeric() => match n.convert(*t) {
                Ok(c) => Ok(Val::N(c)),
                Err(e) => self.num_err(e, path),
            },
            (STy::Rec(_), v @ Val::Rec(_)) => Ok(v),
            (s, v) => panic!("refsem: ill-typed store of {:?} into {:?}", v, s),
        }
    }

    fn store(&mut self, l: &LValue, v: Val, path: &str) -> R<()> {
        // subscripts are evaluated before the conversion error is raised? Either order gives the same
        // first error in generated programs (at most one failing sub-expression per statement).
        let (fi, ci) = self.locate(l.var);
        let slot: Option<usize> = match &self.frames[fi].cells[ci] {
            Cell::Scalar(_) => None,
            Cell::Array { bounds, .. } => {
                let bounds = bounds.clone();
                Some(self.elem_index(&bounds, &l.index, path)?)
            }
            Cell::Unset => return undet("array used before its DIM executed"),
        };
        let v = self.coerce(v, &l.sty, path)?;
        if slot.is_some() {
            if self.features.contains("array-store") {
                self.feat("array-stores>=2");
            }
            self.feat("array-store");
        }
        if !l.fields.is_empty() {
            self.feat("field-store");
        }
        if matches!(l.sty, STy::Fixed(_)) {
            self.feat("fixed-string-store");
        }
        let cell = &mut self.frames[fi].cells[ci];
        let target: &mut Val = match cell {
            Cell::Scalar(x) => x,
            Cell::Array { elems, .. } => &mut elems[slot.unwrap()],
            Cell::Unset => unreachable!(),
        };
        let mut t = target;
        for f in &l.fields {
            t = match t {
                Val::Rec(fs) => fs.iter_mut().find(|(n, _)| field_eq(n, f)).map(|(_, v)| v).expect("field"),
                _ => panic!("refsem: field store on non-record"),
            };
        }
        *t = v;
        Ok(())
    }

    // ------------------------------------------------------------ expressions

    /// Would the implementation's static typing give this expression a whole-number type?
    /// (It types `/` like `+ - *`: the wider operand type. Used only to attribute failures to the known finding.)
    fn impl_types_whole(&self, e: &Expr) -> bool {
        match e {
            Expr::Lit(Lit::Whole(v)) => *v <= 2147483647,
            Expr::Lit(_) => false,
            Expr::Load(l) => l.sty.ety().map(|t| t.is_whole()).unwrap_or(false),
            Expr::Const(_, t) => t.is_whole(),
            Expr::Un(_, x) | Expr::Paren(x) => self.impl_types_whole(x),
            Expr::Bin(op, a, b) => match op {
                BinOp::Add | BinOp::Sub | BinOp::Mul | BinOp::Div => self.impl_types_whole(a) && self.impl_types_whole(b),
                _ => true,
            },
            Expr::Call(p, _) => self.prog.procs[*p].ret.map(|t| t.is_whole()).unwrap_or(false),
            Expr::BuiltIn { ty, .. } => ty.is_whole(),
        }
    }

    fn lit(&self, l: &Lit) -> R<Val> {
        Ok(match l {
            Lit::Whole(v) => {
                if *v <= 32767 {
                    Val::N(Num::whole(Ty::Int, *v))
                } else if *v <= 2147483647 {
                    Val::N(Num::whole(Ty::Long, *v))
                } else {
                    Val::N(Num::whole(Ty::Double, *v))
                }
            }
            Lit::WholeDouble(v) => Val::N(Num::whole(Ty::Double, *v)),
            Lit::Frac { num, shift, double } => Val::N(Num::new(if *double { Ty::Double } else { Ty::Single }, *num as i128, *shift)),
            Lit::Str(s) => Val::S(s.clone()),
        })
    }

    fn mixed_guard(&self, a: &Num, b: &Num) -> R<()> {
        // an integer operand converted to f32 by the implementation must be exactly representable
        let lim = 1i128 << 24;
        if (a.ty == Ty::Single && b.ty.is_whole() && b.m.abs() >= lim) || (b.ty == Ty::Single && a.ty.is_whole() && a.m.abs() >= lim) {
            return undet("whole operand beyond 2^24 mixed with SINGLE");
        }
        Ok(())
    }

    fn round_operand(&mut self, n: &Num, path: &str) -> R<i128> {
        match n.round_whole() {
            Ok(w) => Ok(w),
            Err(NumErr::Tie) => undet("tie when rounding an operand of MOD/AND/OR/NOT"),
            Err(e) => self.num_err(e, path),
        }
    }

    fn binop(&mut self, op: BinOp, a: Val, b: Val, path: &str) -> R<Val> {
        if let (Val::S(x), Val::S(y)) = (&a, &b) {
            return Ok(match op {
                BinOp::Add => {
                    if x.len() + y.len() > 4000 {
                        return undet("string longer than 4000 characters (resource limit of the reference)");
                    }
                    Val::S(format!("{}{}", x, y))
                }
                o if o.is_relational() => {
                    let ord = x.as_bytes().cmp(y.as_bytes());
                    Val::N(Num::whole(Ty::Int, if rel(o, ord) { -1 } else { 0 }))
                }
                _ => panic!("refsem: ill-typed string operator"),
            });
        }
        let x = a.num().clone();
        let y = b.num().clone();
        match op {
            BinOp::Add | BinOp::Sub | BinOp::Mul => {
                self.mixed_guard(&x, &y)?;
                let ty = wider(x.ty, y.ty);
                let r = match op {
                    BinOp::Add => x.add(&y, ty),
                    BinOp::Sub => x.sub(&y, ty),
                    _ => x.mul(&y, ty),
                };
                match r.fits(ty) {
                    Ok(()) => Ok(Val::N(r)),
                    Err(NumErr::Overflow) => {
                        if ty.is_whole() {
                            self.feat("int-arith-overflow");
                        }
                        self.err(6, path)
                    }
                    Err(e) => self.num_err(e, path),
                }
            }
            BinOp::Div => {
                self.mixed_guard(&x, &y)?;
                let ty = if x.ty == Ty::Double || y.ty == Ty::Double { Ty::Double } else { Ty::Single };
                if x.ty == Ty::Long && y.ty == Ty::Long {
                    return undet("LONG / LONG result type");
                }
                match x.div(&y, ty) {
                    Ok(r) => {
                        match r.fits(ty) {
                            Ok(()) => Ok(Val::N(r)),
                            Err(e) => self.num_err(e, path),
                        }
                    }
                    Err(NumErr::DivZero) => {
                        self.feat("division-by-zero");
                        self.err(11, path)
                    }
                    Err(e) => self.num_err(e, path),
                }
            }
            BinOp::Mod | BinOp::And | BinOp::Or => {
                let xa = self.round_operand(&x, path)?;
                let yb = self.round_operand(&y, path)?;
                let both_int = x.ty == Ty::Int && y.ty == Ty::Int;
                if xa < -2147483648 || xa > 2147483647 || yb < -2147483648 || yb > 2147483647 {
                    return self.err(6, path);
                }
                let rty = if both_int { Ty::Int } else { Ty::Long };
                if op != BinOp::Mod {
                    self.feat(if both_int { "and-or-16-bit" } else if x.ty == Ty::Int { "and-or-32-bit-integer-on-the-left" } else { "and-or-32-bit" });
                }
                match op {
                    BinOp::Mod => {
                        if yb == 0 {
                            self.feat("division-by-zero");
                            return self.err(11, path);
                        }
                        let r = xa % yb; // sign of the dividend
                        Ok(Val::N(Num::whole(rty, r as i64)))
                    }
                    BinOp::And => Ok(Val::N(Num::whole(rty, (xa & yb) as i64))),
                    _ => Ok(Val::N(Num::whole(rty, (xa | yb) as i64))),
                }
            }
            o => {
                self.mixed_guard(&x, &y)?;
                let ord = x.cmp(&y);
                Ok(Val::N(Num::whole(Ty::Int, if rel(o, ord) { -1 } else { 0 })))
            }
        }
    }

    fn eval(&mut self, e: &Expr, path: &str) -> R<Val> {
        match e {
            Expr::Lit(l) => self.lit(l),
            Expr::Load(l) => self.load(l, path),
            Expr::Const(n, _) => match self.consts.get(&n.to_uppercase()) {
                Some(v) => Ok(v.clone()),
                None => undet("constant used before its definition executed"),
            },
            Expr::Paren(x) => self.eval(x, path),
            Expr::Un(UnOp::Neg, x) => {
                let v = self.eval(x, path)?;
                let n = v.num().neg();
                match n.fits(n.ty) {
                    Ok(()) => Ok(Val::N(n)),
                    Err(e) => self.num_err(e, path),
                }
            }
            Expr::Un(UnOp::Not, x) => {
                let v = self.eval(x, path)?;
                let n = v.num().clone();
                if !n.ty.is_whole() {
                    return undet("NOT on a floating operand (result type)");
                }
                Ok(Val::N(Num::whole(n.ty, (-n.m - 1) as i64)))
            }
            Expr::Bin(op, a, b) => {
                let va = self.eval(a, path)?;
                let vb = self.eval(b, path)?;
                let r = self.binop(*op, va, vb, path)?;
                Ok(r)
            }
            Expr::Call(p, args) => self.call(*p, args, path).map(|v| v.expect("function value")),
            Expr::BuiltIn { name, args, .. } => self.builtin(name, args, path),
        }
    }

    fn builtin(&mut self, name: &str, args: &[Expr], path: &str) -> R<Val> {
        let up = name.to_uppercase();
        match up.as_str() {
            "ERR" => Ok(Val::N(Num::whole(Ty::Int, self.err_code as i64))),
            "LEN" => {
                let v = self.eval(&args[0], path)?;
                Ok(Val::N(Num::whole(Ty::Int, v.str().chars().count() as i64)))
            }
            "UCASE$" => {
                let v = self.eval(&args[0], path)?;
                Ok(Val::S(v.str().to_ascii_uppercase()))
            }
            "LCASE$" => {
                let v = self.eval(&args[0], path)?;
                Ok(Val::S(v.str().to_ascii_lowercase()))
            }
            "LEFT$" => {
                let v = self.eval(&args[0], path)?;
                let n = self.eval(&args[1], path)?;
                let k = self.round_operand(n.num(), path)?;
                if k < 0 {
                    self.feat("illegal-function-call");
                    return self.err(5, path);
                }
                Ok(Val::S(v.str().chars().take(k as usize).collect()))
            }
            "LBOUND" | "UBOUND" => {
                let Expr::Load(l) = &args[0] else { panic!("refsem: LBOUND of non-variable") };
                let (fi, ci) = self.locate(l.var);
                let dim = if args.len() > 1 {
                    let d = self.eval(&args[1], path)?;
                    d.num().round_whole().map_err(|_| Stop::Undet("tie in LBOUND dimension".into()))? as usize
                } else {
                    1
                };
                match &self.frames[fi].cells[ci] {
                    Cell::Array { bounds, .. } => {
                        if dim < 1 || dim > bounds.len() {
                            return self.err(9, path);
                        }
                        let (lo, hi) = bounds[dim - 1];
                        Ok(Val::N(Num::whole(Ty::Int, if up == "LBOUND" { lo } else { hi } as i64)))
                    }
                    _ => undet("LBOUND/UBOUND of unallocated array"),
                }
            }
            n if n.starts_with("ZU") => {
                // a subscripted name declared nowhere: zero of the name's type (subscripts 0..2 only)
                for a in args {
                    self.eval(a, path)?;
                }
                self.feat("undeclared-subscripted-name");
                let ty = match up.chars().last() {
                    Some('%') => Ty::Int,
                    Some('&') => Ty::Long,
                    Some('!') => Ty::Single,
                    _ => Ty::Double,
                };
                Ok(Val::N(Num::whole(ty, 0)))
            }
            _ => undet("built-in outside the reference semantics"),
        }
    }

    // ------------------------------------------------------------------ calls

    fn call(&mut self, p: usize, args: &[Expr], path: &str) -> R<Option<Val>> {
        let prog = self.prog;
        let pr = &prog.procs[p];
        if self.call_depth > 40 {
            return undet("reference call depth limit");
        }
        self.feat(if pr.ret.is_some() { "function-call" } else { "sub-call" });
        // evaluate arguments left to right
        let mut bound: Vec<Val> = vec![];
        let mut copy_out: Vec<Option<LValueResolved>> = vec![];
        for (k, a) in args.iter().enumerate() {
            let param = &pr.params[k];
            match a {
                Expr::Load(l) if (l.sty == param.sty || (matches!(l.sty, STy::Fixed(_)) && param.sty == STy::B(Ty::Str))) && !param.array => {
                    // by reference: resolve the caller's path now (subscripts evaluated once)
                    let res = self.resolve(l, path)?;
                    let v = self.read_resolved(&res);
                    bound.push(v);
                    copy_out.push(Some(res));
                    self.feat("by-ref-arg");
                }
                Expr::Load(l) if param.array => {
                    let (fi, ci) = self.locate(l.var);
                    let _ = (fi, ci);
                    return undet("array parameters not modelled");
                }
                other => {
                    let v = self.eval(other, path)?;
                    let v = self.coerce(v, &param.sty, path)?;
                    bound.push(v);
                    copy_out.push(None);
                    if matches!(other, Expr::Load(_)) {
                        self.feat("by-val-converted-variable");
                    }
                }
            }
        }
        // frame
        let mut cells: Vec<Cell> = if pr.is_static {
            match self.statics.get(&p).cloned() {
                Some(c) => {
                    self.feat("static-reentry");
                    c
                }
                None => pr.vars.iter().map(|v| if v.bounds.is_empty() { Cell::Scalar(default_val(&v.sty, prog)) } else { Cell::Unset }).collect(),
            }
        } else {
            pr.vars.iter().map(|v| if v.bounds.is_empty() { Cell::Scalar(default_val(&v.sty, prog)) } else { Cell::Unset }).collect()
        };
        for (k, v) in bound.into_iter().enumerate() {
            cells[pr.params[k].var] = Cell::Scalar(v);
        }
        let mut earlier_static_result: Option<Val> = None;
        if let Some(rv) = pr.result_var {
            if pr.is_static {
                if let Cell::Scalar(v) = &cells[rv] {
                    earlier_static_result = Some(v.clone());
                }
            }
            cells[rv] = Cell::Scalar(default_val(&STy::B(pr.ret.unwrap()), prog));
        }
        if self.call_depth >= 1 {
            self.feat("nested-call");
        }
        if self.frames.iter().any(|f| f.proc_ == Some(p)) {
            self.feat("recursive-activation");
        }
        if pr.ret == Some(Ty::Str) {
            self.feat("string-function-call");
        }
        self.frames.push(Frame { proc_: Some(p), cells });
        self.call_sites.insert(0, path.to_string());
        self.call_depth += 1;
        let saved_gosub = self.gosub_depth;
        self.gosub_depth = 0;
        let r = self.run_block_top(&pr.body, &|i| path_proc(p, i));
        self.gosub_depth = saved_gosub;
        self.call_depth -= 1;
        self.call_sites.remove(0);
        let frame = self.frames.pop().unwrap();
        match r {
            Ok(()) | Err(Stop::ExitProc) => {}
            Err(Stop::Goto(_)) => panic!("refsem: GOTO escaped a procedure"),
            Err(Stop::Abandon(l)) => {
                // no write-back of by-reference arguments, no result; STATIC variables keep what they hold
                if pr.is_static {
                    self.statics.insert(p, frame.cells.clone());
                }
                return Err(if self.frames.len() == 1 { Stop::Goto(l) } else { Stop::Abandon(l) });
            }
            Err(other) => return Err(other),
        }
        if pr.is_static {
            self.statics.insert(p, frame.cells.clone());
        }
        // copy out, left to right
        for (k, co) in copy_out.iter().enumerate() {
            if let Some(res) = co {
                if let Cell::Scalar(v) = &frame.cells[pr.params[k].var] {
                    let v = v.clone();
                    if self.read_resolved(res) != v {
                        self.feat("by-ref-changed");
                    }
                    self.write_resolved(res, v);
                }
            }
        }
        let ret = pr.result_var.map(|rv| match &frame.cells[rv] {
            Cell::Scalar(v) => v.clone(),
            _ => panic!("refsem: function result cell"),
        });
        // "zero or empty string if none was assigned" and "variables of a STATIC subprogram keep their values" pull in
        // different directions for a STATIC FUNCTION that assigns nothing in this activation: not determined
        if let (Some(r), Some(prev)) = (&ret, &earlier_static_result) {
            let dflt = default_val(&STy::B(pr.ret.unwrap()), prog);
            if *r == dflt && *prev != dflt {
                return undet("result of a STATIC FUNCTION in an activation that assigns none (or the default) after an earlier one assigned");
            }
        }
        Ok(ret)
    }

    fn resolve(&mut self, l: &LValue, path: &str) -> R<LValueResolved> {
        let (fi, ci) = self.locate(l.var);
        let slot = match &self.frames[fi].cells[ci] {
            Cell::Scalar(_) => None,
            Cell::Array { bounds, .. } => {
                let b = bounds.clone();
                Some(self.elem_index(&b, &l.index, path)?)
            }
            Cell::Unset => return undet("array used before its DIM executed"),
        };
        Ok(LValueResolved { fi, ci, slot, fields: l.fields.clone(), sty: l.sty.clone() })
    }
    fn read_resolved(&self, r: &LValueResolved) -> Val {
        let mut v = match &self.frames[r.fi].cells[r.ci] {
            Cell::Scalar(v) => v.clone(),
            Cell::Array { elems, .. } => elems[r.slot.unwrap()].clone(),
            Cell::Unset => unreachable!(),
        };
        for f in &r.fields {
            v = match v {
                Val::Rec(fs) => fs.into_iter().find(|(n, _)| field_eq(n, f)).map(|(_, v)| v).expect("field"),
                _ => panic!("field"),
            };
        }
        v
    }
    fn write_resolved(&mut self, r: &LValueResolved, v: Val) {
        let v = match (&r.sty, v) {
            (STy::Fixed(n), Val::S(s)) => Val::S(fix_len(&s, *n as usize)),
            (_, v) => v,
        };
        let cell = &mut self.frames[r.fi].cells[r.ci];
        let mut t: &mut Val = match cell {
            Cell::Scalar(x) => x,
            Cell::Array { elems, .. } => &mut elems[r.slot.unwrap()],
            Cell::Unset => unreachable!(),
        };
        for f in &r.fields {
            t = match t {
                Val::Rec(fs) => fs.iter_mut().find(|(n, _)| field_eq(n, f)).map(|(_, v)| v).expect("field"),
                _ => panic!("field"),
            };
        }
        *t = v;
    }

    // ------------------------------------------------------------- statements

    fn print_val(&mut self, v: &Val) -> R<()> {
        match v {
            Val::S(s) => {
                for ch in s.chars() {
                    self.out.push(ch);
                    if ch == '\r' || ch == '\n' {
                        self.col = 0;
                    } else {
                        self.col += 1;
                    }
                }
                Ok(())
            }
            Val::N(n) => {
                let Some(d) = n.print_digits() else { return undet("number needs more digits than its type prints exactly") };
                let t = format!("{}{} ", if n.m < 0 { "-" } else { " " }, d);
                self.col += t.len();
                self.out.push_str(&t);
                Ok(())
            }
            Val::Rec(_) => panic!("refsem: PRINT of a record"),
        }
    }

    fn exec_print(&mut self, items: &[PrintItem], path: &str) -> R<()> {
        // evaluate and print item by item (an error in a later item leaves the earlier output)
        let mut ends_with_sep = false;
        for it in items {
            match it {
                PrintItem::E(e) => {
                    self.cur_expr_uses_var = false;
                    let v = self.eval(e, path)?;
                    if self.cur_expr_uses_var {
                        self.printed_var = true;
                    }
                    self.print_val(&v)?;
                    ends_with_sep = false;
                }
                PrintItem::Semi => ends_with_sep = true,
                PrintItem::Comma => {
                    let pad = 14 - self.col % 14;
                    for _ in 0..pad {
                        self.out.push(' ');
                    }
                    self.col += pad;
                    ends_with_sep = true;
                    self.feat("print-comma");
                }
            }
        }
        if self.col >= 79 {
            return undet("screen line reaches column 80");
        }
        if !ends_with_sep {
            self.out.push_str("\r\n");
            self.col = 0;
        }
        Ok(())
    }

    fn truthy(&mut self, e: &Expr, path: &str) -> R<bool> {
        let v = self.eval(e, path)?;
        let n = v.num();
        if !n.is_zero() && !(n.is_whole() && n.m == -1) {
            self.feat("truth-value-other-than-0-and-minus-1");
        }
        Ok(!n.is_zero())
    }

    fn case_matches(&mut self, subject: &Val, item: &CaseItem, path: &str) -> R<bool> {
        match item {
            CaseItem::Val(e) => {
                let v = self.eval(e, path)?;
                let r = self.binop(BinOp::Eq, subject.clone(), v, path)?;
                Ok(!r.num().is_zero())
            }
            CaseItem::Is(op, e) => {
                let v = self.eval(e, path)?;
                let r = self.binop(*op, subject.clone(), v, path)?;
                Ok(!r.num().is_zero())
            }
            CaseItem::Range(a, b) => {
                let va = self.eval(a, path)?;
                let vb = self.eval(b, path)?;
                let ge = self.binop(BinOp::Ge, subject.clone(), va, path)?;
                let le = self.binop(BinOp::Le, subject.clone(), vb, path)?;
                Ok(!ge.num().is_zero() && !le.num().is_zero())
            }
        }
    }

    /// Executes one statement; failing simple statements consult the active handler.
    fn exec(&mut self, s: &Stmt, path: &str) -> R<()> {
        self.statements += 1;
        if self.statements > self.budget {
            return undet("reference statement budget");
        }
        loop {
            let r = self.exec_inner(s, path);
            match r {
                Err(Stop::Err(e)) if self.handler.is_some() && !self.in_handler => {
                    // dispatch to the handler, which runs at module level whatever procedure the statement is in
                    let h = self.handler.clone().unwrap();
                    let in_proc = self.frames.len() > 1;
                    self.feat("error-handled");
                    if in_proc {
                        self.feat("error-handled-inside-procedure");
                    }
                    self.err_code = e.code;
                    self.in_handler = true;
                    let saved = self.frames.split_off(1);
                    let saved_depth = self.gosub_depth;
                    let hr = self.run_from_label_main(&h);
                    self.frames.extend(saved);
                    self.in_handler = false;
                    match hr {
                        Err(Stop::ResumeSame) => {
                            // the failing piece was the header of a block statement: re-executing the statement is re-testing
                            // its conditions (IF / SELECT from the top, a top-tested loop's condition); where the statements
                            // leave open what is re-executed (FOR, bottom-tested DO, one-line IF) nothing is decided
                            match s {
                                Stmt::For { .. } | Stmt::IfLine { .. } | Stmt::Do { kind: DoKind::BottomWhile | DoKind::BottomUntil, .. } => return undet("RESUME after an error in the header of FOR / one-line IF / LOOP WHILE"),
                                Stmt::If { .. } | Stmt::Select { .. } | Stmt::While { .. } | Stmt::Do { .. } => self.feat("resume-re-executes-block-header"),
                                _ => {}
                            }
                            self.err_code = 0;
                            self.feat("resume");
                            continue;
                        }
                        Err(Stop::ResumeNext) => {
                            if matches!(s, Stmt::For { .. } | Stmt::IfLine { .. } | Stmt::Do { .. } | Stmt::If { .. } | Stmt::Select { .. } | Stmt::While { .. }) {
                                return undet("RESUME NEXT after an error in the header of a block statement");
                            }
                            self.err_code = 0;
                            self.feat("resume-next");
                            return Ok(());
                        }
                        Err(Stop::ResumeTo(l)) => {
                            if in_proc {
                                // the label is at module level: the active procedures are abandoned
                                self.err_code = 0;
                                self.feat("resume-label-abandons-procedures");
                                return Err(Stop::Abandon(l));
                            }
                            // RESUME label: the handler ends, control continues at the label
                            self.err_code = 0;
                            self.feat("resume-label");
                            return Err(Stop::Goto(l));
                        }
                        Err(Stop::Goto(l)) => panic!("refsem: GOTO {} escaped an error handler", l),
                        Ok(()) => return Err(Stop::End),
                        Err(other) => {
                            let _ = saved_depth;
                            return Err(other);
                        }
                    }
                }
                Err(Stop::Err(e)) if self.handler.is_some() && self.in_handler => {
                    let _ = e;
                    return undet("error inside a handler");
                }
                other => return other,
            }
        }
    }

    fn exec_inner(&mut self, s: &Stmt, path: &str) -> R<()> {
        match s {
            Stmt::Assign(l, e) => {
                let v = self.eval(e, path)?;
                self.store(l, v, path)
            }
            Stmt::Print(items) => self.exec_print(items, path),
            Stmt::If { arms, else_ } => {
                self.feat("if-block");
                for (k, (c, body)) in arms.iter().enumerate() {
                    let hp = if k == 0 { path.to_string() } else { format!("{}/arm{}", path, k) };
                    if self.truthy(c, &hp)? {
                        self.feat("branch-taken");
                        return self.run_block(body, path, &format!("a{}", k));
                    }
                }
                if let Some(e) = else_ {
                    self.feat("branch-taken");
                    return self.run_block(e, path, "else");
                }
                Ok(())
            }
            Stmt::IfLine { cond, then_, else_ } => {
                self.feat("if-line");
                if then_.len() > 1 || else_.as_ref().map(|e| e.len() > 1).unwrap_or(false) {
                    self.feat("if-line-several-statements");
                }
                if self.truthy(cond, path)? {
                    self.feat("branch-taken");
                    self.run_block(then_, path, "then")
                } else if let Some(e) = else_ {
                    self.feat("branch-taken");
                    self.run_block(e, path, "else")
                } else {
                    Ok(())
                }
            }
            Stmt::Select { subject, cases, else_ } => {
                self.feat("select");
                let v = self.eval(subject, path)?;
                for (k, (items, body)) in cases.iter().enumerate() {
                    let cp = format!("{}/case{}", path, k);
                    for it in items {
                        if self.case_matches(&v, it, &cp)? {
                            self.feat("branch-taken");
                            return self.run_block(body, path, &format!("c{}", k));
                        }
                    }
                }
                if let Some(e) = else_ {
                    self.feat("branch-taken");
                    return self.run_block(e, path, "else");
                }
                Ok(())
            }
            Stmt::For { var, from, to, step, body, .. } => {
                self.feat("for");
                if self.frames.len() > 1 && self.var_info(var.var).shared {
                    self.feat("for-shared-counter-inside-subprogram");
                }
                let vty = var.ety();
                let f = self.eval(from, path)?;
                self.store(var, f, path)?;
                let limit = self.eval(to, path)?;
                let limit = match limit.num().convert(vty) {
                    Ok(n) => n,
                    Err(e) => return self.num_err(e, path),
                };
                let step_v = match step {
                    Some(s) => {
                        let v = self.eval(s, path)?;
                        let n = v.num().clone();
                        if n.is_zero() {
                            return undet("FOR with zero step");
                        }
                        if vty.is_whole() && !n.is_whole() {
                            return undet("fractional step for a whole-number counter");
                        }
                        if n.sign() < 0 {
                            self.feat("for-negative-step");
                        } else {
                            self.feat("for-positive-step");
                        }
                        if !matches!(s, Expr::Lit(_)) && !matches!(s, Expr::Un(UnOp::Neg, x) if matches!(**x, Expr::Lit(_))) {
                            self.feat("for-computed-step");
                        }
                        n
                    }
                    None => Num::whole(Ty::Int, 1),
                };
                let end_path = format!("{}/end", path);
                loop {
                    let cur = self.load(var, path)?;
                    let c = cur.num().cmp(&limit);
                    let go = if step_v.sign() >= 0 { c != std::cmp::Ordering::Greater } else { c != std::cmp::Ordering::Less };
                    if !go {
                        break;
                    }
                    self.feat("loop-iterated");
                    match self.run_block(body, path, "b") {
                        Ok(()) => {}
                        Err(stop) => return Err(stop),
                    }
                    // increment: counter + step, converted to the counter's type
                    let cur = self.load(var, path)?;
                    let sum = match self.binop(BinOp::Add, cur, Val::N(step_v.clone()), path) {
                        Ok(v) => v,
                        Err(Stop::Err(mut e)) => {
                            e.paths.push(end_path.clone());
                            return Err(Stop::Err(e));
                        }
                        Err(o) => return Err(o),
                    };
                    match self.store(var, sum, path) {
                        Ok(()) => {}
                        Err(Stop::Err(mut e)) => {
                            e.paths.push(end_path.clone());
                            return Err(Stop::Err(e));
                        }
                        Err(o) => return Err(o),
                    }
                    self.statements += 1;
                    if self.statements > self.budget {
                        return undet("reference statement budget");
                    }
                }
                Ok(())
            }
            Stmt::While { cond, body } => {
                self.feat("while");
                while self.truthy(cond, path)? {
                    self.feat("loop-iterated");
                    self.run_block(body, path, "b")?;
                    self.statements += 1;
                    if self.statements > self.budget {
                        return undet("reference statement budget");
                    }
                }
                Ok(())
            }
            Stmt::Do { kind, cond, body } => {
                self.feat(match kind {
                    DoKind::TopWhile => "do-while-top",
                    DoKind::TopUntil => "do-until-top",
                    DoKind::BottomWhile => "do-while-bottom",
                    DoKind::BottomUntil => "do-until-bottom",
                });
                let end_path = format!("{}/end", path);
                loop {
                    match kind {
                        DoKind::TopWhile => {
                            if !self.truthy(cond, path)? {
                                break;
                            }
                        }
                        DoKind::TopUntil => {
                            if self.truthy(cond, path)? {
                                break;
                            }
                        }
                        _ => {}
                    }
                    self.feat("loop-iterated");
                    self.run_block(body, path, "b")?;
                    match kind {
                        DoKind::BottomWhile => {
                            if !self.truthy(cond, &end_path)? {
                                break;
                            }
                        }
                        DoKind::BottomUntil => {
                            if self.truthy(cond, &end_path)? {
                                break;
                            }
                        }
                        _ => {}
                    }
                    self.statements += 1;
                    if self.statements > self.budget {
                        return undet("reference statement budget");
                    }
                }
                Ok(())
            }
            Stmt::Read(ls) => {
                self.feat("read");
                for l in ls {
                    if self.data_pos >= self.data.len() {
                        self.feat("out-of-data");
                        return self.err(4, path);
                    }
                    let item = self.data[self.data_pos].clone();
                    self.data_pos += 1;
                    let v = match item {
                        DataItem::Num(neg, lit) => {
                            let v = self.lit(&lit)?;
                            if neg { Val::N(v.num().neg()) } else { v }
                        }
                        DataItem::Str(s) => Val::S(s),
                    };
                    match (&v, l.ety()) {
                        (Val::N(_), Ty::Str) | (Val::S(_), Ty::Int | Ty::Long | Ty::Single | Ty::Double) => return undet("READ of a number into a string or vice versa"),
                        _ => {}
                    }
                    self.store(l, v, path)?;
                }
                Ok(())
            }
            Stmt::Data(_) | Stmt::Label(_) => Ok(()),
            Stmt::Const(n, e) => {
                let v = self.eval(e, path)?;
                // a suffix on the constant's name converts the value
                let v = match (n.chars().last(), v) {
                    (Some('%'), Val::N(x)) => Val::N(x.convert(Ty::Int).map_err(|_| Stop::Undet("constant conversion".into()))?),
                    (Some('&'), Val::N(x)) => Val::N(x.convert(Ty::Long).map_err(|_| Stop::Undet("constant conversion".into()))?),
                    (Some('!'), Val::N(x)) => Val::N(x.convert(Ty::Single).map_err(|_| Stop::Undet("constant conversion".into()))?),
                    (Some('#'), Val::N(x)) => Val::N(x.convert(Ty::Double).map_err(|_| Stop::Undet("constant conversion".into()))?),
                    (_, v) => v,
                };
                self.consts.insert(n.to_uppercase(), v);
                Ok(())
            }
            Stmt::Goto(l) => {
                self.feat("goto");
                Err(Stop::Goto(l.clone()))
            }
            Stmt::Gosub(l) => {
                self.feat("gosub");
                self.gosub_depth += 1;
                if self.gosub_depth >= 2 {
                    self.feat("gosub-nested");
                }
                if self.gosub_depth > 60 {
                    return undet("reference GOSUB depth limit (runaway GOSUB without RETURN)");
                }
                let r = if self.frames.len() == 1 { self.run_from_label_main(l) } else { self.run_from_label_proc(l) };
                match r {
                    Err(Stop::Return) => {
                        self.gosub_depth -= 1;
                        Ok(())
                    }
                    Err(Stop::ReturnTo(l)) => {
                        // the GOSUB has been returned from; control continues at the label
                        self.gosub_depth -= 1;
                        self.feat("return-label");
                        Err(Stop::Goto(l))
                    }
                    Ok(()) => Err(Stop::End),
                    Err(o) => Err(o),
                }
            }
            Stmt::Return => {
                if self.gosub_depth == 0 {
                    self.feat("return-without-gosub");
                    self.err(3, path)
                } else {
                    Err(Stop::Return)
                }
            }
            Stmt::ReturnTo(l) => {
                if self.gosub_depth == 0 {
                    self.feat("return-without-gosub");
                    self.err(3, path)
                } else {
                    Err(Stop::ReturnTo(l.clone()))
                }
            }
            Stmt::OnErrorGoto(l) => {
                self.feat(if l.is_some() { "on-error-goto" } else { "on-error-goto-0" });
                self.handler = l.clone();
                Ok(())
            }
            Stmt::Resume(k) => {
                if !self.in_handler {
                    self.feat("resume-without-error");
                    return self.err(20, path);
                }
                Err(match k {
                    ResumeKind::Same => Stop::ResumeSame,
                    ResumeKind::Next => Stop::ResumeNext,
                })
            }
            Stmt::ResumeLabel(l) => {
                if !self.in_handler {
                    self.feat("resume-without-error");
                    return self.err(20, path);
                }
                Err(Stop::ResumeTo(l.clone()))
            }
            Stmt::CallSub(p, args) => self.call(*p, args, path).map(|_| ()),
            Stmt::Dim(d) => {
                let (fi, ci) = self.locate(d.var);
                if d.bounds.is_empty() {
                    return Ok(());
                }
                let n: usize = d.bounds.iter().map(|(lo, hi)| (hi - lo + 1) as usize).product();
                let dv = default_val(&d.sty, self.prog);
                if d.redim > 0 {
                    // REDIM: new bounds, every element starts again from the default of the element type
                    self.feat(if matches!(self.frames[fi].cells[ci], Cell::Unset) { "redim-first" } else if d.redim == 2 { "redim-again-short-form" } else { "redim-again" });
                    self.frames[fi].cells[ci] = Cell::Array { bounds: d.bounds.clone(), elems: vec![dv; n] };
                } else if matches!(self.frames[fi].cells[ci], Cell::Unset) {
                    self.frames[fi].cells[ci] = Cell::Array { bounds: d.bounds.clone(), elems: vec![dv; n] };
                }
                Ok(())
            }
            Stmt::End => Err(Stop::End),
            Stmt::ExitProc => Err(Stop::ExitProc),
            Stmt::Raw(_) => undet("raw statement"),
            Stmt::Opaque { var, bad, code, .. } => {
                if let Some(l) = var {
                    let v = self.load(l, path)?;
                    let n = v.num().clone();
                    if !n.is_whole() {
                        return undet("opaque statement on a fractional value");
                    }
                    if bad.iter().any(|b| n.m == *b as i128) {
                        self.feat("opaque-statement-failed");
                        return self.err(*code as i32, path);
                    }
                }
                Ok(())
            }
        }
    }

    fn run_block(&mut self, stmts: &[Stmt], parent: &str, name: &str) -> R<()> {
        let parent = parent.to_string();
        let name = name.to_string();
        self.run_stmts(stmts, 0, &move |i| path_child(&parent, &name, i))
    }

    /// Runs `stmts` from `start`; a GOTO to a label of this very block continues here.
    fn run_stmts(&mut self, stmts: &[Stmt], start: usize, pathf: &dyn Fn(usize) -> String) -> R<()> {
        let mut i = start;
        while i < stmts.len() {
            let p = pathf(i);
            match self.exec(&stmts[i], &p) {
                Ok(()) => i += 1,
                Err(Stop::Goto(l)) => {
                    match stmts.iter().position(|s| matches!(s, Stmt::Label(x) if x.eq_ignore_ascii_case(&l))) {
                        Some(k) => {
                            if k <= i {
                                self.feat("goto-backward");
                            }
                            i = k;
                            self.statements += 1;
                            if self.statements > self.budget {
                                return undet("reference statement budget");
                            }
                        }
                        None => {
                            self.feat("goto-out-of-block");
                            return Err(Stop::Goto(l));
                        }
                    }
                }
                Err(o) => return Err(o),
            }
        }
        Ok(())
    }

    fn run_block_top(&mut self, stmts: &[Stmt], pathf: &dyn Fn(usize) -> String) -> R<()> {
        self.run_stmts(stmts, 0, pathf)
    }

    fn run_from_label_main(&mut self, l: &str) -> R<()> {
        let prog = self.prog;
        let Some(k) = prog.main.iter().position(|s| matches!(s, Stmt::Label(x) if x.eq_ignore_ascii_case(l))) else {
            panic!("refsem: label {} not at module top level", l);
        };
        self.run_stmts(&prog.main, k, &path_main)
    }

    fn run_from_label_proc(&mut self, l: &str) -> R<()> {
        let prog = self.prog;
        let p = self.frames.last().unwrap().proc_.unwrap();
        let body = &prog.procs[p].body;
        let Some(k) = body.iter().position(|s| matches!(s, Stmt::Label(x) if x.eq_ignore_ascii_case(l))) else {
            panic!("refsem: label {} not at procedure top level", l);
        };
        self.run_stmts(body, k, &move |i| path_proc(p, i))
    }
}

pub fn static_ty(prog: &Program, e: &Expr) -> Ty {
    match e {
        Expr::Lit(Lit::Whole(v)) => {
            if *v <= 32767 {
                Ty::Int
            } else {
                Ty::Long
            }
        }
        Expr::Lit(Lit::Frac { double, .. }) => {
            if *double {
                Ty::Double
            } else {
                Ty::Single
            }
        }
        Expr::Lit(Lit::WholeDouble(_)) => Ty::Double,
        Expr::Lit(Lit::Str(_)) => Ty::Str,
        Expr::Load(l) => l.ety(),
        Expr::Const(_, t) => *t,
        Expr::Un(_, x) => static_ty(prog, x),
        Expr::Paren(x) => static_ty(prog, x),
        Expr::Bin(op, a, b) => {
            let ta = static_ty(prog, a);
            let tb = static_ty(prog, b);
            match op {
                BinOp::Add | BinOp::Sub | BinOp::Mul => {
                    if ta == Ty::Str {
                        Ty::Str
                    } else {
                        wider(ta, tb)
                    }
                }
                BinOp::Div => {
                    if ta == Ty::Double || tb == Ty::Double {
                        Ty::Double
                    } else {
                        Ty::Single
                    }
                }
                BinOp::Mod | BinOp::And | BinOp::Or => {
                    if ta == Ty::Int && tb == Ty::Int {
                        Ty::Int
                    } else {
                        Ty::Long
                    }
                }
                _ => Ty::Int,
            }
        }
        Expr::Call(p, _) => prog.procs[*p].ret.expect("function"),
        Expr::BuiltIn { ty, .. } => *ty,
    }
}


struct LValueResolved {
    fi: usize,
    ci: usize,
    slot: Option<usize>,
    fields: Vec<String>,
    sty: STy,
}

fn rel(op: BinOp, ord: std::cmp::Ordering) -> bool {
    use std::cmp::Ordering::*;
    match op {
        BinOp::Eq => ord == Equal,
        BinOp::Ne => ord != Equal,
        BinOp::Lt => ord == Less,
        BinOp::Le => ord != Greater,
        BinOp::Gt => ord == Greater,
        BinOp::Ge => ord != Less,
        _ => panic!("not relational"),
    }
}

pub fn render_val(v: &Val) -> String {
    match v {
        Val::N(n) => format!("{:?}:{}", n.ty, crate::genr::print::dyadic_decimal(n.m, n.s)),
        Val::S(s) => format!("{:?}", s),
        Val::Rec(fs) => format!("{{{}}}", fs.iter().map(|(n, v)| format!("{}={}", n, render_val(v))).collect::<Vec<_>>().join(",")),
    }
}

/// Runs the reference semantics on a program.
pub fn run(prog: &Program, budget: u64) -> Outcome {
    let mut m = Machine::new(prog, budget);
    let r = m.run_block_top(&prog.main, &path_main);
    let end = match r {
        Ok(()) | Err(Stop::End) => RefEnd::Ok,
        Err(Stop::Err(e)) => RefEnd::Err(e),
        Err(Stop::Undet(why)) => return Outcome::Undetermined(why, m.triggers),
        Err(Stop::Goto(l)) => panic!("refsem: GOTO to unknown label {}", l),
        Err(Stop::Return) => panic!("refsem: stray RETURN flow"),
        Err(Stop::ExitProc) => panic!("refsem: EXIT outside procedure"),
        Err(Stop::ResumeSame) | Err(Stop::ResumeNext) | Err(Stop::ResumeTo(_)) | Err(Stop::ReturnTo(_)) | Err(Stop::Abandon(_)) => panic!("refsem: stray RESUME / RETURN flow"),
    };
    let mut globals = BTreeMap::new();
    for (i, v) in prog.vars.iter().enumerate() {
        match &m.frames[0].cells[i] {
            Cell::Scalar(val) => {
                globals.insert(v.name.to_uppercase(), render_val(val));
            }
            Cell::Array { elems, .. } => {
                globals.insert(v.name.to_uppercase(), format!("[{}]", elems.iter().map(render_val).collect::<Vec<_>>().join(",")));
            }
            Cell::Unset => {}
        }
    }
    Outcome::Determined(RefResult { stdout: m.out, end, triggers: m.triggers, statements: m.statements, features: m.features, globals, printed_var: m.printed_var })
}

/// A field may be written with the type character of its type (`rec.name$`): the same field.
fn field_eq(declared: &str, written: &str) -> bool {
    let w = written.trim_end_matches(['%', '&', '!', '#', '$']);
    declared.eq_ignore_ascii_case(w)
}

//! Exact numeric values of the reference semantics: dyadic rationals tagged
//! with their BASIC type. Every operation is exact or reports that the
//! property does not determine the result (rounding would be needed).

use crate::genr::ir::Ty;

#[derive(Clone, Debug, PartialEq, Eq, Hash)]
pub struct Num {
    pub ty: Ty,
    /// value = m / 2^s, normalised (m odd or s == 0)
    pub m: i128,
    pub s: u32,
}

#[derive(Clone, Debug, PartialEq)]
pub enum NumErr {
    Overflow,
    /// Exact tie when rounding to a whole number (both neighbours are "nearest").
    Tie,
    /// Result not exactly representable in the target type (rounding would occur).
    Inexact,
    DivZero,
}

fn bits(m: i128) -> u32 {
    128 - m.unsigned_abs().leading_zeros()
}

pub const MAX_SHIFT: u32 = 10;
/// DOUBLE prints 15 digits exactly: 2^-14 = 0.00006103515625 still does
pub const MAX_SHIFT_DOUBLE: u32 = 14;

impl Num {
    pub fn new(ty: Ty, m: i128, s: u32) -> Num {
        let mut n = Num { ty, m, s };
        n.normalise();
        n
    }
    pub fn whole(ty: Ty, v: i64) -> Num {
        Num { ty, m: v as i128, s: 0 }
    }
    fn normalise(&mut self) {
        if self.m == 0 {
            self.s = 0;
            return;
        }
        while self.s > 0 && self.m % 2 == 0 {
            self.m /= 2;
            self.s -= 1;
        }
    }
    pub fn is_whole(&self) -> bool {
        self.s == 0
    }
    pub fn is_zero(&self) -> bool {
        self.m == 0
    }
    pub fn sign(&self) -> i32 {
        self.m.signum() as i32
    }
    /// Whole value (only when is_whole()).
    pub fn as_i128(&self) -> i128 {
        debug_assert!(self.s == 0);
        self.m
    }
    pub fn to_f64(&self) -> f64 {
        self.m as f64 / (1u128 << self.s) as f64
    }

    /// Is the exact value representable in `ty`?
    pub fn fits(&self, ty: Ty) -> Result<(), NumErr> {
        match ty {
            Ty::Int => {
                if self.s != 0 {
                    Err(NumErr::Inexact)
                } else if self.m < -32768 || self.m > 32767 {
                    Err(NumErr::Overflow)
                } else {
                    Ok(())
                }
            }
            Ty::Long => {
                if self.s != 0 {
                    Err(NumErr::Inexact)
                } else if self.m < -2147483648 || self.m > 2147483647 {
                    Err(NumErr::Overflow)
                } else {
                    Ok(())
                }
            }
            Ty::Single => {
                if self.s > MAX_SHIFT {
                    return Err(NumErr::Inexact);
                }
                if bits(self.m) > 24 {
                    // magnitude beyond f32 range is far outside anything generated; otherwise rounding needed
                    if bits(self.m) as i64 - self.s as i64 > 127 { Err(NumErr::Overflow) } else { Err(NumErr::Inexact) }
                } else {
                    Ok(())
                }
            }
            Ty::Double => {
                if self.s > MAX_SHIFT_DOUBLE {
                    return Err(NumErr::Inexact);
                }
                if bits(self.m) > 53 { Err(NumErr::Inexact) } else { Ok(()) }
            }
            Ty::Str => panic!("numeric fits() on string type"),
        }
    }

    /// Round to nearest whole; Tie if exactly half-way.
    pub fn round_whole(&self) -> Result<i128, NumErr> {
        if self.s == 0 {
            return Ok(self.m);
        }
        let d = 1i128 << self.s;
        let fl = self.m.div_euclid(d);
        let rem = self.m.rem_euclid(d);
        let half = d / 2;
        if rem == half {
            Err(NumErr::Tie)
        } else if rem < half {
            Ok(fl)
        } else {
            Ok(fl + 1)
        }
    }
    /// The two neighbours of an exact tie (floor, ceil).
    pub fn tie_neighbours(&self) -> (i128, i128) {
        let d = 1i128 << self.s;
        let fl = self.m.div_euclid(d);
        (fl, fl + 1)
    }

    /// Conversion on store / parameter binding / READ.
    pub fn convert(&self, ty: Ty) -> Result<Num, NumErr> {
        match ty {
            Ty::Int | Ty::Long => {
                let w = self.round_whole()?;
                let n = Num { ty, m: w, s: 0 };
                n.fits(ty)?;
                Ok(n)
            }
            Ty::Single | Ty::Double => {
                let n = Num { ty, m: self.m, s: self.s };
                n.fits(ty)?;
                Ok(n)
            }
            Ty::Str => panic!("numeric convert to string"),
        }
    }

    pub fn cmp(&self, other: &Num) -> std::cmp::Ordering {
        let s = self.s.max(other.s);
        let a = self.m << (s - self.s);
        let b = other.m << (s - other.s);
        a.cmp(&b)
    }

    pub fn add(&self, o: &Num, ty: Ty) -> Num {
        let s = self.s.max(o.s);
        Num::new(ty, (self.m << (s - self.s)) + (o.m << (s - o.s)), s)
    }
    pub fn sub(&self, o: &Num, ty: Ty) -> Num {
        let s = self.s.max(o.s);
        Num::new(ty, (self.m << (s - self.s)) - (o.m << (s - o.s)), s)
    }
    pub fn mul(&self, o: &Num, ty: Ty) -> Num {
        Num::new(ty, self.m * o.m, self.s + o.s)
    }
    /// Exact quotient if it is dyadic.
    pub fn div(&self, o: &Num, ty: Ty) -> Result<Num, NumErr> {
        if o.m == 0 {
            return Err(NumErr::DivZero);
        }
        // (a/2^sa) / (b/2^sb) = a * 2^sb / (b * 2^sa); find k with (a * 2^(sb + k)) divisible by (b * 2^sa)
        let mut num = self.m << o.s;
        let den = o.m << self.s;
        let mut k = 0u32;
        while num % den != 0 {
            num <<= 1;
            k += 1;
            if k > MAX_SHIFT_DOUBLE + 2 {
                return Err(NumErr::Inexact);
            }
        }
        Ok(Num::new(ty, num / den, k))
    }
    pub fn neg(&self) -> Num {
        Num { ty: self.ty, m: -self.m, s: self.s }
    }

    /// Digits before and after the decimal point of the exact decimal expansion.
    pub fn decimal(&self) -> (String, String) {
        let t = crate::genr::print::dyadic_decimal(self.m.abs(), self.s);
        match t.split_once('.') {
            Some((a, b)) => (a.to_string(), b.to_string()),
            None => (t, String::new()),
        }
    }

    /// PRINT text of the number without the leading sign/space and trailing space,
    /// or None if the statement does not determine it (too many digits for the type).
    pub fn print_digits(&self) -> Option<String> {
        let (w, f) = self.decimal();
        let w_sig = if w == "0" { 0 } else { w.len() };
        let total = w_sig + f.len();
        let limit = match self.ty {
            Ty::Int | Ty::Long => 10,
            Ty::Single => 6,
            Ty::Double => 15,
            Ty::Str => return None,
        };
        if total > limit {
            return None;
        }
        if f.is_empty() { Some(w) } else { Some(format!("{}.{}", w, f)) }
    }
}

pub fn wider(a: Ty, b: Ty) -> Ty {
    fn rank(t: Ty) -> u8 {
        match t {
            Ty::Int => 0,
            Ty::Long => 1,
            Ty::Single => 2,
            Ty::Double => 3,
            Ty::Str => 9,
        }
    }
    if rank(a) >= rank(b) { a } else { b }
}

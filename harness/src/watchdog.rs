//! CPU-time watchdog for worker processes. A case that burns more than the
//! limit of *process CPU time* (not wall clock, so machine load cannot trip it)
//! makes the worker exit with status 3; the parent attributes it to the
//! journaled case.

use std::sync::atomic::{AtomicU64, Ordering};

static CASE_START_CPU_MS: AtomicU64 = AtomicU64::new(u64::MAX);
static LIMIT_MS: AtomicU64 = AtomicU64::new(60_000);

pub fn process_cpu_ms() -> u64 {
    let mut ts = libc::timespec { tv_sec: 0, tv_nsec: 0 };
    unsafe {
        libc::clock_gettime(libc::CLOCK_PROCESS_CPUTIME_ID, &mut ts);
    }
    ts.tv_sec as u64 * 1000 + ts.tv_nsec as u64 / 1_000_000
}

pub fn case_started() {
    CASE_START_CPU_MS.store(process_cpu_ms(), Ordering::Relaxed);
}

pub fn case_idle() {
    CASE_START_CPU_MS.store(u64::MAX, Ordering::Relaxed);
}

pub fn set_limit_ms(ms: u64) {
    LIMIT_MS.store(ms, Ordering::Relaxed);
}

pub fn start() {
    std::thread::Builder::new()
        .name("watchdog".into())
        .spawn(|| {
            loop {
                std::thread::sleep(std::time::Duration::from_millis(250));
                let start = CASE_START_CPU_MS.load(Ordering::Relaxed);
                if start == u64::MAX {
                    continue;
                }
                let now = process_cpu_ms();
                if now.saturating_sub(start) > LIMIT_MS.load(Ordering::Relaxed) {
                    eprintln!("watchdog: case exceeded CPU limit");
                    std::process::exit(3);
                }
            }
        })
        .expect("watchdog thread");
}

//! Parent/worker process pool, merging, evidence and replay files.

use std::collections::{BTreeMap, BTreeSet, HashSet};
use std::os::unix::process::ExitStatusExt;
use std::path::{Path, PathBuf};
use std::process::{Command, Stdio};
use std::time::Instant;

use serde_json::{Value, json};

use crate::engine::{KnownFindings, Shard, Tier, Violation, hash64};
use crate::props;
use crate::watchdog;

pub fn verif_root() -> PathBuf {
    PathBuf::from(std::env::var("VERIF_ROOT").unwrap_or_else(|_| "/verif".to_string()))
}

fn known_path() -> String {
    verif_root().join("known_findings.json").to_string_lossy().to_string()
}

fn jobs() -> u32 {
    std::env::var("VERIF_JOBS").ok().and_then(|s| s.parse().ok()).unwrap_or(16)
}

pub fn worker_main(prop: &str, tier: Tier, seed: u64, shard: u32, nshards: u32, out: &str, journal: &str) {
    let p = props::lookup(prop).expect("property");
    let known = KnownFindings::load(&known_path());
    // private scratch directory: file built-ins use relative paths
    let scratch = Path::new(journal).parent().unwrap().join("cwd");
    std::fs::create_dir_all(&scratch).expect("scratch dir");
    std::env::set_current_dir(&scratch).expect("chdir scratch");
    // safety net: a generated program must not be able to exhaust the machine's memory
    unsafe {
        let lim = libc::rlimit { rlim_cur: 3 << 30, rlim_max: 3 << 30 };
        libc::setrlimit(libc::RLIMIT_AS, &lim);
    }
    watchdog::set_limit_ms(p.watchdog_ms());
    watchdog::start();
    let prop_s = prop.to_string();
    let out_s = out.to_string();
    let journal_s = journal.to_string();
    // 8 MiB stack: the limit the real binary's main thread has
    let handle = std::thread::Builder::new()
        .name("worker".into())
        .stack_size(8 * 1024 * 1024)
        .spawn(move || {
            let mut sh = Shard::new(&prop_s, tier, seed, shard, nshards, known, Some(&journal_s));
            if shard == 0 {
                replay_regress(p, &mut sh);
            }
            p.run(&mut sh);
            watchdog::case_idle();
            let j = sh.to_json();
            std::fs::write(&out_s, serde_json::to_vec(&j).unwrap()).expect("write shard result");
        })
        .expect("spawn worker thread");
    match handle.join() {
        Ok(()) => {}
        Err(_) => {
            // a panic of the harness itself (not of the code under test): infrastructure fault
            eprintln!("worker {}: harness fault (panic outside guarded code)", shard);
            std::process::exit(4);
        }
    }
}

/// Replays committed regression cases and the witnesses of known findings (shard 0 only).
fn replay_regress(p: &'static dyn props::Prop, sh: &mut Shard) {
    let dir = verif_root().join("regress").join(p.id());
    let mut files: Vec<PathBuf> = match std::fs::read_dir(&dir) {
        Ok(rd) => rd.filter_map(|e| e.ok()).map(|e| e.path()).filter(|p| p.extension().map(|e| e == "json").unwrap_or(false)).collect(),
        Err(_) => vec![],
    };
    files.sort();
    let mut replayed = 0u64;
    for f in files {
        let Ok(text) = std::fs::read_to_string(&f) else { continue };
        let Ok(v) = serde_json::from_str::<Value>(&text) else {
            panic!("regress file {} is not valid JSON", f.display());
        };
        sh.journal(&format!("regress {}", f.display()));
        let r = p.replay(sh, &v["inputs"]);
        replayed += 1;
        sh.report(r.map_err(|mut viol| {
            viol.what = format!("{} [regress {}]", viol.what, f.file_name().unwrap().to_string_lossy());
            viol
        }));
    }
    sh.note("regress_replayed", json!(replayed));
}

fn scratch_base(prop: &str, tier: Tier) -> PathBuf {
    verif_root().join("target").join("scratch").join(format!("{}-{}-{}", prop, tier.name(), std::process::id()))
}

pub fn parent_main(prop: &str, tier: Tier, seed: u64) -> i32 {
    let started = Instant::now();
    let p = props::lookup(prop).expect("property");
    let known = KnownFindings::load(&known_path());
    let n = jobs();
    let base = scratch_base(prop, tier);
    let _ = std::fs::remove_dir_all(&base);
    std::fs::create_dir_all(&base).expect("scratch");
    let exe = std::env::current_exe().expect("current exe");
    let mut children = vec![];
    for shard in 0..n {
        let dir = base.join(format!("s{}", shard));
        std::fs::create_dir_all(&dir).expect("shard dir");
        let out = dir.join("result.json");
        let journal = dir.join("journal.txt");
        let child = Command::new(&exe)
            .arg("--worker")
            .arg(prop)
            .arg(tier.name())
            .arg(seed.to_string())
            .arg(shard.to_string())
            .arg(n.to_string())
            .arg(&out)
            .arg(&journal)
            .stdin(Stdio::null())
            .stdout(Stdio::null())
            .stderr(Stdio::inherit())
            .spawn()
            .expect("spawn worker");
        children.push((shard, child, out, journal));
    }
    let mut evaluations = 0u64;
    let mut nontrivial: HashSet<u64> = HashSet::new();
    let mut classes: BTreeMap<String, u64> = BTreeMap::new();
    let mut discards: BTreeMap<String, u64> = BTreeMap::new();
    let mut known_hits: BTreeMap<String, u64> = BTreeMap::new();
    let mut samples: Vec<Value> = vec![];
    let mut violations: Vec<Value> = vec![];
    let mut exhaustive_parts: BTreeSet<String> = BTreeSet::new();
    let mut notes: BTreeMap<String, Value> = BTreeMap::new();
    let mut infra: Vec<String> = vec![];
    let mut shards_died = 0u64;
    for (shard, mut child, out, journal) in children {
        let status = child.wait().expect("wait worker");
        if !status.success() {
            shards_died += 1;
            let journal_text = std::fs::read_to_string(&journal).unwrap_or_default();
            let how = if let Some(sig) = status.signal() {
                format!("signal-{}", sig)
            } else {
                match status.code() {
                    Some(3) => "cpu-watchdog".to_string(),
                    Some(c) => format!("exit-{}", c),
                    None => "unknown".to_string(),
                }
            };
            if how == "exit-4" || journal_text.is_empty() {
                infra.push(format!("shard {} ended with {} (harness fault)", shard, how));
                continue;
            }
            if p.death_is_violation() && how != "cpu-watchdog" || (how == "cpu-watchdog" && p.hang_is_violation()) {
                let v = Violation::new(
                    format!("process-death:{}", how),
                    format!("worker process ended by {} while running the journaled input", how),
                    json!({"journal": journal_text}),
                );
                violations.push(v.to_json(prop, tier.name(), seed));
            } else {
                infra.push(format!("shard {} ended with {} while running: {}", shard, how, journal_text.chars().take(300).collect::<String>()));
            }
            continue;
        }
        let text = match std::fs::read_to_string(&out) {
            Ok(t) => t,
            Err(_) => {
                infra.push(format!("shard {} wrote no result", shard));
                continue;
            }
        };
        let v: Value = serde_json::from_str(&text).expect("shard result JSON");
        evaluations += v["evaluations"].as_u64().unwrap_or(0);
        for h in v["nontrivial"].as_array().into_iter().flatten() {
            nontrivial.insert(h.as_u64().unwrap_or(0));
        }
        for (dst, key) in [(&mut classes, "classes"), (&mut discards, "discards"), (&mut known_hits, "known_hits")] {
            if let Some(m) = v[key].as_object() {
                for (k, c) in m {
                    *dst.entry(k.clone()).or_insert(0) += c.as_u64().unwrap_or(0);
                }
            }
        }
        for s in v["samples"].as_array().into_iter().flatten() {
            if samples.len() < 10 && (shard % 4 == 0 || samples.len() < 3) {
                samples.push(s.clone());
            }
        }
        for viol in v["violations"].as_array().into_iter().flatten() {
            violations.push(viol.clone());
        }
        for e in v["exhaustive_parts"].as_array().into_iter().flatten() {
            exhaustive_parts.insert(e.as_str().unwrap_or("").to_string());
        }
        if let Some(m) = v["notes"].as_object() {
            for (k, val) in m {
                // numeric notes are summed, others keep the first
                match (notes.get(k), val.as_u64()) {
                    (Some(prev), Some(n)) if prev.is_u64() => {
                        let s = prev.as_u64().unwrap() + n;
                        notes.insert(k.clone(), json!(s));
                    }
                    (None, _) => {
                        notes.insert(k.clone(), val.clone());
                    }
                    _ => {}
                }
            }
        }
    }
    let _ = std::fs::remove_dir_all(&base);

    // distinct violations by signature
    let mut seen: BTreeSet<String> = BTreeSet::new();
    let mut distinct: Vec<Value> = vec![];
    for v in violations {
        let sig = v["sig"].as_str().unwrap_or("").to_string();
        if seen.insert(sig) {
            distinct.push(v);
        }
    }
    // process-death violations may match a known finding too
    let mut final_violations: Vec<Value> = vec![];
    for v in distinct {
        let sig = v["sig"].as_str().unwrap_or("");
        if known.open_match(sig).is_some() {
            *known_hits.entry(sig.to_string()).or_insert(0) += 1;
        } else {
            final_violations.push(v);
        }
    }

    let out_dir = verif_root().join("out").join(prop);
    let mut lines: Vec<String> = vec![];
    for k in &known.all {
        if k.status == "open" && known_hits.get(&k.sig).copied().unwrap_or(0) > 0 {
            lines.push(format!("KNOWN-FINDING: property={} {} [sig {}; {} case(s) this run]", k.property, k.what, k.sig, known_hits[&k.sig]));
        }
    }
    let mut replay_paths = vec![];
    if !final_violations.is_empty() {
        std::fs::create_dir_all(&out_dir).expect("out dir");
        for v in &final_violations {
            let h = hash64(&v.to_string());
            let path = out_dir.join(format!("{:016x}.json", h));
            std::fs::write(&path, serde_json::to_vec_pretty(v).unwrap()).expect("write replay");
            lines.push(format!("VIOLATION property={} replay={}", prop, path.display()));
            lines.push(format!("  sig: {}", v["sig"].as_str().unwrap_or("")));
            lines.push(format!("  what: {}", v["what"].as_str().unwrap_or("")));
            replay_paths.push(path.to_string_lossy().to_string());
        }
    }

    let wall = started.elapsed().as_secs_f64();
    if samples.is_empty() {
        samples.push(json!("(no sample recorded)"));
    }
    let evidence = json!({
        "property_id": prop,
        "tier": tier.name(),
        "seed": seed as i64,
        "level": "exploration",
        "coverage": {
            "evaluations": evaluations,
            "distinct_nontrivial": nontrivial.len(),
            "rule": p.rule(),
            "samples": samples,
            "classes": classes,
            "discarded": discards,
            "known_findings_reproduced": known_hits,
            "exhaustive": false,
            "exhaustive_parts": exhaustive_parts,
            "workers": n,
            "shards_died": shards_died,
            "notes": notes,
            "replay_files": replay_paths,
        },
        "assumptions": p.assumptions(),
        "wall_s": (wall * 100.0).round() / 100.0,
        "violations": final_violations.len(),
    });
    let ev_dir = verif_root().join("evidence");
    std::fs::create_dir_all(&ev_dir).expect("evidence dir");
    std::fs::write(ev_dir.join(format!("{}.json", prop)), serde_json::to_vec_pretty(&evidence).unwrap()).expect("write evidence");

    for l in &lines {
        println!("{}", l);
    }
    println!(
        "{} {}: evaluations={} distinct_nontrivial={} violations={} known={} wall={:.1}s",
        prop,
        tier.name(),
        evaluations,
        nontrivial.len(),
        final_violations.len(),
        known_hits.values().filter(|c| **c > 0).count(),
        wall
    );
    if !final_violations.is_empty() {
        return 1;
    }
    if !infra.is_empty() {
        for i in &infra {
            eprintln!("INCONCLUSIVE: {}", i);
        }
        return 2;
    }
    0
}

pub fn replay_main(prop: &str, path: &str) -> i32 {
    let p = props::lookup(prop).expect("property");
    let text = match std::fs::read_to_string(path) {
        Ok(t) => t,
        Err(e) => {
            eprintln!("cannot read {}: {}", path, e);
            return 2;
        }
    };
    let v: Value = match serde_json::from_str(&text) {
        Ok(v) => v,
        Err(e) => {
            eprintln!("{} is not JSON: {}", path, e);
            return 2;
        }
    };
    let scratch = verif_root().join("target").join("scratch").join(format!("replay-{}", std::process::id()));
    std::fs::create_dir_all(&scratch).expect("scratch");
    std::env::set_current_dir(&scratch).expect("chdir");
    let prop_s = prop.to_string();
    let path_s = path.to_string();
    let handle = std::thread::Builder::new()
        .stack_size(8 * 1024 * 1024)
        .spawn(move || {
            let mut sh = Shard::new(&prop_s, Tier::Quick, 0, 0, 1, KnownFindings::default(), None);
            sh.strict = true;
            match p.replay(&mut sh, &v["inputs"]) {
                Ok(()) => {
                    println!("replay {}: property held on this input", path_s);
                    0
                }
                Err(viol) => {
                    println!("VIOLATION property={} replay={}", prop_s, path_s);
                    println!("  sig: {}", viol.sig);
                    println!("  what: {}", viol.what);
                    println!("  expected: {}", viol.expected);
                    println!("  observed: {}", viol.observed);
                    1
                }
            }
        })
        .expect("spawn");
    let code = handle.join().unwrap_or(2);
    let _ = std::fs::remove_dir_all(&scratch);
    code
}

//! C19 — bit-level primitives agree with two's complement and IEEE-754.

use rusty_variant::{Variant, bytes_to_f64, bytes_to_i32, f64_to_bytes, i32_to_bytes, qb_and, qb_or};
use serde_json::{Value, json};

use crate::engine::{Shard, Tape, Violation, hash64};
use crate::impl_run::{self, End, RunOpts};
use crate::panics;
use crate::props::Prop;

pub struct C19;

fn int_set() -> Vec<i32> {
    let mut v: Vec<i32> = vec![0, 1, -1, 2, -2, 3, 255, 256, 257, -255, -256, -257, 32767, 32766, -32768, -32767, 0x5555, -0x5556, 0x00FF, -256, 0x0F0F, -0x0F10, 12345, -12345];
    for b in 0..15 {
        v.push(1 << b);
        v.push(!(1i32 << b));
        v.push((1 << b) - 1);
        v.push(-(1 << b));
    }
    v.sort();
    v.dedup();
    v.retain(|x| *x >= -32768 && *x <= 32767);
    v
}

fn check_int_unary(i: i32) -> Result<(), Violation> {
    let inputs = json!({"kind":"int-unary","value":i});
    let r = panics::guarded(|| {
        let bytes = i32_to_bytes(i);
        let back = bytes_to_i32(bytes);
        let not = Variant::VInteger(i).unary_not();
        (bytes, back, not)
    });
    match r {
        Err(p) => Err(Violation::new(format!("int-unary:{}", p.sig()), format!("bit primitive panicked for INTEGER {}", i), inputs).exp_obs("no panic", json!({"panic":p.msg,"at":p.loc}))),
        Ok((bytes, back, not)) => {
            let exp = (i as i16).to_le_bytes();
            if bytes != exp {
                return Err(Violation::new("int-to-bytes", format!("i32_to_bytes({}) is not the 16-bit two's-complement word, low byte first", i), inputs).exp_obs(json!(exp), json!(bytes)));
            }
            if back != i {
                return Err(Violation::new("int-bytes-roundtrip", format!("bytes_to_i32(i32_to_bytes({})) != identity", i), inputs).exp_obs(i, back));
            }
            let exp_not = !(i as i16) as i32;
            match not {
                Ok(Variant::VInteger(n)) if n == exp_not => Ok(()),
                other => Err(Violation::new("int-not", format!("NOT {} is not the bitwise complement", i), inputs).exp_obs(exp_not, format!("{:?}", other))),
            }
        }
    }
}

fn check_int_binary(a: i32, b: i32) -> Result<(), Violation> {
    let inputs = json!({"kind":"int-binary","a":a,"b":b});
    let r = panics::guarded(|| (qb_and(a, b), qb_or(a, b)));
    match r {
        Err(p) => Err(Violation::new(format!("int-binary:{}", p.sig()), format!("qb_and/qb_or panicked for {} , {}", a, b), inputs).exp_obs("no panic", json!({"panic":p.msg,"at":p.loc}))),
        Ok((and, or)) => {
            let ea = ((a as i16) & (b as i16)) as i32;
            let eo = ((a as i16) | (b as i16)) as i32;
            if and != ea {
                return Err(Violation::new("int-and", format!("{} AND {} is not the 16-bit bitwise and", a, b), inputs).exp_obs(ea, and));
            }
            if or != eo {
                return Err(Violation::new("int-or", format!("{} OR {} is not the 16-bit bitwise or", a, b), inputs).exp_obs(eo, or));
            }
            Ok(())
        }
    }
}

fn f64_class(x: f64) -> &'static str {
    let bits = x.to_bits();
    let exp = (bits >> 52) & 0x7ff;
    if x == 0.0 {
        if x.is_sign_negative() { "negative-zero" } else { "zero" }
    } else if exp == 0 {
        "subnormal"
    } else if x.abs() >= 9.223372036854775808e18 {
        "beyond-2^63"
    } else if x.abs() >= 4503599627370496.0 {
        "2^52..2^63"
    } else if x.abs() < 1.0 {
        "normal-below-1"
    } else {
        "normal-1..2^52"
    }
}

/// Signature per failure class so that distinct root causes are reported separately.
fn check_f64(x: f64) -> Result<(), Violation> {
    let inputs = json!({"kind":"f64","bits":format!("{:016x}", x.to_bits())});
    let cls = f64_class(x);
    let enc = panics::guarded(|| f64_to_bytes(x));
    let exp = x.to_le_bytes();
    let bytes = match enc {
        Err(p) => {
            return Err(Violation::new(format!("f64-to-bytes-panic:{}:{}", cls, p.sig()), format!("f64_to_bytes panicked for {:e} ({})", x, cls), inputs).exp_obs(json!(exp), json!({"panic":p.msg,"at":p.loc})));
        }
        Ok(b) => b,
    };
    if bytes != exp {
        return Err(Violation::new(format!("f64-to-bytes:{}", cls), format!("MKD$ bytes of {:e} ({}) are not the IEEE-754 binary64 encoding, LSB first", x, cls), inputs).exp_obs(json!(exp), json!(bytes)));
    }
    // decoding is checked from the true encoding, independent of the encoder
    let dec = panics::guarded(|| bytes_to_f64(&exp));
    match dec {
        Err(p) => Err(Violation::new(format!("bytes-to-f64-panic:{}:{}", cls, p.sig()), format!("bytes_to_f64 panicked for the encoding of {:e} ({})", x, cls), inputs).exp_obs(x, json!({"panic":p.msg,"at":p.loc}))),
        Ok(y) => {
            if y.to_bits() != x.to_bits() && !(x == 0.0 && y == 0.0) {
                return Err(Violation::new(format!("bytes-to-f64:{}", cls), format!("CVD of the IEEE-754 encoding of {:e} ({}) is {:e}", x, cls, y), inputs).exp_obs(format!("{:e}", x), format!("{:e}", y)));
            }
            Ok(())
        }
    }
}

fn special_doubles() -> Vec<f64> {
    let mut v: Vec<f64> = vec![0.0, -0.0, 1.0, -1.0, 0.5, 1.5, 0.1, -0.1, 3.14, f64::MAX, f64::MIN, f64::MIN_POSITIVE, f64::EPSILON, 1.0 + f64::EPSILON, 1.0 - f64::EPSILON / 2.0];
    for e in -1074..=1023 {
        let p = 2.0f64.powi(e);
        v.push(p);
        v.push(-p);
    }
    // boundary mantissas at a spread of exponents
    for e in [1u64, 2, 511, 1022, 1023, 1024, 1075, 1086, 1087, 2045, 2046] {
        for m in [0u64, 1, 2, (1 << 52) - 1, (1 << 52) - 2, 1 << 51, (1 << 51) - 1, (1 << 51) + 1, 0x5555555555555, 0xAAAAAAAAAAAAA] {
            let bits = (e << 52) | m;
            v.push(f64::from_bits(bits));
            v.push(f64::from_bits(bits | (1 << 63)));
        }
    }
    // subnormals
    for m in [1u64, 2, 3, (1 << 52) - 1, 1 << 51, 1 << 26, 0x5555555555555] {
        v.push(f64::from_bits(m));
        v.push(f64::from_bits(m | (1 << 63)));
    }
    // integers around 2^52, 2^53, 2^63, 2^64
    for e in [52, 53, 62, 63, 64, 65] {
        let p = 2.0f64.powi(e);
        for d in [-2.0, -1.0, 0.0, 1.0, 2.0, 1024.0, 4096.0] {
            v.push(p + d);
            v.push(-(p + d));
            v.push(f64::from_bits(p.to_bits() + 1));
            v.push(f64::from_bits(p.to_bits() - 1));
        }
    }
    v.retain(|x| x.is_finite());
    v
}

fn program_case(sh: &mut Shard, t: &mut Tape) -> Result<(), Violation> {
    // program-level: AND/OR/NOT on INTEGER variables and CVD(MKD$(x)) with exactly representable x
    let ints = int_set();
    let mut src = String::new();
    let mut expected = String::new();
    let n = 12;
    for k in 0..n {
        let a = if t.chance(1, 2) { *t.pick(&ints) } else { t.range(-32768, 32767) as i32 };
        let b = if t.chance(1, 2) { *t.pick(&ints) } else { t.range(-32768, 32767) as i32 };
        match t.choose(5) {
            0 => {
                src.push_str(&format!("A% = {}: B% = {}: PRINT A% AND B%\n", lit(a), lit(b)));
                expected.push_str(&fmt_int(((a as i16) & (b as i16)) as i64));
            }
            1 => {
                src.push_str(&format!("A% = {}: B% = {}: PRINT A% OR B%\n", lit(a), lit(b)));
                expected.push_str(&fmt_int(((a as i16) | (b as i16)) as i64));
            }
            2 => {
                src.push_str(&format!("A% = {}: PRINT NOT A%\n", lit(a)));
                expected.push_str(&fmt_int(!(a as i16) as i64));
            }
            3 => {
                // peek/poke the two bytes of an INTEGER variable
                src.push_str(&format!("DIM V{k} AS INTEGER\nV{k} = {}\nDEF SEG = VARSEG(V{k})\nPRINT PEEK(VARPTR(V{k})); PEEK(VARPTR(V{k}) + 1)\nPOKE VARPTR(V{k}), {}\nPOKE VARPTR(V{k}) + 1, {}\nPRINT V{k}\nDEF SEG\n", lit(a), (b as i16).to_le_bytes()[0], (b as i16).to_le_bytes()[1]));
                let by = (a as i16).to_le_bytes();
                expected.push_str(&format!(" {}  {} \r\n", by[0], by[1]));
                expected.push_str(&fmt_int(b as i64));
            }
            _ => {
                // CVD(MKD$(x)) = x for whole x (printed exactly)
                let x = t.range(-1_000_000, 1_000_000);
                src.push_str(&format!("D# = {}: PRINT CVD(MKD$(D#)) = D#\n", x));
                expected.push_str(&fmt_int(-1));
            }
        }
    }
    sh.journal(&src);
    sh.eval();
    sh.nontrivial(hash64(&src));
    sh.class("program-level");
    sh.sample_sparse(97, || json!({"program": src}));
    run_program_case(&src, &expected)
}

fn lit(i: i32) -> String {
    if i == -32768 { "(-32767 - 1)".to_string() } else { i.to_string() }
}

fn fmt_int(i: i64) -> String {
    if i < 0 { format!("{} \r\n", i) } else { format!(" {} \r\n", i) }
}

fn run_program_case(src: &str, expected: &str) -> Result<(), Violation> {
    let inputs = json!({"kind":"program","program":src,"expected_stdout":expected});
    match impl_run::run_src(src, &RunOpts::budget(1_000_000)) {
        Err(e) => Err(Violation::new(format!("program-rejected:{}", e.class()), "bit-level test program rejected", inputs).exp_obs("accepted", e.to_json())),
        Ok(out) => {
            if out.end != End::Ok || out.stdout_str() != expected {
                let sig = match &out.end {
                    End::Ok => "program-output".to_string(),
                    e => format!("program-end:{}", e.short()),
                };
                return Err(Violation::new(sig, "program-level AND/OR/NOT/PEEK/POKE/CVD(MKD$) result differs from the machine operation", inputs).exp_obs(json!({"stdout":expected,"end":"ok"}), json!({"stdout":out.stdout_str(),"end":out.end.to_json()})));
            }
            Ok(())
        }
    }
}

impl Prop for C19 {
    fn id(&self) -> &'static str {
        "C19"
    }
    fn rule(&self) -> &'static str {
        "Direct calls of i32_to_bytes/bytes_to_i32/unary_not over all 65536 INTEGER values (exhaustive), qb_and/qb_or over all pairs of a boundary/one-hot/complement set plus random pairs, f64_to_bytes/bytes_to_f64 over every power of two, boundary mantissas, subnormals, integers around 2^52..2^65, +-0 and random finite bit patterns, each compared with the machine operation (i16 &,|,!, to_le_bytes, f64::to_le_bytes/from_le_bytes); plus generated programs using AND/OR/NOT on INTEGER variables, PEEK/POKE through VARPTR/VARSEG and CVD(MKD$(x)). Every case is distinct by construction (hash of operands / program text); all are non-trivial (each exercises a primitive on a distinct operand)."
    }
    fn assumptions(&self) -> Vec<&'static str> {
        vec![
            "qb_and/qb_or are only exercised with 16-bit operands (their only callers cast to INTEGER first)",
            "NaN and infinities are outside the statement (finite doubles only)",
            "CVD(-0.0 encoding) may return +0.0 or -0.0 (they compare equal in BASIC); the bytes MKD$ produces must still be the IEEE encoding",
        ]
    }
    fn run(&self, sh: &mut Shard) {
        // exhaustive: all 65536 INTEGER values
        for i in -32768i32..=32767 {
            if !sh.mine((i + 32768) as u64) {
                continue;
            }
            sh.eval();
            sh.nontrivial(hash64(&("u", i)));
            let r = check_int_unary(i);
            if !sh.report(r) {
                return;
            }
        }
        sh.class_n("int-unary-exhaustive", 65536 / sh.nshards as u64);
        sh.exhaustive("all 65536 INTEGER values: to-bytes, round trip, NOT");
        // all pairs of the boundary set
        let set = int_set();
        let mut idx = 0u64;
        for a in &set {
            for b in &set {
                idx += 1;
                if !sh.mine(idx) {
                    continue;
                }
                sh.eval();
                sh.nontrivial(hash64(&("b", a, b)));
                sh.class("int-binary-boundary-pair");
                let r = check_int_binary(*a, *b);
                if !sh.report(r) {
                    return;
                }
            }
        }
        sh.exhaustive("AND/OR over all ordered pairs of the boundary/one-hot/complement set");
        sh.sample(|| json!({"kind":"int-binary","a":set[3],"b":set[set.len()-2]}));
        // special doubles
        let specials = special_doubles();
        for (i, x) in specials.iter().enumerate() {
            if !sh.mine(i as u64) {
                continue;
            }
            sh.eval();
            sh.nontrivial(hash64(&("d", x.to_bits())));
            sh.class(&format!("f64:{}", f64_class(*x)));
            let r = check_f64(*x);
            if !sh.report(r) {
                return;
            }
        }
        sh.sample(|| json!({"kind":"f64","value":"2^-1074 .. 2^1023, boundary mantissas, subnormals"}));
        // random pairs and random doubles
        let pairs = sh.share(sh.tier.pick(4_000_000, 160_000_000));
        let chunk = 1000usize;
        sh.search(1, pairs / chunk as u64, 2 * chunk, 2 * chunk, |sh, tape| {
            let mut t = Tape::new(tape);
            for _ in 0..chunk {
                let a = t.range(-32768, 32767) as i32;
                let b = t.range(-32768, 32767) as i32;
                sh.eval();
                sh.nontrivial(hash64(&("b", a, b)));
                check_int_binary(a, b)?;
            }
            sh.class_n("int-binary-random-pair", chunk as u64);
            Ok(())
        });
        let doubles = sh.share(sh.tier.pick(1_000_000, 40_000_000));
        let chunk = 500usize;
        sh.search(2, doubles / chunk as u64, 2 * chunk, 2 * chunk, |sh, tape| {
            let mut t = Tape::new(tape);
            for _ in 0..chunk {
                let hi = t.raw() as u64;
                let lo = t.raw() as u64;
                let x = f64::from_bits((hi << 32) | lo);
                if !x.is_finite() {
                    sh.discard("non-finite bit pattern");
                    continue;
                }
                sh.eval();
                sh.nontrivial(hash64(&("d", x.to_bits())));
                sh.class(&format!("f64:{}", f64_class(x)));
                check_f64(x)?;
            }
            Ok(())
        });
        sh.sample(|| json!({"kind":"f64","bits":"random 64-bit patterns (finite)"}));
        // program level
        let progs = sh.share(sh.tier.pick(4_000, 100_000));
        sh.search(3, progs, 80, 80, |sh, tape| {
            let mut t = Tape::new(tape);
            program_case(sh, &mut t)
        });
    }
    fn replay(&self, _sh: &mut Shard, inputs: &Value) -> Result<(), Violation> {
        match inputs["kind"].as_str().unwrap_or("") {
            "int-unary" => check_int_unary(inputs["value"].as_i64().unwrap_or(0) as i32),
            "int-binary" => check_int_binary(inputs["a"].as_i64().unwrap_or(0) as i32, inputs["b"].as_i64().unwrap_or(0) as i32),
            "f64" => {
                let bits = u64::from_str_radix(inputs["bits"].as_str().unwrap_or("0"), 16).unwrap_or(0);
                check_f64(f64::from_bits(bits))
            }
            "program" => run_program_case(inputs["program"].as_str().unwrap_or(""), inputs["expected_stdout"].as_str().unwrap_or("")),
            k => panic!("unknown replay kind {}", k),
        }
    }
}

//! C19 — bit-level primitives agree with two's complement and IEEE-754.

use rusty_variant::{Variant, bytes_to_f64, bytes_to_i32, f64_to_bytes, i32_to_bytes, qb_and, qb_or};
use serde_json::{Value, json};

use crate::engine::{Shard, Tape, Violation, hash64};
use crate::impl_run::{self, End, RunOpts};
use crate::panics;
use crate::props::Prop;

pub struct C19;

fn int_set() -> Vec<i32> {
    let mut v: Vec<i32> = vec![0, 1, -1, 2, -2, 3, 255, 256, 257, -255, -256, -257, 32767, 32766, -32768, -32767, 0x5555, -0x5556, 0x00FF, -256, 0x0F0F, -0x0F10, 12345, -12345];
    for b in 0..15 {
        v.push(1 << b);
        v.push(!(1i32 << b));
        v.push((1 << b) - 1);
        v.push(-(1 << b));
    }
    v.sort();
    v.dedup();
    v.retain(|x| *x >= -32768 && *x <= 32767);
    v
}

fn check_int_unary(i: i32) -> Result<(), Violation> {
    let inputs = json!({"kind":"int-unary","value":i});
    let r = panics::guarded(|| {
        let bytes = i32_to_bytes(i);
        let back = bytes_to_i32(bytes);
        let not = Variant::VInteger(i).unary_not();
        (bytes, back, not)
    });
    match r {
        Err(p) => Err(Violation::new(format!("int-unary:{}", p.sig()), format!("bit primitive panicked for INTEGER {}", i), inputs).exp_obs("no panic", json!({"panic":p.msg,"at":p.loc}))),
        Ok((bytes, back, not)) => {
            let exp = (i as i16).to_le_bytes();
            if bytes != exp {
                return Err(Violation::new("int-to-bytes", format!("i32_to_bytes({}) is not the 16-bit two's-complement word, low byte first", i), inputs).exp_obs(json!(exp), json!(bytes)));
            }
            if back != i {
                return Err(Violation::new("int-bytes-roundtrip", format!("bytes_to_i32(i32_to_bytes({})) != identity", i), inputs).exp_obs(i, back));
            }
            let exp_not = !(i as i16) as i32;
            match not {
                Ok(Variant::VInteger(n)) if n == exp_not => Ok(()),
                other => Err(Violation::new("int-not", format!("NOT {} is not the bitwise complement", i), inputs).exp_obs(exp_not, format!("{:?}", other))),
            }
        }
    }
}

fn check_int_binary(a: i32, b: i32) -> Result<(), Violation> {
    let inputs = json!({"kind":"int-binary","a":a,"b":b});
    let r = panics::guarded(|| (qb_and(a, b), qb_or(a, b)));
    match r {
        Err(p) => Err(Violation::new(format!("int-binary:{}", p.sig()), format!("qb_and/qb_or panicked for {} , {}", a, b), inputs).exp_obs("no panic", json!({"panic":p.msg,"at":p.loc}))),
        Ok((and, or)) => {
            let ea = ((a as i16) & (b as i16)) as i32;
            let eo = ((a as i16) | (b as i16)) as i32;
            if and != ea {
                return Err(Violation::new("int-and", format!("{} AND {} is not the 16-bit bitwise and", a, b), inputs).exp_obs(ea, and));
            }
            if or != eo {
                return Err(Violation::new("int-or", format!("{} OR {} is not the 16-bit bitwise or", a, b), inputs).exp_obs(eo, or));
            }
            Ok(())
        }
    }
}

fn f64_class(x: f64) -> &'static str {
    let bits = x.to_bits();
    let exp = (bits >> 52) & 0x7ff;
    if x == 0.0 {
        if x.is_sign_negative() { "negative-zero" } else { "zero" }
    } else if exp == 0 {
        "subnormal"
    } else if x.abs() >= 9.223372036854775808e18 {
        "beyond-2^63"
    } else if x.abs() >= 4503599627370496.0 {
        "2^52..2^63"
    } else if x.abs() < 1.0 {
        "normal-below-1"
    } else {
        "normal-1..2^52"
    }
}

/// Signature per failure class so that distinct root causes are reported separately.
fn check_f64(x: f64) -> Result<(), Violation> {
    let inputs = json!({"kind":"f64","bits":format!("{:016x}", x.to_bits())});
    let cls = f64_class(x);
    let enc = panics::guarded(|| f64_to_bytes(x));
    let exp = x.to_le_bytes();
    let bytes = match enc {
        Err(p) => {
            return Err(Violation::new(format!("f64-to-bytes-panic:{}:{}", cls, p.sig()), format!("f64_to_bytes panicked for {:e} ({})", x, cls), inputs).exp_obs(json!(exp), json!({"panic":p.msg,"at":p.loc})));
        }
        Ok(b) => b,
    };
    if bytes != exp {
        return Err(Violation::new(format!("f64-to-bytes:{}", cls), format!("MKD$ bytes of {:e} ({}) are not the IEEE-754 binary64 encoding, LSB first", x, cls), inputs).exp_obs(json!(exp), json!(bytes)));
    }
    // decoding is checked from the true encoding, independent of the encoder
    let dec = panics::guarded(|| bytes_to_f64(&exp));
    match dec {
        Err(p) => Err(Violation::new(format!("bytes-to-f64-panic:{}:{}", cls, p.sig()), format!("bytes_to_f64 panicked for the encoding of {:e} ({})", x, cls), inputs).exp_obs(x, json!({"panic":p.msg,"at":p.loc}))),
        Ok(y) => {
            if y.to_bits() != x.to_bits() && !(x == 0.0 && y == 0.0) {
                return Err(Violation::new(format!("bytes-to-f64:{}", cls), format!("CVD of the IEEE-754 encoding of {:e} ({}) is {:e}", x, cls, y), inputs).exp_obs(format!("{:e}", x), format!("{:e}", y)));
            }
            Ok(())
        }
    }
}

fn special_doubles() -> Vec<f64> {
    let mut v: Vec<f64> = vec![0.0, -0.0, 1.0, -1.0, 0.5, 1.5, 0.1, -0.1, 3.14, f64::MAX, f64::MIN, f64::MIN_POSITIVE, f64::EPSILON, 1.0 + f64::EPSILON, 1.0 - f64::EPSILON / 2.0];
    for e in -1074..=1023 {
        let p = 2.0f64.powi(e);
        v.push(p);
        v.push(-p);
    }
    // boundary mantissas at a spread of exponents
    for e in [1u64, 2, 511, 1022, 1023, 1024, 1075, 1086, 1087, 2045, 2046] {
        for m in [0u64, 1, 2, (1 << 52) - 1, (1 << 52) - 2, 1 << 51, (1 << 51) - 1, (1 << 51) + 1, 0x5555555555555, 0xAAAAAAAAAAAAA] {
            let bits = (e << 52) | m;
            v.push(f64::from_bits(bits));
            v.push(f64::from_bits(bits | (1 << 63)));
        }
    }
    // subnormals
    for m in [1u64, 2, 3, (1 << 52) - 1, 1 << 51, 1 << 26, 0x5555555555555] {
        v.push(f64::from_bits(m));
        v.push(f64::from_bits(m | (1 << 63)));
    }
    // integers around 2^52, 2^53, 2^63, 2^64
    for e in [52, 53, 62, 63, 64, 65] {
        let p = 2.0f64.powi(e);
        for d in [-2.0, -1.0, 0.0, 1.0, 2.0, 1024.0, 4096.0] {
            v.push(p + d);
            v.push(-(p + d));
            v.push(f64::from_bits(p.to_bits() + 1));
            v.push(f64::from_bits(p.to_bits() - 1));
        }
    }
    v.retain(|x| x.is_finite());
    v
}

fn program_case(sh: &mut Shard, t: &mut Tape) -> Result<(), Violation> {
    // program-level: AND/OR/NOT on INTEGER variables and CVD(MKD$(x)) with exactly representable x
    let ints = int_set();
    let mut src = String::new();
    let mut expected = String::new();
    let n = 12;
    for k in 0..n {
        let a = if t.chance(1, 2) { *t.pick(&ints) } else { t.range(-32768, 32767) as i32 };
        let b = if t.chance(1, 2) { *t.pick(&ints) } else { t.range(-32768, 32767) as i32 };
        match t.choose(5) {
            0 => {
                src.push_str(&format!("A% = {}: B% = {}: PRINT A% AND B%\n", lit(a), lit(b)));
                expected.push_str(&fmt_int(((a as i16) & (b as i16)) as i64));
            }
            1 => {
                src.push_str(&format!("A% = {}: B% = {}: PRINT A% OR B%\n", lit(a), lit(b)));
                expected.push_str(&fmt_int(((a as i16) | (b as i16)) as i64));
            }
            2 => {
                src.push_str(&format!("A% = {}: PRINT NOT A%\n", lit(a)));
                expected.push_str(&fmt_int(!(a as i16) as i64));
            }
            3 => {
                // peek/poke the two bytes of an INTEGER variable
                src.push_str(&format!("DIM V{k} AS INTEGER\nV{k} = {}\nDEF SEG = VARSEG(V{k})\nPRINT PEEK(VARPTR(V{k})); PEEK(VARPTR(V{k}) + 1)\nPOKE VARPTR(V{k}), {}\nPOKE VARPTR(V{k}) + 1, {}\nPRINT V{k}\nDEF SEG\n", lit(a), (b as i16).to_le_bytes()[0], (b as i16).to_le_bytes()[1]));
                let by = (a as i16).to_le_bytes();
                expected.push_str(&format!(" {}  {} \r\n", by[0], by[1]));
                expected.push_str(&fmt_int(b as i64));
            }
            _ => {
                // CVD(MKD$(x)) = x for whole x (printed exactly)
                let x = t.range(-1_000_000, 1_000_000);
                src.push_str(&format!("D# = {}: PRINT CVD(MKD$(D#)) = D#\n", x));
                expected.push_str(&fmt_int(-1));
            }
        }
    }
    sh.journal(&src);
    sh.eval();
    sh.nontrivial(hash64(&src));
    sh.class("program-level");
    sh.sample_sparse(251, || json!({"program": src}));
    run_program_case(&src, &expected)
}

fn lit(i: i32) -> String {
    if i == -32768 { "(-32767 - 1)".to_string() } else { i.to_string() }
}

fn fmt_int(i: i64) -> String {
    if i < 0 { format!("{} \r\n", i) } else { format!(" {} \r\n", i) }
}

fn run_program_case(src: &str, expected: &str) -> Result<(), Violation> {
    let inputs = json!({"kind":"program","program":src,"expected_stdout":expected});
    match impl_run::run_src(src, &RunOpts::budget(1_000_000)) {
        Err(e) => Err(Violation::new(format!("program-rejected:{}", e.class()), "bit-level test program rejected", inputs).exp_obs("accepted", e.to_json())),
        Ok(out) => {
            if out.end != End::Ok || out.stdout_str() != expected {
                let sig = match &out.end {
                    End::Ok => "program-output".to_string(),
                    e => format!("program-end:{}", e.short()),
                };
                return Err(Violation::new(sig, "program-level AND/OR/NOT/PEEK/POKE/CVD(MKD$) result differs from the machine operation", inputs).exp_obs(json!({"stdout":expected,"end":"ok"}), json!({"stdout":out.stdout_str(),"end":out.end.to_json()})));
            }
            Ok(())
        }
    }
}

// ---------------------------------------------------------------------------------------------
// Program level, byte-level memory model: PEEK/POKE through VARPTR/VARSEG on INTEGER variables and
// INTEGER array elements that live at module level, in SUBs/FUNCTIONs (also STATIC ones), in
// parameters (scalars by reference / by value, whole arrays) and in DIM SHARED variables reached
// from a subprogram, interleaved with ordinary reads and writes; every scope ends with a dump of
// every variable and every array element it can see.
//
// Oracle (from the statement): an INTEGER variable is a 16-bit two's-complement word, low byte
// first; with DEF SEG = VARSEG(x), PEEK(VARPTR(x) + k) is byte k of x and POKE VARPTR(x) + k, b
// replaces exactly that byte; nothing else changes. The model never predicts an address or a
// segment value: both are always taken from VARPTR/VARSEG of the addressed variable itself.
// Aliasing is excluded by construction (no variable is reachable under two names at once), so the
// by-reference/copy-in-copy-out distinction is not observable.
// ---------------------------------------------------------------------------------------------

#[derive(Clone, Copy, PartialEq, Eq, Debug)]
enum Ty {
    Int,
    Long,
    Single,
    Double,
    Str,
}

impl Ty {
    fn suffix(self) -> &'static str {
        match self {
            Ty::Int => "%",
            Ty::Long => "&",
            Ty::Single => "!",
            Ty::Double => "#",
            Ty::Str => "$",
        }
    }
    fn word(self) -> &'static str {
        match self {
            Ty::Int => "INTEGER",
            Ty::Long => "LONG",
            Ty::Single => "SINGLE",
            Ty::Double => "DOUBLE",
            Ty::Str => "STRING",
        }
    }
}

#[derive(Clone, Debug, PartialEq)]
enum Slot {
    I([u8; 2]),
    L(i32),
    /// SINGLE/DOUBLE bystanders hold multiples of 0.5 (exact in both types, printed exactly)
    F(i32),
    S(String),
}

impl Slot {
    fn default_of(ty: Ty) -> Slot {
        match ty {
            Ty::Int => Slot::I([0, 0]),
            Ty::Long => Slot::L(0),
            Ty::Single | Ty::Double => Slot::F(0),
            Ty::Str => Slot::S(String::new()),
        }
    }
    fn int(&self) -> i32 {
        match self {
            Slot::I(b) => i16::from_le_bytes(*b) as i32,
            _ => unreachable!("INTEGER cell expected"),
        }
    }
    /// text PRINT produces for the value as one item of a `;` list
    fn printed(&self) -> String {
        match self {
            Slot::I(b) => num_item(i16::from_le_bytes(*b) as i64),
            Slot::L(v) => num_item(*v as i64),
            Slot::F(h) => {
                if h % 2 == 0 {
                    num_item((*h / 2) as i64)
                } else {
                    let whole = h.abs() / 2;
                    format!("{}{}.5 ", if *h < 0 { "-" } else { " " }, whole)
                }
            }
            Slot::S(s) => s.clone(),
        }
    }
    /// literal that assigns the value
    fn literal(&self) -> String {
        match self {
            Slot::I(b) => lit(i16::from_le_bytes(*b) as i32),
            Slot::L(v) => v.to_string(),
            Slot::F(h) => {
                if h % 2 == 0 {
                    (h / 2).to_string()
                } else {
                    format!("{}{}.5", if *h < 0 { "-" } else { "" }, h.abs() / 2)
                }
            }
            Slot::S(s) => format!("\"{}\"", s),
        }
    }
}

fn num_item(i: i64) -> String {
    if i < 0 { format!("{} ", i) } else { format!(" {} ", i) }
}

#[derive(Clone, Copy, Debug, PartialEq, Eq)]
enum Home {
    Local,
    Param,
    /// view of the module-level DIM SHARED variable with this index
    SharedView(usize),
}

#[derive(Clone, Debug)]
struct MVar {
    /// spelling at every use (with the type suffix when the variable is declared by suffix)
    name: String,
    ty: Ty,
    /// empty = scalar, else (lower, upper) per dimension
    dims: Vec<(i32, i32)>,
    /// declaration statement; empty = implicit scalar or parameter
    decl: String,
    /// declared with DIM SHARED at module level (never passed as an argument: it would alias)
    shared: bool,
    home: Home,
}

impl MVar {
    fn len(&self) -> usize {
        self.dims.iter().map(|(lo, hi)| (hi - lo + 1) as usize).product::<usize>().max(1)
    }
    fn is_array(&self) -> bool {
        !self.dims.is_empty()
    }
    /// element text for the flat (row-major) element number
    fn elem(&self, flat: usize) -> String {
        if self.dims.is_empty() {
            return self.name.clone();
        }
        let mut idx = vec![0i32; self.dims.len()];
        let mut rest = flat;
        for d in (0..self.dims.len()).rev() {
            let n = (self.dims[d].1 - self.dims[d].0 + 1) as usize;
            idx[d] = self.dims[d].0 + (rest % n) as i32;
            rest /= n;
        }
        format!("{}({})", self.name, idx.iter().map(|i| i.to_string()).collect::<Vec<_>>().join(", "))
    }
}

#[derive(Clone, Copy, Debug, PartialEq, Eq)]
struct Tgt {
    var: usize,
    flat: usize,
}

#[derive(Clone, Debug)]
enum Opnd {
    T(Tgt),
    Lit(i32),
}

#[derive(Clone, Debug)]
enum Arg {
    /// INTEGER scalar or array element passed by reference
    Ref(Tgt),
    /// parenthesised: passed by value
    Val(Tgt),
    Lit(i32),
    /// whole array `name()`
    Array(usize),
}

#[derive(Clone, Debug)]
enum MOp {
    Set(Tgt, i32),
    SetOther(Tgt, Slot),
    Show(Tgt),
    /// which: 0 low byte, 1 high byte, 2 both; ptr: through ZS&/ZP& instead of inline VARSEG/VARPTR
    Peek { t: Tgt, which: u8, ptr: bool, reset: bool },
    Poke { t: Tgt, which: u8, b: [u8; 2], ptr: bool, reset: bool },
    /// POKE a, f(PEEK(a)) with f built from AND / OR / NOT
    PokeExpr { t: Tgt, k: u8, form: u8, m: u8 },
    /// byte-wise copy of one INTEGER into another (to bytes and back is the identity)
    Copy { s: Tgt, d: Tgt },
    /// op 0 AND, 1 OR, 2 NOT (b unused)
    Bit { d: Tgt, op: u8, a: Opnd, b: Opnd },
    Call { callee: usize, args: Vec<Arg>, form: u8, dst: Option<Tgt> },
}

#[derive(Clone, Debug)]
struct MScope {
    /// 0 module, 1 SUB, 2 FUNCTION
    kind: u8,
    name: String,
    is_static: bool,
    /// procedures: parameters first, then locals, then views of the shared module variables
    vars: Vec<MVar>,
    nparams: usize,
    ops: Vec<MOp>,
    ret: Option<Opnd>,
}

impl MScope {
    fn int_vars(&self) -> Vec<usize> {
        (0..self.vars.len()).filter(|i| self.vars[*i].ty == Ty::Int).collect()
    }
    fn scope_tag(&self) -> &'static str {
        match (self.kind, self.is_static) {
            (0, _) => "module",
            (1, false) => "sub",
            (1, true) => "static-sub",
            (_, false) => "function",
            (_, true) => "static-function",
        }
    }
    /// coarse location for signatures: one root cause should not fan out into many signatures
    fn coarse(&self, t: Tgt) -> String {
        let v = &self.vars[t.var];
        let place = match (self.kind, v.home) {
            (0, _) => "module",
            (_, Home::SharedView(_)) => "procedure-shared",
            _ => "procedure",
        };
        format!("{}.{}", place, if v.is_array() { "array" } else { "scalar" })
    }
    fn op_tag(&self, op: &MOp) -> String {
        match op {
            MOp::Set(t, _) => format!("assign:{}", self.coarse(*t)),
            MOp::SetOther(..) => "assign-other".to_string(),
            MOp::Show(t) => format!("show:{}", self.coarse(*t)),
            MOp::Peek { t, .. } => format!("peek:{}", self.coarse(*t)),
            MOp::Poke { t, .. } | MOp::PokeExpr { t, .. } => format!("poke:{}", self.coarse(*t)),
            MOp::Copy { d, .. } => format!("poke:{}", self.coarse(*d)),
            MOp::Bit { d, .. } => format!("bitop:{}", self.coarse(*d)),
            MOp::Call { .. } => "call".to_string(),
        }
    }
    fn tgt_tag(&self, t: Tgt) -> String {
        let v = &self.vars[t.var];
        let home = match v.home {
            Home::Local if v.shared => "shared",
            Home::Local => "local",
            Home::Param => "param",
            Home::SharedView(_) => "shared",
        };
        format!("{}.{}.{}", self.scope_tag(), home, if v.is_array() { if v.dims.len() > 1 { "array2d" } else { "array" } } else { "scalar" })
    }
}

fn gen_word(t: &mut Tape, ints: &[i32]) -> i32 {
    match t.choose(3) {
        0 => t.range(0, 300) as i32,
        1 => *t.pick(ints),
        _ => t.range(-32768, 32767) as i32,
    }
}

fn gen_byte(t: &mut Tape) -> u8 {
    match t.choose(3) {
        0 => *t.pick(&[0u8, 1, 127, 128, 255, 254, 129, 2, 64, 192]),
        _ => t.range(0, 255) as u8,
    }
}

fn gen_dims(t: &mut Tape) -> Vec<(i32, i32)> {
    let two = t.chance(1, 6);
    let mut dims = Vec::new();
    let nd = if two { 2 } else { 1 };
    for _ in 0..nd {
        let lo = *t.pick(&[1i32, 0, 1, 0, -1, 5]);
        let len = if two { t.range(1, 2) } else { t.range(1, 4) } as i32;
        dims.push((lo, lo + len - 1));
    }
    dims
}

fn dims_text(t: &mut Tape, dims: &[(i32, i32)]) -> String {
    let parts: Vec<String> = dims
        .iter()
        .map(|(lo, hi)| if *lo == 0 && t.chance(1, 2) { format!("{}", hi) } else { format!("{} TO {}", lo, hi) })
        .collect();
    format!("({})", parts.join(", "))
}

/// A declared variable; `base` has no suffix.
fn gen_var(t: &mut Tape, base: &str, ty: Ty, dims: Vec<(i32, i32)>, shared: bool) -> MVar {
    let dims_s = if dims.is_empty() { String::new() } else { dims_text(t, &dims) };
    let sh = if shared { "SHARED " } else { "" };
    let (name, decl) = match t.choose(3) {
        0 => (base.to_string(), format!("DIM {}{}{} AS {}", sh, base, dims_s, ty.word())),
        1 => (format!("{}{}", base, ty.suffix()), format!("DIM {}{}{}{}", sh, base, ty.suffix(), dims_s)),
        _ => {
            if dims.is_empty() && !shared {
                // implicit: created by its first assignment
                (format!("{}{}", base, ty.suffix()), String::new())
            } else {
                (format!("{}{}", base, ty.suffix()), format!("DIM {}{}{}{}", sh, base, ty.suffix(), dims_s))
            }
        }
    };
    MVar { name, ty, dims, decl, shared, home: Home::Local }
}

fn gen_other_ty(t: &mut Tape, allow_str: bool) -> Ty {
    match t.choose(if allow_str { 4 } else { 3 }) {
        0 => Ty::Long,
        1 => Ty::Double,
        2 => Ty::Single,
        _ => Ty::Str,
    }
}

fn gen_other_value(t: &mut Tape, ty: Ty) -> Slot {
    match ty {
        Ty::Long => Slot::L(t.range(-100_000, 100_000) as i32),
        Ty::Single | Ty::Double => {
            let mag = t.range(2, 4000) as i32;
            Slot::F(if t.chance(1, 2) { -mag } else { mag })
        }
        Ty::Str => Slot::S(t.pick(&["", "a", "xyz", "hello", "QB 4.5", "0123456789"]).to_string()),
        Ty::Int => unreachable!(),
    }
}

/// Locals of one scope in a random order (the order decides the memory layout).
/// `ni`/`na`: INTEGER scalars / arrays, `no`/`noa`: bystander scalars / arrays of other types.
fn gen_locals(t: &mut Tape, ni: usize, na: usize, no: usize, noa: usize, shared_prob: u32) -> Vec<MVar> {
    let mut kinds: Vec<u8> = Vec::new();
    kinds.extend(std::iter::repeat(0u8).take(ni));
    kinds.extend(std::iter::repeat(1u8).take(na));
    kinds.extend(std::iter::repeat(2u8).take(no));
    kinds.extend(std::iter::repeat(3u8).take(noa));
    // Fisher-Yates driven by the tape (identity for an exhausted tape)
    for i in (1..kinds.len()).rev() {
        let j = i - t.choose(i + 1);
        kinds.swap(i, j);
    }
    let mut out = Vec::new();
    let mut counter = [0usize; 4];
    for k in kinds {
        counter[k as usize] += 1;
        let n = counter[k as usize];
        let shared = shared_prob > 0 && t.chance(shared_prob, 8);
        let g = if shared { "G" } else { "" };
        let v = match k {
            0 => gen_var(t, &format!("{}V{}", g, n), Ty::Int, vec![], shared),
            1 => {
                let d = gen_dims(t);
                gen_var(t, &format!("{}A{}", g, n), Ty::Int, d, shared)
            }
            2 => {
                let ty = gen_other_ty(t, true);
                gen_var(t, &format!("{}B{}", g, n), ty, vec![], shared)
            }
            _ => {
                let ty = gen_other_ty(t, false);
                let d = gen_dims(t);
                gen_var(t, &format!("{}C{}", g, n), ty, d, shared)
            }
        };
        out.push(v);
    }
    out
}

fn pick_int_tgt(t: &mut Tape, sc: &MScope) -> Option<Tgt> {
    let ints = sc.int_vars();
    if ints.is_empty() {
        return None;
    }
    let arrays: Vec<usize> = ints.iter().cloned().filter(|i| sc.vars[*i].is_array()).collect();
    let var = if !arrays.is_empty() && t.chance(1, 2) { *t.pick(&arrays) } else { *t.pick(&ints) };
    let flat = t.choose(sc.vars[var].len());
    Some(Tgt { var, flat })
}

fn gen_plain_op(t: &mut Tape, sc: &MScope, ints: &[i32]) -> Option<MOp> {
    let tg = pick_int_tgt(t, sc)?;
    Some(match t.choose(14) {
        0 => MOp::Show(tg),
        1 | 2 | 3 => MOp::Peek { t: tg, which: *t.pick(&[2u8, 0, 1]), ptr: t.chance(1, 4), reset: t.chance(1, 4) },
        4 | 5 | 6 | 7 => MOp::Poke { t: tg, which: *t.pick(&[2u8, 0, 1, 1]), b: [gen_byte(t), gen_byte(t)], ptr: t.chance(1, 4), reset: t.chance(1, 4) },
        8 => MOp::PokeExpr { t: tg, k: t.choose(2) as u8, form: t.choose(4) as u8, m: gen_byte(t) },
        9 => {
            let d = pick_int_tgt(t, sc)?;
            MOp::Copy { s: tg, d }
        }
        10 | 11 => MOp::Set(tg, gen_word(t, ints)),
        12 => {
            let a = if t.chance(1, 2) { Opnd::Lit(gen_word(t, ints)) } else { Opnd::T(pick_int_tgt(t, sc)?) };
            let b = if t.chance(1, 2) { Opnd::Lit(gen_word(t, ints)) } else { Opnd::T(pick_int_tgt(t, sc)?) };
            MOp::Bit { d: tg, op: t.choose(3) as u8, a, b }
        }
        _ => {
            let others: Vec<usize> = (0..sc.vars.len()).filter(|i| sc.vars[*i].ty != Ty::Int).collect();
            if others.is_empty() {
                MOp::Show(tg)
            } else {
                let var = *t.pick(&others);
                let flat = t.choose(sc.vars[var].len());
                MOp::SetOther(Tgt { var, flat }, gen_other_value(t, sc.vars[var].ty))
            }
        }
    })
}

/// Arguments for a call of `callee` from `caller`; None when the caller has no fitting array.
fn gen_call(t: &mut Tape, caller: &MScope, callee: &MScope, callee_idx: usize, ints: &[i32]) -> Option<MOp> {
    let mut used: Vec<usize> = Vec::new();
    let mut args: Vec<Option<Arg>> = vec![None; callee.nparams];
    // whole arrays first (fitting arrays are scarce), then the scalars from what is left
    for p in 0..callee.nparams {
        let pv = &callee.vars[p];
        if !pv.is_array() {
            continue;
        }
        let cands: Vec<usize> = (0..caller.vars.len())
            .filter(|i| {
                let v = &caller.vars[*i];
                v.ty == Ty::Int && v.dims == pv.dims && !v.shared && !used.contains(i)
            })
            .collect();
        if cands.is_empty() {
            return None;
        }
        let v = *t.pick(&cands);
        used.push(v);
        args[p] = Some(Arg::Array(v));
    }
    for p in 0..callee.nparams {
        if callee.vars[p].is_array() {
            continue;
        }
        let refs: Vec<usize> = caller.int_vars().into_iter().filter(|i| !caller.vars[*i].shared && !used.contains(i)).collect();
        let all = caller.int_vars();
        args[p] = Some(match t.choose(4) {
            0 => Arg::Lit(gen_word(t, ints)),
            1 if !all.is_empty() => {
                let var = *t.pick(&all);
                let flat = t.choose(caller.vars[var].len());
                Arg::Val(Tgt { var, flat })
            }
            _ if !refs.is_empty() => {
                let var = *t.pick(&refs);
                let flat = t.choose(caller.vars[var].len());
                used.push(var);
                Arg::Ref(Tgt { var, flat })
            }
            _ => Arg::Lit(gen_word(t, ints)),
        });
    }
    let args: Vec<Arg> = args.into_iter().map(|a| a.expect("every parameter got an argument")).collect();
    let form = t.choose(2) as u8;
    let mut dst = None;
    if callee.kind == 2 && form == 1 {
        let free: Vec<usize> = caller.int_vars().into_iter().filter(|i| !used.contains(i)).collect();
        if !free.is_empty() {
            let var = *t.pick(&free);
            dst = Some(Tgt { var, flat: t.choose(caller.vars[var].len()) });
        }
    }
    Some(MOp::Call { callee: callee_idx, args, form, dst })
}

struct MemProgram {
    /// scopes[0] is the module
    scopes: Vec<MScope>,
    declares: bool,
}

fn gen_mem_program(t: &mut Tape) -> MemProgram {
    let ints = int_set();
    let nprocs = *t.pick(&[1usize, 2, 1, 2, 2, 0]);
    // module-level variables
    let ni = t.range(1, 3) as usize;
    let na = t.range(1, 3) as usize;
    let no = t.range(0, 2) as usize;
    let noa = t.range(0, 1) as usize;
    let module_vars = gen_locals(t, ni, na, no, noa, if nprocs > 0 { 3 } else { 0 });
    let mut scopes = vec![MScope { kind: 0, name: String::new(), is_static: false, vars: module_vars, nparams: 0, ops: vec![], ret: None }];
    // procedures
    for p in 0..nprocs {
        let kind = if t.chance(1, 2) { 2u8 } else { 1u8 };
        let letter = ["A", "B"][p];
        let name = if kind == 1 { format!("P{}", letter) } else { format!("F{}%", letter) };
        let is_static = t.chance(1, 3);
        let mut vars: Vec<MVar> = Vec::new();
        // parameters: whole arrays shaped like a non-shared module array, INTEGER scalars
        let module_arrays: Vec<usize> = (0..scopes[0].vars.len())
            .filter(|i| {
                let v = &scopes[0].vars[*i];
                v.ty == Ty::Int && v.is_array() && !v.shared
            })
            .collect();
        let mut kinds: Vec<u8> = Vec::new();
        if !module_arrays.is_empty() && t.chance(1, 2) {
            kinds.push(1);
        }
        for _ in 0..t.choose(3) {
            kinds.push(0);
        }
        if kinds.len() > 1 && t.chance(1, 2) {
            kinds.reverse();
        }
        let mut nq = 0;
        for k in kinds {
            if k == 1 {
                let dims = scopes[0].vars[*t.pick(&module_arrays)].dims.clone();
                let (name, decl) = if t.chance(1, 2) { ("R1".to_string(), "R1() AS INTEGER".to_string()) } else { ("R1%".to_string(), "R1%()".to_string()) };
                vars.push(MVar { name, ty: Ty::Int, dims, decl, shared: false, home: Home::Param });
            } else {
                nq += 1;
                let (name, decl) = if t.chance(1, 2) { (format!("Q{}", nq), format!("Q{} AS INTEGER", nq)) } else { (format!("Q{}%", nq), format!("Q{}%", nq)) };
                vars.push(MVar { name, ty: Ty::Int, dims: vec![], decl, shared: false, home: Home::Param });
            }
        }
        let nparams = vars.len();
        let ni = t.range(0, 2) as usize;
        let na = *t.pick(&[1usize, 2, 0, 1, 2, 3]);
        let no = t.range(0, 1) as usize;
        let noa = t.range(0, 1) as usize;
        vars.extend(gen_locals(t, ni, na, no, noa, 0));
        for (i, v) in scopes[0].vars.iter().enumerate() {
            if v.shared {
                let mut view = v.clone();
                view.decl = String::new();
                view.home = Home::SharedView(i);
                vars.push(view);
            }
        }
        scopes.push(MScope { kind, name, is_static, vars, nparams, ops: vec![], ret: None });
    }
    // bodies: initialisation (always for implicit scalars), then operations
    let mut ninit: Vec<usize> = Vec::new();
    for si in 0..scopes.len() {
        let mut ops = Vec::new();
        for vi in 0..scopes[si].vars.len() {
            let v = scopes[si].vars[vi].clone();
            if v.home != Home::Local {
                continue;
            }
            let implicit = v.decl.is_empty();
            for flat in 0..v.len() {
                if implicit || t.chance(1, 3) {
                    let tg = Tgt { var: vi, flat };
                    ops.push(if v.ty == Ty::Int { MOp::Set(tg, gen_word(t, &ints)) } else { MOp::SetOther(tg, gen_other_value(t, v.ty)) });
                }
            }
        }
        ninit.push(ops.len());
        let n = if si == 0 { t.range(4, 9) } else { t.range(2, 6) } as usize;
        for _ in 0..n {
            if let Some(op) = gen_plain_op(t, &scopes[si], &ints) {
                ops.push(op);
            }
        }
        scopes[si].ops = ops;
        if scopes[si].kind == 2 {
            scopes[si].ret = Some(match pick_int_tgt(t, &scopes[si]) {
                Some(tg) if t.chance(3, 4) => Opnd::T(tg),
                _ => Opnd::Lit(gen_word(t, &ints)),
            });
        }
    }
    // calls: the module calls every procedure once or twice, the first procedure may call the second
    let mut plan: Vec<(usize, usize)> = Vec::new();
    if scopes.len() > 2 && t.chance(1, 2) {
        plan.push((1, 2));
    }
    for p in 1..scopes.len() {
        let times = if t.chance(1, 2) { 2 } else { 1 };
        for _ in 0..times {
            plan.push((0, p));
        }
    }
    for (from, to) in plan {
        if let Some(call) = gen_call(t, &scopes[from], &scopes[to], to, &ints) {
            // after the initialisation part (implicit scalars exist from there on)
            let first = ninit[from];
            let at = first + t.choose(scopes[from].ops.len() - first + 1);
            scopes[from].ops.insert(at, call);
        }
    }
    MemProgram { scopes, declares: t.chance(1, 2) }
}

fn opnd_text(sc: &MScope, o: &Opnd) -> String {
    match o {
        Opnd::T(tg) => sc.vars[tg.var].elem(tg.flat),
        Opnd::Lit(i) => lit(*i),
    }
}

fn render_op(scopes: &[MScope], sc: &MScope, op: &MOp, out: &mut String) {
    let el = |tg: &Tgt| sc.vars[tg.var].elem(tg.flat);
    match op {
        MOp::Set(tg, v) => out.push_str(&format!("{} = {}\n", el(tg), lit(*v))),
        MOp::SetOther(tg, s) => out.push_str(&format!("{} = {}\n", el(tg), s.literal())),
        MOp::Show(tg) => out.push_str(&format!("PRINT {}\n", el(tg))),
        MOp::Peek { t: tg, which, ptr, reset } => {
            let x = el(tg);
            let (seg, p) = if *ptr {
                out.push_str(&format!("ZS& = VARSEG({x}): ZP& = VARPTR({x})\n"));
                ("ZS&".to_string(), "ZP&".to_string())
            } else {
                (format!("VARSEG({x})"), format!("VARPTR({x})"))
            };
            out.push_str(&format!("DEF SEG = {seg}\n"));
            match which {
                0 => out.push_str(&format!("PRINT PEEK({p})\n")),
                1 => out.push_str(&format!("PRINT PEEK({p} + 1)\n")),
                _ => out.push_str(&format!("PRINT PEEK({p}); PEEK({p} + 1)\n")),
            }
            if *reset {
                out.push_str("DEF SEG\n");
            }
        }
        MOp::Poke { t: tg, which, b, ptr, reset } => {
            let x = el(tg);
            let (seg, p) = if *ptr {
                out.push_str(&format!("ZS& = VARSEG({x}): ZP& = VARPTR({x})\n"));
                ("ZS&".to_string(), "ZP&".to_string())
            } else {
                (format!("VARSEG({x})"), format!("VARPTR({x})"))
            };
            out.push_str(&format!("DEF SEG = {seg}\n"));
            if *which == 0 || *which == 2 {
                out.push_str(&format!("POKE {p}, {}\n", b[0]));
            }
            if *which == 1 || *which == 2 {
                out.push_str(&format!("POKE {p} + 1, {}\n", b[1]));
            }
            if *reset {
                out.push_str("DEF SEG\n");
            }
        }
        MOp::PokeExpr { t: tg, k, form, m } => {
            let x = el(tg);
            let a = if *k == 0 { format!("VARPTR({x})") } else { format!("VARPTR({x}) + 1") };
            let e = match form {
                0 => format!("PEEK({a}) AND {m}"),
                1 => format!("PEEK({a}) OR {m}"),
                2 => format!("(NOT PEEK({a})) AND 255"),
                _ => format!("255 - PEEK({a})"),
            };
            out.push_str(&format!("DEF SEG = VARSEG({x}): POKE {a}, {e}\n"));
        }
        MOp::Copy { s, d } => {
            let (x, y) = (el(s), el(d));
            out.push_str(&format!("DEF SEG = VARSEG({x}): ZL& = PEEK(VARPTR({x})): ZH& = PEEK(VARPTR({x}) + 1)\n"));
            out.push_str(&format!("DEF SEG = VARSEG({y}): POKE VARPTR({y}), ZL&: POKE VARPTR({y}) + 1, ZH&\n"));
        }
        MOp::Bit { d, op, a, b } => match op {
            0 => out.push_str(&format!("{} = {} AND {}\n", el(d), opnd_text(sc, a), opnd_text(sc, b))),
            1 => out.push_str(&format!("{} = {} OR {}\n", el(d), opnd_text(sc, a), opnd_text(sc, b))),
            _ => out.push_str(&format!("{} = NOT {}\n", el(d), opnd_text(sc, a))),
        },
        MOp::Call { callee, args, form, dst } => {
            let cs = &scopes[*callee];
            let a: Vec<String> = args
                .iter()
                .map(|a| match a {
                    Arg::Ref(tg) => el(tg),
                    Arg::Val(tg) => format!("({})", el(tg)),
                    Arg::Lit(i) => lit(*i),
                    Arg::Array(v) => format!("{}()", sc.vars[*v].name),
                })
                .collect();
            let list = a.join(", ");
            if cs.kind == 1 {
                match (form, a.is_empty()) {
                    (0, true) => out.push_str(&format!("{}\n", cs.name)),
                    (0, false) => out.push_str(&format!("{} {}\n", cs.name, list)),
                    (_, true) => out.push_str(&format!("CALL {}\n", cs.name)),
                    (_, false) => out.push_str(&format!("CALL {}({})\n", cs.name, list)),
                }
            } else {
                let call = if a.is_empty() { cs.name.clone() } else { format!("{}({})", cs.name, list) };
                match dst {
                    Some(d) => out.push_str(&format!("{} = {}\n", el(d), call)),
                    None => out.push_str(&format!("PRINT {}\n", call)),
                }
            }
        }
    }
}

fn render_dump(sc: &MScope, out: &mut String) {
    let label = if sc.kind == 0 { "M".to_string() } else { sc.name.trim_end_matches('%').to_string() };
    for v in &sc.vars {
        let items: Vec<String> = (0..v.len()).map(|f| v.elem(f)).collect();
        out.push_str(&format!("PRINT \"{}.{}=\"; {}\n", label, v.name, items.join("; ")));
    }
}

/// Program text and one tag per source row (what the statement on that row does).
fn render_mem_program(p: &MemProgram) -> (String, Vec<String>) {
    let mut out = String::new();
    let mut rows: Vec<String> = Vec::new();
    fn fill(out: &str, rows: &mut Vec<String>, tag: &str) {
        let n = out.matches('\n').count();
        while rows.len() < n {
            rows.push(tag.to_string());
        }
    }
    let header = |sc: &MScope| -> String {
        let params: Vec<String> = sc.vars[..sc.nparams].iter().map(|v| v.decl.clone()).collect();
        let kw = if sc.kind == 1 { "SUB" } else { "FUNCTION" };
        if params.is_empty() { format!("{} {}", kw, sc.name) } else { format!("{} {} ({})", kw, sc.name, params.join(", ")) }
    };
    if p.declares {
        for sc in &p.scopes[1..] {
            let h = header(sc);
            out.push_str(&format!("DECLARE {}{}\n", h, if sc.nparams == 0 { " ()" } else { "" }));
        }
    }
    for (si, sc) in p.scopes.iter().enumerate() {
        if si > 0 {
            out.push_str(&format!("{}{}\n", header(sc), if sc.is_static { " STATIC" } else { "" }));
        }
        for v in &sc.vars {
            if v.home == Home::Local && !v.decl.is_empty() {
                out.push_str(&v.decl);
                out.push('\n');
            }
        }
        fill(&out, &mut rows, "declaration");
        for op in &sc.ops {
            render_op(&p.scopes, sc, op, &mut out);
            if let MOp::Copy { s, d } = op {
                // two rows: the reading half and the writing half
                let n = out.matches('\n').count();
                while rows.len() + 1 < n {
                    rows.push(format!("peek:{}", sc.coarse(*s)));
                }
                rows.push(format!("poke:{}", sc.coarse(*d)));
            }
            fill(&out, &mut rows, &sc.op_tag(op));
        }
        render_dump(sc, &mut out);
        fill(&out, &mut rows, "dump");
        if si == 0 {
            out.push_str("END\n");
        } else {
            if let Some(r) = &sc.ret {
                out.push_str(&format!("{} = {}\n", sc.name, opnd_text(sc, r)));
            }
            out.push_str(if sc.kind == 1 { "END SUB\n" } else { "END FUNCTION\n" });
        }
        fill(&out, &mut rows, "end");
    }
    (out, rows)
}

/// The byte-level model: objects (a scalar or a whole array) hold cells; a frame maps every
/// variable visible in a scope to (object, offset).
struct MemSim<'a> {
    scopes: &'a [MScope],
    arena: Vec<Vec<Slot>>,
    module_frame: Vec<(usize, usize)>,
    /// persistent locals of STATIC procedures (index = scope)
    statics: Vec<Option<Vec<(usize, usize)>>>,
    out: String,
    /// one tag per output line
    tags: Vec<String>,
    /// executed operation classes
    classes: Vec<String>,
}

impl<'a> MemSim<'a> {
    fn alloc(&mut self, v: &MVar) -> (usize, usize) {
        self.arena.push(vec![Slot::default_of(v.ty); v.len()]);
        (self.arena.len() - 1, 0)
    }
    fn cell(&mut self, frame: &[(usize, usize)], tg: &Tgt) -> &mut Slot {
        let (o, off) = frame[tg.var];
        &mut self.arena[o][off + tg.flat]
    }
    fn bytes(&mut self, frame: &[(usize, usize)], tg: &Tgt) -> [u8; 2] {
        match self.cell(frame, tg) {
            Slot::I(b) => *b,
            _ => unreachable!("INTEGER cell expected"),
        }
    }
    fn set_int(&mut self, frame: &[(usize, usize)], tg: &Tgt, v: i32) {
        *self.cell(frame, tg) = Slot::I((v as i16).to_le_bytes());
    }
    fn opnd(&mut self, frame: &[(usize, usize)], o: &Opnd) -> i32 {
        match o {
            Opnd::T(tg) => self.cell(frame, tg).int(),
            Opnd::Lit(i) => *i,
        }
    }
    fn line(&mut self, text: String, tag: String) {
        self.out.push_str(&text);
        self.out.push_str("\r\n");
        self.tags.push(tag);
    }
    fn run_scope(&mut self, si: usize, frame: &[(usize, usize)]) -> Option<i32> {
        let sc = &self.scopes[si];
        for op in &sc.ops {
            match op {
                MOp::Set(tg, v) => self.set_int(frame, tg, *v),
                MOp::SetOther(tg, s) => *self.cell(frame, tg) = s.clone(),
                MOp::Show(tg) => {
                    let s = self.cell(frame, tg).printed();
                    self.line(s, format!("show:{}", sc.coarse(*tg)));
                }
                MOp::Peek { t: tg, which, .. } => {
                    let b = self.bytes(frame, tg);
                    let s = match which {
                        0 => num_item(b[0] as i64),
                        1 => num_item(b[1] as i64),
                        _ => format!("{}{}", num_item(b[0] as i64), num_item(b[1] as i64)),
                    };
                    self.classes.push(format!("mem-peek:{}", sc.tgt_tag(*tg)));
                    self.line(s, format!("peek:{}", sc.coarse(*tg)));
                }
                MOp::Poke { t: tg, which, b, .. } => {
                    let mut cur = self.bytes(frame, tg);
                    if *which == 0 || *which == 2 {
                        cur[0] = b[0];
                    }
                    if *which == 1 || *which == 2 {
                        cur[1] = b[1];
                    }
                    *self.cell(frame, tg) = Slot::I(cur);
                    self.classes.push(format!("mem-poke:{}", sc.tgt_tag(*tg)));
                    if cur[1] >= 128 {
                        self.classes.push("mem-poke:sign-bit-set".to_string());
                    }
                }
                MOp::PokeExpr { t: tg, k, form, m } => {
                    let mut cur = self.bytes(frame, tg);
                    let old = cur[*k as usize];
                    cur[*k as usize] = match form {
                        0 => old & m,
                        1 => old | m,
                        _ => !old,
                    };
                    *self.cell(frame, tg) = Slot::I(cur);
                    self.classes.push(format!("mem-poke:{}", sc.tgt_tag(*tg)));
                }
                MOp::Copy { s, d } => {
                    let b = self.bytes(frame, s);
                    *self.cell(frame, d) = Slot::I(b);
                    self.classes.push(format!("mem-poke:{}", sc.tgt_tag(*d)));
                    self.classes.push(format!("mem-peek:{}", sc.tgt_tag(*s)));
                }
                MOp::Bit { d, op, a, b } => {
                    let x = self.opnd(frame, a) as i16;
                    let y = self.opnd(frame, b) as i16;
                    let r = match op {
                        0 => x & y,
                        1 => x | y,
                        _ => !x,
                    };
                    self.set_int(frame, d, r as i32);
                }
                MOp::Call { callee, args, dst, .. } => {
                    let cs = &self.scopes[*callee];
                    let mut cf: Vec<(usize, usize)> = Vec::new();
                    for (pi, a) in args.iter().enumerate() {
                        match a {
                            Arg::Ref(tg) => {
                                let (o, off) = frame[tg.var];
                                cf.push((o, off + tg.flat));
                            }
                            Arg::Val(tg) => {
                                let v = self.cell(frame, tg).clone();
                                self.arena.push(vec![v]);
                                cf.push((self.arena.len() - 1, 0));
                            }
                            Arg::Lit(i) => {
                                self.arena.push(vec![Slot::I((*i as i16).to_le_bytes())]);
                                cf.push((self.arena.len() - 1, 0));
                            }
                            Arg::Array(v) => cf.push(frame[*v]),
                        }
                        let _ = pi;
                    }
                    let locals: Vec<(usize, usize)> = match (&self.statics[*callee], cs.is_static) {
                        (Some(l), true) => l.clone(),
                        _ => {
                            let l: Vec<(usize, usize)> = cs.vars[cs.nparams..].iter().filter(|v| v.home == Home::Local).map(|v| self.alloc(v)).collect();
                            if cs.is_static {
                                self.statics[*callee] = Some(l.clone());
                            }
                            l
                        }
                    };
                    cf.extend(locals);
                    for v in &cs.vars {
                        if let Home::SharedView(i) = v.home {
                            cf.push(self.module_frame[i]);
                        }
                    }
                    debug_assert_eq!(cf.len(), cs.vars.len());
                    self.classes.push(format!("mem-call:{}{}", cs.scope_tag(), if si > 0 { "-nested" } else { "" }));
                    let r = self.run_scope(*callee, &cf);
                    if cs.kind == 2 {
                        let r = r.unwrap_or(0);
                        match dst {
                            Some(d) => self.set_int(frame, d, r),
                            None => self.line(num_item(r as i64), "function-result".to_string()),
                        }
                    }
                }
            }
        }
        // dump
        let label = if sc.kind == 0 { "M".to_string() } else { sc.name.trim_end_matches('%').to_string() };
        for (vi, v) in sc.vars.iter().enumerate() {
            let mut s = format!("{}.{}=", label, v.name);
            for f in 0..v.len() {
                s.push_str(&self.cell(frame, &Tgt { var: vi, flat: f }).printed());
            }
            self.line(s, format!("dump:{}", sc.coarse(Tgt { var: vi, flat: 0 })));
        }
        sc.ret.as_ref().map(|r| self.opnd(frame, r))
    }
}

fn simulate_mem_program(p: &MemProgram) -> (String, Vec<String>, Vec<String>) {
    let mut sim = MemSim { scopes: &p.scopes, arena: vec![], module_frame: vec![], statics: vec![None; p.scopes.len()], out: String::new(), tags: vec![], classes: vec![] };
    let frame: Vec<(usize, usize)> = p.scopes[0].vars.iter().map(|v| sim.alloc(v)).collect();
    sim.module_frame = frame.clone();
    sim.run_scope(0, &frame);
    (sim.out, sim.tags, sim.classes)
}

/// Fixed witnesses (program, expected output by the statement) that run once per tier in addition
/// to the generated programs.
fn mem_witnesses() -> Vec<(&'static str, &'static str)> {
    vec![
        // POKE into a local array of a SUB while the module owns an array and the SUB a second one
        (
            "DEFINT A-Z\nDECLARE SUB Test ()\nDIM G(1 TO 2)\nG(1) = 7\nTest\nPRINT \"G(1) =\"; G(1)\n\nSUB Test\n    DIM A(1 TO 2)\n    DIM B(1 TO 2)\n    DEF SEG = VARSEG(A(1))\n    P = VARPTR(A(1))\n    POKE P, 42\n    POKE P + 1, 1\n    PRINT \"A(1) =\"; A(1)\n    PRINT \"B(1) =\"; B(1)\n    PRINT \"PEEK =\"; PEEK(P); PEEK(P + 1)\nEND SUB\n",
            "A(1) = 298 \r\nB(1) = 0 \r\nPEEK = 42  1 \r\nG(1) = 7 \r\n",
        ),
        // the same through a whole-array parameter and a DIM SHARED array, high byte with the sign bit
        (
            "DIM SHARED S(1 TO 2) AS INTEGER\nDIM G(0 TO 1) AS INTEGER\nDIM H(0 TO 1) AS INTEGER\nTest H()\nPRINT G(0); G(1); H(0); H(1); S(1); S(2)\n\nSUB Test (R() AS INTEGER)\n    DIM A(1 TO 2) AS INTEGER\n    DEF SEG = VARSEG(R(1))\n    POKE VARPTR(R(1)) + 1, 128\n    DEF SEG = VARSEG(S(2))\n    POKE VARPTR(S(2)), 255\n    DEF SEG = VARSEG(A(2))\n    POKE VARPTR(A(2)) + 1, 255\n    PRINT A(1); A(2); R(0); R(1); S(1); S(2)\nEND SUB\n",
            " 0 -256  0 -32768  0  255 \r\n 0  0  0 -32768  0  255 \r\n",
        ),
    ]
}

fn mem_case(sh: &mut Shard, t: &mut Tape) -> Result<(), Violation> {
    let p = gen_mem_program(t);
    let (src, rows) = render_mem_program(&p);
    let (expected, tags, classes) = simulate_mem_program(&p);
    sh.journal(&src);
    sh.eval();
    sh.nontrivial(hash64(&src));
    sh.class("program-level-memory-model");
    for c in &classes {
        sh.class(c);
    }
    // the shape the per-block numbering of arrays depends on
    let module_arrays = p.scopes[0].vars.iter().filter(|v| v.is_array()).count();
    for sc in &p.scopes[1..] {
        let own = sc.vars.iter().filter(|v| v.is_array() && !matches!(v.home, Home::SharedView(_))).count();
        if own > 0 {
            sh.class(&format!("mem-shape:module-arrays={},procedure-arrays={}", module_arrays.min(3), own.min(3)));
        }
    }
    for (i, sc) in p.scopes.iter().enumerate().skip(1) {
        let called = p.scopes.iter().any(|c| c.ops.iter().any(|o| matches!(o, MOp::Call { callee, .. } if *callee == i)));
        if !called {
            sh.class("mem-shape:procedure-never-called");
        }
        let _ = sc;
    }
    sh.sample_sparse(41, || json!({"kind": "mem-program", "program": src, "expected_stdout": expected}));
    run_mem_case(&src, &expected, &tags, &rows)
}

fn run_mem_case(src: &str, expected: &str, tags: &[String], rows: &[String]) -> Result<(), Violation> {
    let inputs = json!({"kind":"mem-program","program":src,"expected_stdout":expected,"line_tags":tags,"row_tags":rows});
    match impl_run::run_src(src, &RunOpts::budget(2_000_000)) {
        Err(e) => Err(Violation::new(format!("mem-program-rejected:{}", e.class()), "PEEK/POKE memory-model program rejected", inputs).exp_obs("accepted", e.to_json())),
        Ok(out) => {
            let got = out.stdout_str();
            if (out.end == End::Ok && got == expected) || out.end == End::Budget {
                // straight-line programs never exhaust the budget; if one did it would be inconclusive
                return Ok(());
            }
            // first differing line decides the signature: which kind of access went wrong
            let exp_lines: Vec<&str> = expected.split("\r\n").collect();
            let got_lines: Vec<&str> = got.split("\r\n").collect();
            let mut k = 0;
            while k < exp_lines.len() && k < got_lines.len() && exp_lines[k] == got_lines[k] {
                k += 1;
            }
            let tag = tags.get(k).cloned().unwrap_or_else(|| "end".to_string());
            let sig = match &out.end {
                End::Ok => format!("mem-output:{}", tag),
                End::Err { name, pos, .. } => {
                    // the statement that failed (innermost position), not the output line that is missing
                    let row = pos.first().map(|p| p.0 as usize).unwrap_or(0);
                    let at = if row >= 1 { rows.get(row - 1).cloned() } else { None };
                    format!("mem-end:{}:{}", name, at.unwrap_or_else(|| "unknown-row".to_string()))
                }
                End::Panic(p) => {
                    // independent of where the sources are checked out
                    let s = p.sig();
                    let s = match s.find("rusty_") {
                        Some(i) => s[i..].to_string(),
                        None => s,
                    };
                    format!("mem-end:panic@{}", s)
                }
                e => format!("mem-end:{}", e.short()),
            };
            Err(Violation::new(sig, "PEEK/POKE through VARPTR/VARSEG disagree with the byte-level memory model (16-bit two's-complement words, low byte first; POKE changes exactly the addressed byte)", inputs)
                .exp_obs(json!({"stdout":expected,"end":"ok","first_differing_line":k + 1,"expected_line":exp_lines.get(k)}), json!({"stdout":got,"end":out.end.to_json(),"observed_line":got_lines.get(k)})))
        }
    }
}

impl Prop for C19 {
    fn id(&self) -> &'static str {
        "C19"
    }
    fn rule(&self) -> &'static str {
        "Direct calls of i32_to_bytes/bytes_to_i32/unary_not over all 65536 INTEGER values (exhaustive), qb_and/qb_or over all pairs of a boundary/one-hot/complement set plus random pairs, f64_to_bytes/bytes_to_f64 over every power of two, boundary mantissas, subnormals, integers around 2^52..2^65, +-0 and random finite bit patterns, each compared with the machine operation (i16 &,|,!, to_le_bytes, f64::to_le_bytes/from_le_bytes); plus generated programs using AND/OR/NOT on INTEGER variables, PEEK/POKE through VARPTR/VARSEG and CVD(MKD$(x)); plus generated multi-scope programs checked against a byte-level memory model: 1-3 INTEGER scalars and 1-3 INTEGER arrays (1-4 elements, various lower bounds, some two-dimensional) next to LONG/SINGLE/DOUBLE/STRING scalars and arrays, declared at module level (some DIM SHARED) and inside 0-2 SUBs/FUNCTIONs (some STATIC, called once or twice, one possibly calling the other) with INTEGER parameters by reference/by value and whole-array parameters; PEEK and POKE of the low and the high byte (values 0..255) of chosen scalars, elements, parameters and shared variables with DEF SEG = VARSEG(x) and VARPTR(x) inline or through pointer variables, POKE a, f(PEEK(a)) with f from AND/OR/NOT, byte-wise copies between INTEGERs, interleaved with ordinary assignments, AND/OR/NOT assignments and PRINTs, and a dump of every visible variable and array element at the end of every scope (expected: little-endian two's-complement words, a POKE changes exactly the addressed byte of exactly the addressed variable, STATIC locals persist, others start at zero). Every case is distinct by construction (hash of operands / program text); all are non-trivial (each exercises a primitive on a distinct operand)."
    }
    fn assumptions(&self) -> Vec<&'static str> {
        vec![
            "qb_and/qb_or are only exercised with 16-bit operands (their only callers cast to INTEGER first)",
            "NaN and infinities are outside the statement (finite doubles only)",
            "CVD(-0.0 encoding) may return +0.0 or -0.0 (they compare equal in BASIC); the bytes MKD$ produces must still be the IEEE encoding",
            "memory-model programs: addresses and segments are never predicted, they are always VARPTR/VARSEG of the addressed INTEGER itself, taken after the last declaration of the scope; PEEK/POKE only address INTEGER scalars and INTEGER array elements (the statement defines nothing else); no variable is reachable under two names at once (shared variables are never passed as arguments, no variable is passed twice), so by-reference versus copy-in/copy-out is not observable; DEF SEG = 0 and absolute addresses are never generated",
        ]
    }
    fn run(&self, sh: &mut Shard) {
        // exhaustive: all 65536 INTEGER values
        for i in -32768i32..=32767 {
            if !sh.mine((i + 32768) as u64) {
                continue;
            }
            sh.eval();
            sh.nontrivial(hash64(&("u", i)));
            let r = check_int_unary(i);
            if !sh.report(r) {
                return;
            }
        }
        sh.class_n("int-unary-exhaustive", 65536 / sh.nshards as u64);
        sh.exhaustive("all 65536 INTEGER values: to-bytes, round trip, NOT");
        // all pairs of the boundary set
        let set = int_set();
        let mut idx = 0u64;
        for a in &set {
            for b in &set {
                idx += 1;
                if !sh.mine(idx) {
                    continue;
                }
                sh.eval();
                sh.nontrivial(hash64(&("b", a, b)));
                sh.class("int-binary-boundary-pair");
                let r = check_int_binary(*a, *b);
                if !sh.report(r) {
                    return;
                }
            }
        }
        sh.exhaustive("AND/OR over all ordered pairs of the boundary/one-hot/complement set");
        sh.sample(|| json!({"kind":"int-binary","a":set[3],"b":set[set.len()-2]}));
        // special doubles
        let specials = special_doubles();
        for (i, x) in specials.iter().enumerate() {
            if !sh.mine(i as u64) {
                continue;
            }
            sh.eval();
            sh.nontrivial(hash64(&("d", x.to_bits())));
            sh.class(&format!("f64:{}", f64_class(*x)));
            let r = check_f64(*x);
            if !sh.report(r) {
                return;
            }
        }
        sh.sample(|| json!({"kind":"f64","value":"2^-1074 .. 2^1023, boundary mantissas, subnormals"}));
        // random pairs and random doubles
        let pairs = sh.share(sh.tier.pick(4_000_000, 160_000_000));
        let chunk = 1000usize;
        sh.search(1, pairs / chunk as u64, 2 * chunk, 2 * chunk, |sh, tape| {
            let mut t = Tape::new(tape);
            for _ in 0..chunk {
                let a = t.range(-32768, 32767) as i32;
                let b = t.range(-32768, 32767) as i32;
                sh.eval();
                sh.nontrivial(hash64(&("b", a, b)));
                check_int_binary(a, b)?;
            }
            sh.class_n("int-binary-random-pair", chunk as u64);
            Ok(())
        });
        let doubles = sh.share(sh.tier.pick(1_000_000, 40_000_000));
        let chunk = 500usize;
        sh.search(2, doubles / chunk as u64, 2 * chunk, 2 * chunk, |sh, tape| {
            let mut t = Tape::new(tape);
            for _ in 0..chunk {
                let hi = t.raw() as u64;
                let lo = t.raw() as u64;
                let x = f64::from_bits((hi << 32) | lo);
                if !x.is_finite() {
                    sh.discard("non-finite bit pattern");
                    continue;
                }
                sh.eval();
                sh.nontrivial(hash64(&("d", x.to_bits())));
                sh.class(&format!("f64:{}", f64_class(x)));
                check_f64(x)?;
            }
            Ok(())
        });
        sh.sample(|| json!({"kind":"f64","bits":"random 64-bit patterns (finite)"}));
        // program level
        let progs = sh.share(sh.tier.pick(4_000, 100_000));
        sh.search(3, progs, 80, 80, |sh, tape| {
            let mut t = Tape::new(tape);
            program_case(sh, &mut t)
        });
        // program level, byte-level memory model across scopes: fixed witnesses, then generated programs
        for (i, (src, expected)) in mem_witnesses().into_iter().enumerate() {
            if !sh.mine(i as u64) {
                continue;
            }
            sh.journal(src);
            sh.eval();
            sh.nontrivial(hash64(src));
            sh.class("program-level-memory-model-witness");
            let tags = vec![format!("witness-{}", i + 1); expected.matches('\n').count()];
            let rows = vec![format!("witness-{}", i + 1); src.matches('\n').count()];
            let r = run_mem_case(src, expected, &tags, &rows);
            if !sh.report(r) {
                return;
            }
        }
        let mems = sh.share(sh.tier.pick(800, 24_000));
        sh.search(4, mems, 500, 900, |sh, tape| {
            let mut t = Tape::new(tape);
            mem_case(sh, &mut t)
        });
    }
    fn replay(&self, _sh: &mut Shard, inputs: &Value) -> Result<(), Violation> {
        match inputs["kind"].as_str().unwrap_or("") {
            "int-unary" => check_int_unary(inputs["value"].as_i64().unwrap_or(0) as i32),
            "int-binary" => check_int_binary(inputs["a"].as_i64().unwrap_or(0) as i32, inputs["b"].as_i64().unwrap_or(0) as i32),
            "f64" => {
                let bits = u64::from_str_radix(inputs["bits"].as_str().unwrap_or("0"), 16).unwrap_or(0);
                check_f64(f64::from_bits(bits))
            }
            "mem-program" => {
                let strs = |key: &str| -> Vec<String> { inputs[key].as_array().map(|a| a.iter().map(|x| x.as_str().unwrap_or("").to_string()).collect()).unwrap_or_default() };
                run_mem_case(inputs["program"].as_str().unwrap_or(""), inputs["expected_stdout"].as_str().unwrap_or(""), &strs("line_tags"), &strs("row_tags"))
            }
            "program" => run_program_case(inputs["program"].as_str().unwrap_or(""), inputs["expected_stdout"].as_str().unwrap_or("")),
            k => panic!("unknown replay kind {}", k),
        }
    }
}

//! C04 — arrays, records and fixed-length strings change only where they are written.

use serde_json::{Value, json};

use crate::engine::{Shard, Violation, hash64};
use crate::genr::build::{Gen, GenCfg};
use crate::genr::print::{Layout, render};
use crate::props::Prop;
use crate::props::c01::{check_program, classify, expect_of, replay_program};
use crate::props::common::ref_end_json;
use crate::refsem::{self, Outcome};

pub struct C04;

fn one_case(sh: &mut Shard, tape: &[u32], cfg: &GenCfg) -> Result<(), Violation> {
    let prog = Gen::new(tape, cfg).array_program();
    let r = render(&prog, &Layout::plain());
    sh.eval();
    sh.journal(&format!("[refsem] {}", r.text));
    let res = match refsem::run(&prog, 100_000) {
        Outcome::Undetermined(why, _) => {
            sh.discard(&format!("undetermined: {}", why));
            return Ok(());
        }
        Outcome::Determined(r) => r,
    };
    classify(sh, &res);
    let f = &res.features;
    if f.contains("array-stores>=2") || f.contains("subscript-out-of-range") || f.contains("field-store") {
        sh.nontrivial(hash64(&r.text));
    }
    for a in prog.vars.iter().filter(|v| !v.bounds.is_empty()) {
        sh.class(&format!("dims:{}", a.bounds.len()));
        if a.bounds.iter().any(|(lo, _)| *lo < 0) {
            sh.class("negative-lower-bound");
        }
        sh.class(&format!("elem:{}", match &a.sty { crate::genr::ir::STy::B(t) => format!("{:?}", t), crate::genr::ir::STy::Fixed(_) => "fixed-string".into(), crate::genr::ir::STy::Rec(_) => "record".into() }));
    }
    sh.sample_sparse(157, || json!({"program": r.text, "expected_stdout": res.stdout, "expected_end": ref_end_json(&res.end)}));
    sh.journal(&r.text);
    check_program(&r, &expect_of(&res), "c04")
}

impl Prop for C04 {
    fn id(&self) -> &'static str {
        "C04"
    }
    fn rule(&self) -> &'static str {
        "Programs declaring 1-3 arrays (1-3 dimensions, lower bounds -3..3 explicit or implicit 0, extent 1-4, element types: the five built-ins, STRING * n, user TYPEs incl. nested TYPEs and fixed-string fields) plus record and fixed-string scalars; a sequence of stores (values of any assignable type; subscripts as literals, fractional values, expressions), immediate read-backs, LBOUND/UBOUND with and without dimension, stores through a by-reference parameter, then an unrolled PRINT of EVERY element and field, and optionally one access outside a chosen face of the index box. Oracle: a map model (element-type conversion, pad/truncate) - the reference semantics; stdout and ending (Subscript out of range exactly when an index is outside) must agree. Non-trivial = >= 2 element stores, or a field store, or an out-of-range access; distinct by program text."
    }
    fn assumptions(&self) -> Vec<&'static str> {
        vec!["fractional subscripts are never exact ties", "whole-record assignment is not generated"]
    }
    fn run(&self, sh: &mut Shard) {
        let cases = sh.share(sh.tier.pick(12_000, 400_000));
        let cfg = GenCfg::core(20, 2);
        sh.search(1, cases, 40, sh.tier.pick(260, 400), |sh, tape| one_case(sh, tape, &cfg));
    }
    fn replay(&self, _sh: &mut Shard, inputs: &Value) -> Result<(), Violation> {
        replay_program(inputs, "c04")
    }
}

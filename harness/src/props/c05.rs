//! C05 — GOTO/GOSUB/RETURN and ON ERROR/RESUME transfer control exactly as written.

use serde_json::{Value, json};

use crate::engine::{Shard, Violation, hash64};
use crate::genr::build::{Gen, GenCfg};
use crate::genr::print::{Layout, render};
use crate::props::Prop;
use crate::props::c01::{check_program, classify, expect_of, replay_program};
use crate::props::common::ref_end_json;
use crate::refsem::{self, Outcome};

pub struct C05;

fn one_case(sh: &mut Shard, tape: &[u32], cfg: &GenCfg) -> Result<(), Violation> {
    let prog = Gen::new(tape, cfg).control_program();
    // a quarter of the programs put neighbouring statements and loop lines on one line (FOR A = 1 TO 3: FOR B = 1 TO 3: ...)
    let mut lay = Layout::plain();
    let salt = tape.iter().fold(0u64, |a, c| a.wrapping_mul(31).wrapping_add(*c as u64));
    if salt % 4 == 0 {
        lay.colons = 600;
        lay.seed = salt;
        sh.class("layout:colon-joined");
    }
    let r = render(&prog, &lay);
    sh.eval();
    sh.journal(&format!("[refsem] {}", r.text));
    let res = match refsem::run(&prog, 100_000) {
        Outcome::Undetermined(why, _) => {
            sh.discard(&format!("undetermined: {}", why));
            return Ok(());
        }
        Outcome::Determined(r) => r,
    };
    classify(sh, &res);
    let f = &res.features;
    if (f.contains("error-handled") && res.statements >= 6) || (f.contains("goto-out-of-block") && f.contains("loop-iterated")) || f.contains("gosub-nested") {
        sh.nontrivial(hash64(&r.text));
    }
    sh.sample_sparse(157, || json!({"program": r.text, "expected_stdout": res.stdout, "expected_end": ref_end_json(&res.end)}));
    sh.journal(&r.text);
    check_program(&r, &expect_of(&res), "c05")
}

impl Prop for C05 {
    fn id(&self) -> &'static str {
        "C05"
    }
    fn rule(&self) -> &'static str {
        "Trace programs (every statement prints a unique token, so stdout is the executed path): forward and counter-guarded backward GOTOs, GOTO out of loops at depth 1-2 to a label inside the enclosing loop body or at module level (counters printed afterwards), GOSUB chains with nested GOSUBs, stray RETURN / RESUME, ON ERROR GOTO h / GOTO 0 / switching handlers in every order, failing statements of five kinds (division by zero, overflow, subscript, illegal function call, out of DATA) as first/middle/last statement of a plain block, IF, FOR (with and without negative STEP), WHILE, DO, SELECT, in GOSUB routines, handlers that print ERR and RESUME NEXT / repair + RESUME / RESUME label / RESUME twice then RESUME NEXT; block statements whose header fails (IF / ELSEIF condition, CASE value, DO UNTIL condition) under RESUME and RESUME label; a quarter of the programs with statements and loop lines joined by colons; module-level sentinels printed at the end. Oracle: the reference control machine; stdout, error code and error row must agree. Non-trivial = a handled error followed by more statements, or a jump out of a loop after which a loop iterated again, or GOSUB depth >= 2; distinct by program text."
    }
    fn assumptions(&self) -> Vec<&'static str> {
        vec![
            "failing statements under a handler are simple module-level statements (where RESUME NEXT goes after a failing block header is not pinned by the statement)",
            "no failing statement inside a handler body; no handler active while a procedure runs",
        ]
    }
    fn run(&self, sh: &mut Shard) {
        let cases = sh.share(sh.tier.pick(14_000, 400_000));
        let cfg = GenCfg::core(20, 3);
        sh.search(1, cases, 30, sh.tier.pick(200, 400), |sh, tape| one_case(sh, tape, &cfg));
    }
    fn replay(&self, _sh: &mut Shard, inputs: &Value) -> Result<(), Violation> {
        replay_program(inputs, "c05")
    }
}

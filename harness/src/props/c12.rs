//! C12 — the static checker is sound for types and its verdicts are stable.
//! (a) soundness: accepted programs never raise Type mismatch (13) nor apply an operator/built-in to a wrong kind;
//! (b) verdict and behaviour are stable under consistent renaming of user identifiers;
//! (c) one local ill-typing edit at any syntactic position makes an accepted program rejected,
//!     with an error of the matching family located in the edited statement.

use serde_json::{Value, json};

use crate::engine::{Shard, Tape, Violation, hash64};
use crate::genr::build::{Gen, GenCfg};
use crate::genr::inject::add_scalar;
use crate::genr::ir::*;
use crate::genr::print::{Layout, Rendered, render};
use crate::impl_run::{self, End, FrontErr, RunOpts};
use crate::props::Prop;
use crate::props::c08::W;
use crate::props::common::norm_numbers;
use crate::refsem::static_ty;

pub struct C12;

// ------------------------------------------------------------------------------------------ (a)

const WRONG_KIND: [&str; 9] = ["Cannot cast", "Variant was not a string", "unexpected arg", "Expected array", "Expected user defined type", "was not", "should have been", "Cannot print user defined type", "linter should have caught"];

fn soundness_case(sh: &mut Shard, tape: &[u32]) -> Result<(), Violation> {
    let mut t = Tape::new(tape);
    let mischief = *t.pick(&[0u32, 20, 60]);
    let used = t.used();
    let mut w = W::new(&tape[used.min(tape.len())..]);
    w.no_external = true;
    let (text, builtins) = w.program(10, mischief);
    sh.eval();
    sh.journal(&text);
    let inputs = json!({"kind": "soundness", "program": text});
    let c = match impl_run::compile(&text) {
        Ok(c) => c,
        Err(_) => {
            sh.discard("rejected (or parser/checker/generator panic: C07, C08)");
            return Ok(());
        }
    };
    for f in ["f1.tmp", "f2.tmp", "f3.tmp"] {
        let _ = std::fs::remove_file(f);
    }
    let out = impl_run::run(c, &RunOpts::budget(300_000));
    for f in ["f1.tmp", "f2.tmp", "f3.tmp"] {
        let _ = std::fs::remove_file(f);
    }
    sh.class("soundness:accepted");
    if mischief > 0 {
        sh.class("soundness:accepted-with-mischief-planted");
    }
    if out.statements >= 3 && !builtins.is_empty() {
        sh.nontrivial(hash64(&text));
    }
    match &out.end {
        End::Err { code: Some(13), pos, .. } => Err(Violation::new("c12-type-mismatch-at-runtime", "an accepted program (without READ / INPUT / PRINT USING) raised Type mismatch (13) at run time", inputs).exp_obs("no Type mismatch at run time", json!({"pos": pos, "stdout": out.stdout_str()}))),
        End::Panic(p) if WRONG_KIND.iter().any(|w| p.msg.contains(w)) => Err(Violation::new(format!("c12-wrong-kind:{}", p.sig()), "an accepted program applied an operator or built-in to an operand of the wrong kind", inputs).exp_obs("no wrong-kind failure", json!({"panic": p.msg, "at": p.loc}))),
        _ => Ok(()),
    }
}

// ------------------------------------------------------------------------------------------ (b)

fn rn(name: &str) -> String {
    let mut cs: Vec<char> = name.chars().collect();
    if cs.is_empty() {
        return name.to_string();
    }
    cs.insert(1, 'z');
    cs.into_iter().collect()
}

fn rn_lv(l: &mut LValue) {
    l.name = rn(&l.name);
    for f in l.fields.iter_mut() {
        *f = rn(f);
    }
    for e in l.index.iter_mut() {
        rn_expr(e);
    }
}

fn rn_expr(e: &mut Expr) {
    match e {
        Expr::Lit(_) => {}
        Expr::Load(l) => rn_lv(l),
        Expr::Const(n, _) => *n = rn(n),
        Expr::Un(_, x) | Expr::Paren(x) => rn_expr(x),
        Expr::Bin(_, a, b) => {
            rn_expr(a);
            rn_expr(b);
        }
        Expr::Call(_, args) | Expr::BuiltIn { args, .. } => args.iter_mut().for_each(rn_expr),
    }
}

fn rn_stmts(v: &mut Vec<Stmt>) {
    for s in v.iter_mut() {
        match s {
            Stmt::Assign(l, e) => {
                rn_lv(l);
                rn_expr(e);
            }
            Stmt::Print(items) => items.iter_mut().for_each(|i| {
                if let PrintItem::E(e) = i {
                    rn_expr(e)
                }
            }),
            Stmt::If { arms, else_ } => {
                for (c, b) in arms.iter_mut() {
                    rn_expr(c);
                    rn_stmts(b);
                }
                if let Some(b) = else_ {
                    rn_stmts(b);
                }
            }
            Stmt::IfLine { cond, then_, else_ } => {
                rn_expr(cond);
                rn_stmts(then_);
                if let Some(e) = else_ {
                    rn_stmts(e);
                }
            }
            Stmt::Select { subject, cases, else_ } => {
                rn_expr(subject);
                for (items, b) in cases.iter_mut() {
                    for it in items.iter_mut() {
                        match it {
                            CaseItem::Val(e) | CaseItem::Is(_, e) => rn_expr(e),
                            CaseItem::Range(a, b) => {
                                rn_expr(a);
                                rn_expr(b);
                            }
                        }
                    }
                    rn_stmts(b);
                }
                if let Some(b) = else_ {
                    rn_stmts(b);
                }
            }
            Stmt::For { var, from, to, step, body, .. } => {
                rn_lv(var);
                rn_expr(from);
                rn_expr(to);
                if let Some(s) = step {
                    rn_expr(s);
                }
                rn_stmts(body);
            }
            Stmt::While { cond, body } | Stmt::Do { cond, body, .. } => {
                rn_expr(cond);
                rn_stmts(body);
            }
            Stmt::Read(ls) => ls.iter_mut().for_each(rn_lv),
            Stmt::Label(l) | Stmt::Goto(l) | Stmt::Gosub(l) | Stmt::ResumeLabel(l) | Stmt::ReturnTo(l) => *l = rn(l),
            Stmt::OnErrorGoto(Some(l)) => *l = rn(l),
            Stmt::CallSub(_, args) => args.iter_mut().for_each(rn_expr),
            Stmt::Dim(d) => d.name = rn(&d.name),
            Stmt::Const(n, e) => {
                *n = rn(n);
                rn_expr(e);
            }
            Stmt::Data(_) | Stmt::Return | Stmt::OnErrorGoto(None) | Stmt::Resume(_) | Stmt::End | Stmt::ExitProc | Stmt::Raw(_) => {}
            Stmt::Opaque { var, .. } => {
                if let Some(l) = var {
                    rn_lv(l);
                }
            }
        }
    }
}

pub fn rename_program(p: &Program) -> Program {
    let mut q = p.clone();
    for t in q.types.iter_mut() {
        t.name = rn(&t.name);
        for (f, _) in t.fields.iter_mut() {
            *f = rn(f);
        }
    }
    for v in q.vars.iter_mut() {
        v.name = rn(&v.name);
    }
    rn_stmts(&mut q.main);
    for pr in q.procs.iter_mut() {
        pr.name = rn(&pr.name);
        for pa in pr.params.iter_mut() {
            pa.name = rn(&pa.name);
        }
        for v in pr.vars.iter_mut() {
            v.name = rn(&v.name);
        }
        rn_stmts(&mut pr.body);
    }
    q
}

fn gen_any(t: &mut Tape, rest: &[u32]) -> (Program, &'static str) {
    match t.choose(4) {
        0 => (Gen::new(rest, &GenCfg::core(14, 3)).core_program(), "core"),
        1 => {
            let mut cfg = GenCfg::core(8, 2);
            cfg.procs = true;
            cfg.data = false;
            cfg.deftypes = false;
            (Gen::new(rest, &cfg).calls_program(), "calls")
        }
        2 => (Gen::new(rest, &GenCfg::core(20, 3)).control_program(), "control"),
        _ => (Gen::new(rest, &GenCfg::core(20, 2)).array_program(), "arrays"),
    }
}

#[derive(Debug, PartialEq)]
struct Behaviour {
    verdict: String,
    stdout: String,
    end: String,
    row: Option<u32>,
}

fn behaviour(text: &str) -> Behaviour {
    match impl_run::run_src(text, &RunOpts::budget(1_500_000)) {
        Err(e) => Behaviour { verdict: e.class(), stdout: String::new(), end: String::new(), row: e.pos().map(|p| p.0) },
        Ok(o) => {
            let (end, row) = match &o.end {
                End::Ok => ("ok".to_string(), None),
                End::Err { code, pos, .. } => (format!("error {:?}", code), pos.first().map(|p| p.0)),
                End::Panic(p) => (p.sig(), None),
                End::Budget => ("budget".to_string(), None),
            };
            Behaviour { verdict: "accepted".into(), stdout: norm_numbers(&o.stdout_str()), end, row }
        }
    }
}

fn check_rename(a: &str, b: &str, what: &str) -> Result<(bool, bool), Violation> {
    let inputs = json!({"kind": "rename", "original": a, "renamed": b, "what": what});
    let x = behaviour(a);
    let y = behaviour(b);
    if x.verdict != y.verdict {
        return Err(Violation::new(format!("c12-rename-verdict:{}", what), "consistently renaming the user-chosen identifiers changes the checker's verdict", inputs).exp_obs(x.verdict, y.verdict));
    }
    if x != y {
        return Err(Violation::new(format!("c12-rename-behaviour:{}", what), "consistently renaming the user-chosen identifiers changes the program's behaviour", inputs).exp_obs(format!("{:?}", x), format!("{:?}", y)));
    }
    Ok((x.verdict == "accepted", !x.stdout.is_empty()))
}

fn rename_case(sh: &mut Shard, tape: &[u32]) -> Result<(), Violation> {
    let mut t = Tape::new(tape);
    let fault = t.choose(5);
    let which = t.raw();
    let used = t.used();
    let (mut prog, kind) = gen_any(&mut t, &tape[used.min(tape.len())..]);
    let mut what = kind.to_string();
    if fault == 4 {
        // a rejected program: the class of error must survive renaming too
        let n = crate::genr::inject::count_slots(&prog);
        if n > 0 {
            let target = ((which as u64 * n as u64) >> 32) as usize;
            let text = *Tape::new(&[which]).pick(&["ZQ% = \"abc\"", "GOTO ZNoSuchLabel", "ZQ% = LEN(\"a\", \"b\")", "NEXT", "ZQ = = 1"]);
            let _ = crate::genr::inject::replace_slot(&mut prog, target, &mut |_, _| Stmt::Raw(text.to_string()));
            what = format!("{}-rejected", kind);
        }
    }
    let renamed = rename_program(&prog);
    let a = render(&prog, &Layout::plain());
    let b = render(&renamed, &Layout::plain());
    sh.eval();
    sh.journal(&b.text);
    let (accepted, printed) = check_rename(&a.text, &b.text, &what)?;
    sh.class(&format!("rename:{}", what));
    if !accepted || printed {
        sh.nontrivial(hash64(&a.text));
    }
    sh.sample_sparse(503, || json!({"original": a.text, "renamed": b.text}));
    Ok(())
}

// ------------------------------------------------------------------------------ (b2) declaration order

/// The verdict on a set of DECLARE statements does not depend on where they stand: at the top of the file, after
/// the main module's statements, or after the subprogram bodies - whether they agree with the bodies or not.
fn declare_order_case(sh: &mut Shard, tape: &[u32]) -> Result<(), Violation> {
    let mut t = Tape::new(tape);
    let mutation = t.choose(6);
    let which = t.raw();
    let used = t.used();
    let mut cfg = GenCfg::core(8, 2);
    cfg.procs = true;
    cfg.errors = false;
    cfg.data = false;
    cfg.deftypes = false;
    let mut prog = Gen::new(&tape[used.min(tape.len())..], &cfg).calls_program();
    prog.declare = true;
    let mut what = "matching";
    if mutation > 0 && !prog.procs.is_empty() {
        let pi = ((which as u64 * prog.procs.len() as u64) >> 32) as usize;
        let mut q = prog.procs[pi].clone();
        match mutation {
            1 => {
                what = "one-parameter-more";
                let var = q.vars.len();
                q.params.push(Param { name: "ZX%".into(), var, sty: STy::B(Ty::Int), array: false, extended: false });
            }
            2 if !q.params.is_empty() => {
                what = "one-parameter-fewer";
                q.params.pop();
            }
            3 if !q.params.is_empty() => {
                what = "parameter-of-another-type";
                let pa = &mut q.params[0];
                let other = if pa.sty == STy::B(Ty::Str) { Ty::Int } else { Ty::Str };
                pa.sty = STy::B(other);
                if !pa.extended {
                    let base = pa.name.trim_end_matches(['%', '&', '!', '#', '$']).to_string();
                    pa.name = format!("{}{}", base, other.suffix());
                }
            }
            4 if q.ret.is_some() => {
                what = "function-of-another-type";
                let old = q.ret.unwrap();
                let other = if old == Ty::Long { Ty::Double } else { Ty::Long };
                q.ret = Some(other);
                let base = q.name.trim_end_matches(['%', '&', '!', '#', '$']).to_string();
                q.name = format!("{}{}", base, other.suffix());
            }
            5 if !q.params.is_empty() => {
                what = "parameter-style";
                let pa = &mut q.params[0];
                if pa.extended {
                    pa.extended = false;
                    let t = pa.sty.ety().unwrap_or(Ty::Single);
                    pa.name = format!("{}{}", pa.name, t.suffix());
                } else {
                    pa.extended = true;
                    pa.name = pa.name.trim_end_matches(['%', '&', '!', '#', '$']).to_string();
                }
            }
            _ => {}
        }
        if what != "matching" {
            prog.declare_as.push((pi, q));
        }
    }
    sh.eval();
    let mut outcomes: Vec<(u8, String, Behaviour)> = vec![];
    for w in 0..3u8 {
        prog.declare_where = w;
        let r = render(&prog, &Layout::plain());
        sh.journal(&r.text);
        let b = behaviour(&r.text);
        outcomes.push((w, r.text, b));
    }
    sh.class(&format!("declare-order:{}:{}", what, if outcomes[0].2.verdict == "accepted" { "accepted" } else { "rejected" }));
    sh.nontrivial(hash64(&(&outcomes[0].1, what)));
    for k in 1..3 {
        if outcomes[k].2.verdict != outcomes[0].2.verdict {
            let inputs = json!({"kind": "declare-order", "declares_at_the_top": outcomes[0].1, "declares_elsewhere": outcomes[k].1, "what": what, "where": if k == 1 { "after the main module's statements" } else { "after the subprogram bodies" }});
            return Err(Violation::new(format!("c12-declare-order-verdict:{}", what), "the checker's verdict depends on where the DECLARE statements stand", inputs).exp_obs(outcomes[0].2.verdict.clone(), outcomes[k].2.verdict.clone()));
        }
        // (the row of a run-time error moves with the DECLARE lines: not compared)
        if outcomes[k].2.stdout != outcomes[0].2.stdout || outcomes[k].2.end != outcomes[0].2.end {
            let inputs = json!({"kind": "declare-order", "declares_at_the_top": outcomes[0].1, "declares_elsewhere": outcomes[k].1, "what": what});
            return Err(Violation::new(format!("c12-declare-order-behaviour:{}", what), "the program's behaviour depends on where the DECLARE statements stand", inputs).exp_obs(format!("{:?}", outcomes[0].2), format!("{:?}", outcomes[k].2)));
        }
    }
    sh.sample_sparse(401, || json!({"what": what, "program": outcomes[2].1}));
    Ok(())
}

// ------------------------------------------------------------------------------------------ (c)

#[derive(Clone, Copy, PartialEq, Debug)]
enum EditKind {
    /// replace the `which`-th numeric operand of a numeric operator by a string literal
    StringOperand,
    /// add an argument to the `which`-th user call
    ExtraArgument,
    /// pass a variable of another type by reference to the `which`-th user call with a by-ref argument
    ByRefType,
}

struct Ed<'a> {
    prog_ro: &'a Program,
    kind: EditKind,
    target: usize,
    counter: usize,
    /// site of the statement holding the applied edit, nesting depth of the edited expression
    applied: Option<(String, usize)>,
    scope: Option<usize>,
    new_var: Option<LValue>,
}

impl<'a> Ed<'a> {
    fn numeric(&self, e: &Expr) -> bool {
        static_ty(self.prog_ro, e).is_numeric()
    }

    /// Visits an expression; `site` is the site key of the statement (or block header) it belongs to.
    fn expr(&mut self, e: &mut Expr, site: &str, depth: usize) {
        if self.applied.is_some() {
            return;
        }
        match e {
            Expr::Lit(_) | Expr::Const(..) => {}
            Expr::Load(l) => {
                for i in l.index.iter_mut() {
                    self.expr(i, site, depth + 1);
                }
            }
            Expr::Paren(x) => self.expr(x, site, depth + 1),
            Expr::Un(op, x) => {
                if self.kind == EditKind::StringOperand && *op == UnOp::Neg && self.numeric(x) {
                    if self.counter == self.target {
                        **x = Expr::Lit(Lit::Str("s".into()));
                        self.applied = Some((site.to_string(), depth));
                        return;
                    }
                    self.counter += 1;
                }
                self.expr(x, site, depth + 1);
            }
            Expr::Bin(_, a, b) => {
                if self.kind == EditKind::StringOperand && self.numeric(a) && self.numeric(b) {
                    for side in 0..2 {
                        if self.counter == self.target {
                            let tgt = if side == 0 { &mut **a } else { &mut **b };
                            *tgt = Expr::Lit(Lit::Str("s".into()));
                            self.applied = Some((site.to_string(), depth));
                            return;
                        }
                        self.counter += 1;
                    }
                }
                self.expr(a, site, depth + 1);
                self.expr(b, site, depth + 1);
            }
            Expr::BuiltIn { args, .. } => {
                for a in args.iter_mut() {
                    self.expr(a, site, depth + 1);
                }
            }
            Expr::Call(p, args) => {
                let p = *p;
                if self.call_edit(p, args, site, depth) {
                    return;
                }
                for a in args.iter_mut() {
                    self.expr(a, site, depth + 1);
                }
            }
        }
    }

    fn call_edit(&mut self, p: usize, args: &mut Vec<Expr>, site: &str, depth: usize) -> bool {
        match self.kind {
            EditKind::ExtraArgument => {
                if self.counter == self.target {
                    args.push(Expr::Lit(Lit::Whole(1)));
                    self.applied = Some((site.to_string(), depth));
                    return true;
                }
                self.counter += 1;
            }
            EditKind::ByRefType => {
                let params = &self.prog_ro.procs[p].params;
                for (k, a) in args.iter_mut().enumerate() {
                    if let Expr::Load(l) = a {
                        if l.index.is_empty() && l.fields.is_empty() && l.sty == params[k].sty {
                            if self.counter == self.target {
                                // a plain variable of ANOTHER type, unparenthesised: passed by reference
                                if let Some(nv) = &self.new_var {
                                    let other = if l.sty == STy::B(Ty::Double) { Ty::Int } else { Ty::Double };
                                    let mut v = nv.clone();
                                    v.sty = STy::B(other);
                                    v.name = format!("ZW{}", other.suffix());
                                    *a = Expr::Load(v);
                                    self.applied = Some((site.to_string(), depth));
                                    return true;
                                }
                            }
                            self.counter += 1;
                        }
                    }
                }
            }
            EditKind::StringOperand => {}
        }
        false
    }

    fn stmts(&mut self, v: &mut Vec<Stmt>, pathf: &dyn Fn(usize) -> String) {
        for i in 0..v.len() {
            if self.applied.is_some() {
                return;
            }
            let p = pathf(i);
            self.stmt(&mut v[i], &p);
        }
    }

    fn stmt(&mut self, s: &mut Stmt, p: &str) {
        match s {
            Stmt::Assign(l, e) => {
                for i in l.index.iter_mut() {
                    self.expr(i, p, 1);
                }
                self.expr(e, p, 0);
            }
            Stmt::Print(items) => {
                for it in items.iter_mut() {
                    if let PrintItem::E(e) = it {
                        self.expr(e, p, 1);
                    }
                }
            }
            Stmt::If { arms, else_ } => {
                for (k, (c, body)) in arms.iter_mut().enumerate() {
                    let hp = if k == 0 { p.to_string() } else { format!("{}/arm{}", p, k) };
                    self.expr(c, &hp, 0);
                    let pp = p.to_string();
                    self.stmts(body, &move |j| format!("{}/a{}/{}", pp, k, j));
                }
                if let Some(b) = else_ {
                    let pp = p.to_string();
                    self.stmts(b, &move |j| format!("{}/else/{}", pp, j));
                }
            }
            Stmt::IfLine { cond, then_, else_ } => {
                self.expr(cond, p, 0);
                {
                    let pp = p.to_string();
                    self.stmts(then_, &move |j| format!("{}/then/{}", pp, j));
                }
                if let Some(e) = else_ {
                    let pp = p.to_string();
                    self.stmts(e, &move |j| format!("{}/else/{}", pp, j));
                }
            }
            Stmt::Select { subject, cases, else_ } => {
                self.expr(subject, p, 0);
                for (k, (items, body)) in cases.iter_mut().enumerate() {
                    let cp = format!("{}/case{}", p, k);
                    for it in items.iter_mut() {
                        match it {
                            CaseItem::Val(e) | CaseItem::Is(_, e) => self.expr(e, &cp, 1),
                            CaseItem::Range(a, b) => {
                                self.expr(a, &cp, 1);
                                self.expr(b, &cp, 1);
                            }
                        }
                    }
                    let pp = p.to_string();
                    self.stmts(body, &move |j| format!("{}/c{}/{}", pp, k, j));
                }
                if let Some(b) = else_ {
                    let pp = p.to_string();
                    self.stmts(b, &move |j| format!("{}/else/{}", pp, j));
                }
            }
            Stmt::For { from, to, step, body, .. } => {
                self.expr(from, p, 0);
                self.expr(to, p, 0);
                if let Some(s) = step {
                    self.expr(s, p, 0);
                }
                let pp = p.to_string();
                self.stmts(body, &move |j| format!("{}/b/{}", pp, j));
            }
            Stmt::While { cond, body } => {
                self.expr(cond, p, 0);
                let pp = p.to_string();
                self.stmts(body, &move |j| format!("{}/b/{}", pp, j));
            }
            Stmt::Do { kind, cond, body } => {
                let hp = if matches!(kind, DoKind::TopWhile | DoKind::TopUntil) { p.to_string() } else { format!("{}/end", p) };
                self.expr(cond, &hp, 0);
                let pp = p.to_string();
                self.stmts(body, &move |j| format!("{}/b/{}", pp, j));
            }
            Stmt::CallSub(pi, args) => {
                let pi = *pi;
                if self.call_edit(pi, args, p, 0) {
                    return;
                }
                for a in args.iter_mut() {
                    self.expr(a, p, 1);
                }
            }
            _ => {}
        }
    }

    fn run(&mut self, prog: &mut Program) {
        let mut main = std::mem::take(&mut prog.main);
        self.scope = None;
        if self.kind == EditKind::ByRefType {
            self.new_var = Some(add_scalar(prog, None, "ZW#", Ty::Double));
            add_scalar(prog, None, "ZW%", Ty::Int);
            // index of ZW% is the next one
            let idx_d = prog.vars.iter().position(|v| v.name == "ZW#").unwrap();
            let idx_i = prog.vars.iter().position(|v| v.name == "ZW%").unwrap();
            let _ = (idx_d, idx_i);
        }
        self.stmts(&mut main, &|i| format!("m/{}", i));
        prog.main = main;
        if self.kind == EditKind::ByRefType {
            return; // by-ref edits only in the main module (the scratch variable lives there)
        }
        for pi in 0..prog.procs.len() {
            if self.applied.is_some() {
                break;
            }
            let mut body = std::mem::take(&mut prog.procs[pi].body);
            self.scope = Some(pi);
            self.stmts(&mut body, &move |i| format!("p{}/{}", pi, i));
            prog.procs[pi].body = body;
        }
    }
}

fn count_edits(prog: &Program, kind: EditKind) -> usize {
    let ro = prog.clone();
    let mut p = prog.clone();
    let mut e = Ed { prog_ro: &ro, kind, target: usize::MAX, counter: 0, applied: None, scope: None, new_var: None };
    e.run(&mut p);
    e.counter
}

fn check_edit(text: &str, family: &[&str], site: &Value, label: &str, inputs: Value) -> Result<(), Violation> {
    match impl_run::front(text) {
        Ok(_) => Err(Violation::new(format!("c12-edit-accepted:{}", label), "an accepted program made ill-formed by one local edit is still accepted", inputs).exp_obs(json!({"rejected with": family, "in": site}), "accepted")),
        Err(FrontErr::Panic { stage, info }) => Err(Violation::new(format!("panic:{}:{}", stage, info.sig()), "the edited program made the parser/checker panic", inputs)),
        Err(e) => {
            let variant = e.class();
            if !family.iter().any(|f| variant == format!("lint:{}", f) || variant == format!("parse:{}", f)) {
                return Err(Violation::new(format!("c12-edit-family:{}:{}", label, variant), "the edit is rejected with an error of another family", inputs).exp_obs(json!(family), e.to_json()));
            }
            let (r, c) = e.pos().unwrap();
            let row = site["row"].as_u64().unwrap_or(0) as u32;
            let (c0, c1) = (site["col_start"].as_u64().unwrap_or(0) as u32, site["col_end"].as_u64().unwrap_or(0) as u32);
            if r != row || c < c0 || c > c1 + 1 {
                return Err(Violation::new(format!("c12-edit-position:{}", label), "the error is not located in the edited statement", inputs).exp_obs(site.clone(), e.to_json()));
            }
            Ok(())
        }
    }
}

fn site_json(r: &Rendered, path: &str) -> Value {
    match r.sites.get(path) {
        Some(s) => json!({"row": s.row, "col_start": s.col_start, "col_end": s.col_end}),
        None => Value::Null,
    }
}

fn edit_case(sh: &mut Shard, tape: &[u32]) -> Result<(), Violation> {
    let mut t = Tape::new(tape);
    let which_kind = t.choose(8);
    let which = t.raw();
    let used = t.used();
    let (prog, gkind) = gen_any(&mut t, &tape[used.min(tape.len())..]);
    sh.eval();
    let base = render(&prog, &Layout::plain());
    // only accepted programs are edited
    if impl_run::front(&base.text).is_err() {
        sh.discard("base program not accepted");
        return Ok(());
    }
    let (label, family, edited_text, site): (String, Vec<&str>, String, Value) = match which_kind {
        0..=3 | 4 | 5 => {
            let kind = match which_kind {
                0..=3 => EditKind::StringOperand,
                4 => EditKind::ExtraArgument,
                _ => EditKind::ByRefType,
            };
            let n = count_edits(&prog, kind);
            if n == 0 {
                sh.discard("no position for the drawn edit");
                return Ok(());
            }
            let target = ((which as u64 * n as u64) >> 32) as usize;
            let ro = prog.clone();
            let mut p = prog.clone();
            let mut ed = Ed { prog_ro: &ro, kind, target, counter: 0, applied: None, scope: None, new_var: None };
            ed.run(&mut p);
            let Some((site_path, depth)) = ed.applied.clone() else {
                sh.discard("edit position not reached");
                return Ok(());
            };
            let r = render(&p, &Layout::plain());
            let site = site_json(&r, &site_path);
            if site.is_null() {
                panic!("c12: no site for {}", site_path);
            }
            sh.class(&format!("edit-depth:{}", depth.min(4)));
            let (label, fam): (&str, Vec<&str>) = match kind {
                EditKind::StringOperand => ("string-operand", vec!["TypeMismatch", "ArgumentTypeMismatch"]),
                EditKind::ExtraArgument => ("argument-count", vec!["ArgumentCountMismatch"]),
                EditKind::ByRefType => ("by-ref-type", vec!["ArgumentTypeMismatch", "TypeMismatch"]),
            };
            if depth >= 1 {
                sh.nontrivial(hash64(&(&r.text, label)));
            }
            (label.to_string(), fam, r.text.clone(), site)
        }
        6 => {
            // duplicate definition
            let mut p = prog.clone();
            p.main.insert(0, Stmt::Const("ZK".into(), Expr::Lit(Lit::Whole(1))));
            p.main.insert(1, Stmt::Const("ZK".into(), Expr::Lit(Lit::Whole(2))));
            let r = render(&p, &Layout::plain());
            let site = site_json(&r, "m/1");
            sh.nontrivial(hash64(&(&r.text, "dup")));
            ("duplicate-definition".to_string(), vec!["DuplicateDefinition"], r.text.clone(), site)
        }
        _ => {
            // NEXT naming another counter: text edit of a NEXT line
            let next_sites: Vec<(&String, &crate::genr::print::Site)> = base.sites.iter().filter(|(k, _)| k.ends_with("/end")).collect();
            let lines: Vec<&str> = base.text.split('\n').collect();
            let cands: Vec<&(&String, &crate::genr::print::Site)> = next_sites.iter().filter(|(_, s)| lines.get(s.row as usize - 1).map(|l| l.trim_start().starts_with("NEXT")).unwrap_or(false)).collect();
            if cands.is_empty() {
                sh.discard("no FOR loop to edit");
                return Ok(());
            }
            let (_, s) = cands[((which as u64 * cands.len() as u64) >> 32) as usize];
            let mut new_lines: Vec<String> = lines.iter().map(|l| l.to_string()).collect();
            let indent: String = lines[s.row as usize - 1].chars().take_while(|c| *c == ' ').collect();
            new_lines[s.row as usize - 1] = format!("{}NEXT ZWRONG%", indent);
            let site = json!({"row": s.row, "col_start": s.col_start, "col_end": s.col_start + 11});
            sh.nontrivial(hash64(&(&base.text, "next", s.row)));
            ("next-wrong-counter".to_string(), vec!["NextWithoutFor"], new_lines.join("\n"), site)
        }
    };
    sh.journal(&edited_text);
    sh.class(&format!("edit:{}:{}", label, gkind));
    let inputs = json!({"kind": "edit", "program": edited_text, "edit": label, "family": family, "site": site, "base": base.text});
    sh.sample_sparse(503, || inputs.clone());
    check_edit(&edited_text, &family, &site, &label, inputs)
}

// ------------------------------------------------------------------------------------------ (d)

/// Fault x position x context matrix (exhaustive): a fault the checker rejects at the reference position
/// (`PRINT <fault>` at module level) must be rejected - same error, in the faulty statement - wherever it is placed.
fn placement_matrix(sh: &mut Shard) {
    use crate::props::faults;
    let np = faults::pairs();
    for k in 0..np {
        if !sh.mine(k as u64) {
            continue;
        }
        let (fault, plabel, stmt, refk) = faults::pair(k);
        let (_, _, ref_stmt, _) = faults::pair(refk);
        let rc = faults::place(&ref_stmt, 0).unwrap();
        sh.eval();
        let ref_class = match impl_run::front(&rc.text) {
            Ok(_) => {
                // not a fault for this checker: then it must at least be sound
                if k == refk {
                    let inputs = json!({"kind": "soundness", "program": rc.text});
                    let ran = impl_run::run_src(&rc.text, &RunOpts::budget(100_000));
                    if let Err(FrontErr::Panic { stage: "codegen", info }) = &ran {
                        if WRONG_KIND.iter().any(|w| info.msg.contains(w)) {
                            let r = Err(Violation::new(format!("c12-wrong-kind:{}", info.sig()), "an accepted ill-typed statement could not be translated (operand of the wrong kind)", inputs.clone()).exp_obs("rejected by the checker", json!({"panic": info.msg})));
                            if !sh.report(r) {
                                return;
                            }
                        }
                    }
                    if let Ok(out) = ran {
                        let r = match &out.end {
                            End::Err { code: Some(13), pos, .. } => Err(Violation::new(format!("c12-type-mismatch-at-runtime:{}", fault), "an accepted ill-typed expression raised Type mismatch (13) at run time", inputs).exp_obs("rejected by the checker, or no Type mismatch", json!(pos))),
                            End::Panic(p) if WRONG_KIND.iter().any(|w| p.msg.contains(w)) => Err(Violation::new(format!("c12-wrong-kind:{}", p.sig()), "an accepted program applied an operator or built-in to an operand of the wrong kind", inputs).exp_obs("no wrong-kind failure", json!({"panic": p.msg}))),
                            _ => Ok(()),
                        };
                        if !sh.report(r) {
                            return;
                        }
                    }
                }
                sh.discard("fault template accepted at the reference position (not ill-typed for this checker)");
                continue;
            }
            Err(FrontErr::Panic { .. }) => {
                sh.discard("reference makes the parser/checker panic (C07)");
                continue;
            }
            Err(e) => {
                if !e.class().starts_with("lint:") {
                    sh.discard("fault template is a syntax error");
                    continue;
                }
                e.class()
            }
        };
        for ctx in 0..faults::CONTEXTS.len() {
            let Some(case) = faults::place(&stmt, ctx) else { continue };
            sh.eval();
            sh.journal(&case.text);
            let inputs = json!({"kind": "placement", "program": case.text, "fault": fault, "position": plabel, "context": faults::CONTEXTS[ctx], "rows": [case.rows.0, case.rows.1], "reference_class": ref_class, "reference": rc.text});
            let r = check_placement(&case.text, case.rows, &ref_class, &plabel, faults::CONTEXTS[ctx], inputs);
            sh.class(&format!("placement-context:{}", faults::CONTEXTS[ctx]));
            sh.nontrivial(hash64(&case.text));
            if !sh.report(r) {
                return;
            }
        }
    }
    sh.exhaustive("74 ill-typed expressions x every expression position of their type (27 numeric, 17 string) + 31 ill-typed statements, each in 16 statement contexts");
    // jump x scope matrix: a label belongs to the main module (wherever its text is) or to one subprogram
    if sh.shard == 0 {
        for kind in 0..faults::JUMP_KINDS.len() {
            for source in 0..faults::JUMP_SOURCES.len() {
                for case in 0..faults::JUMP_TARGETS.len() * 3 {
                    let (target, order) = (case / 3, case % 3);
                    let jc = faults::jump_case(kind, source, target, order);
                    sh.eval();
                    sh.journal(&jc.text);
                    let inputs = json!({"kind": "jump-scope", "program": jc.text, "jump": jc.label, "row": jc.row, "same_scope": jc.same_scope});
                    let r = check_jump(&jc.text, jc.row, jc.same_scope, inputs);
                    sh.class(if jc.same_scope { "jump-scope:same-scope" } else { "jump-scope:other-scope" });
                    sh.nontrivial(hash64(&jc.text));
                    if !sh.report(r) {
                        return;
                    }
                }
            }
        }
        sh.exhaustive("GOTO / GOSUB from 4 source scopes to labels written in 5 scopes (main code before and after the subprograms, SUB, FUNCTION, another SUB)");
    }
}

/// Duplicate definitions across and inside scopes (enumerated): a declaration is inserted into an accepted program at a place
/// where the same variable is already defined - in the same scope, or DIM SHARED by the main module - optionally next to a
/// variable of the same base name and ANOTHER type suffix in the scope of the duplicate (a different variable, which must not
/// hide the clash). The base program must be accepted; the edited one must be rejected with Duplicate definition at the
/// inserted statement.
fn duplicate_matrix(sh: &mut Shard) {
    // (what is defined first, its duplicate)
    const DEFS: [(&str, &str); 7] = [
        ("DIM{S} ZT$", "DIM ZT$"),
        ("DIM{S} ZT&", "DIM ZT&"),
        ("DIM{S} ZT%(3)", "DIM ZT%(3)"),
        ("DIM{S} ZT%(1 TO 2, 3)", "DIM ZT%(1 TO 2, 3)"),
        ("DIM{S} ZT AS LONG", "DIM ZT AS LONG"),
        ("DIM{S} ZT AS STRING * 4", "DIM ZT AS STRING * 4"),
        ("DIM{S} ZT(2) AS DOUBLE", "DIM ZT(2) AS DOUBLE"),
    ];
    // a variable of the same base name and another suffix in the scope of the duplicate: (parameter, statement)
    const OTHERS: [(&str, &str); 4] = [("", ""), ("", "ZT# = 1.5"), ("", "DIM ZT#"), ("ZT#", "")];
    // where the first definition and the duplicate stand
    const PLACES: [&str; 4] = ["main-main", "shared-sub", "shared-function", "sub-sub"];
    let mut index = 0u64;
    for (di, (first, dup)) in DEFS.iter().enumerate() {
        for (oi, (param, other)) in OTHERS.iter().enumerate() {
            for place in PLACES {
                for filler in [false, true] {
                    index += 1;
                    if !sh.mine(index) {
                        continue;
                    }
                    let extended = first.contains(" AS ");
                    if extended && oi != 0 {
                        continue; // next to an extended variable every other suffix is an error of its own
                    }
                    if !param.is_empty() && place == "main-main" {
                        continue;
                    }
                    let mut lines: Vec<String> = vec![];
                    let mut body: Vec<String> = vec![];
                    let in_main = place == "main-main";
                    let first_line = first.replace("{S}", if place.starts_with("shared") { " SHARED" } else { "" });
                    if place != "sub-sub" {
                        lines.push(first_line.clone());
                    } else {
                        body.push(first_line.clone());
                    }
                    if !other.is_empty() {
                        body.push(other.to_string());
                    }
                    if filler {
                        body.push("ZK1% = 1".to_string());
                        body.push("PRINT \"f\"; ZK1%".to_string());
                    }
                    let dup_index_in_body = body.len();
                    body.push(dup.to_string());
                    body.push("PRINT \"g\"".to_string());
                    let dup_row;
                    if in_main {
                        dup_row = lines.len() + dup_index_in_body + 1;
                        lines.extend(body);
                    } else {
                        let is_fn = place == "shared-function";
                        let arg = if param.is_empty() { "" } else { "1.5" };
                        if is_fn {
                            lines.push(if param.is_empty() { "PRINT ZPf%".to_string() } else { format!("PRINT ZPf%({})", arg) });
                            lines.push(if param.is_empty() { "FUNCTION ZPf%".to_string() } else { format!("FUNCTION ZPf% ({})", param) });
                        } else {
                            lines.push(format!("ZPs {}", arg).trim_end().to_string());
                            lines.push(if param.is_empty() { "SUB ZPs".to_string() } else { format!("SUB ZPs ({})", param) });
                        }
                        dup_row = lines.len() + dup_index_in_body + 1;
                        lines.extend(body.into_iter().map(|l| format!("  {}", l)));
                        lines.push(if is_fn { "END FUNCTION".to_string() } else { "END SUB".to_string() });
                    }
                    let edited = lines.join("\n") + "\n";
                    let mut base_lines = lines.clone();
                    base_lines.remove(dup_row - 1);
                    let base = base_lines.join("\n") + "\n";
                    sh.eval();
                    sh.journal(&base);
                    if impl_run::front(&base).is_err() {
                        sh.discard("duplicate matrix: base program not accepted");
                        continue;
                    }
                    let indent = if in_main { 0 } else { 2 };
                    let site = json!({"row": dup_row, "col_start": indent + 1, "col_end": indent + dup.chars().count()});
                    let label = format!("duplicate-definition:{}:{}", place, if oi == 0 { "plain" } else { "next-to-other-suffix" });
                    sh.class(&format!("duplicate-matrix:{}", place));
                    sh.class(&format!("duplicate-matrix:def{}:other{}", di, oi));
                    sh.nontrivial(hash64(&edited));
                    sh.journal(&edited);
                    let inputs = json!({"kind": "edit", "program": edited, "edit": label, "family": ["DuplicateDefinition"], "site": site, "base": base});
                    sh.sample_sparse(37, || inputs.clone());
                    let r = check_edit(&edited, &["DuplicateDefinition"], &site, &label, inputs);
                    if !sh.report(r) {
                        return;
                    }
                }
            }
        }
    }
    sh.exhaustive("duplicate definitions: 7 declarations x 4 neighbours of another suffix x 4 scope pairs x with / without statements in between");
}

/// Records (and whole arrays) used where a value is needed, on BOTH sides of a construct that compares two expressions with
/// each other (so that "the two sides have the same type" cannot stand in for "the operands are values"): SELECT CASE rec /
/// CASE rec, CASE rec TO rec, rec = rec, array = array. Each program must be rejected, or run without Type mismatch.
fn record_value_programs(sh: &mut Shard) {
    const HEAD: &str = "TYPE ZT\n  ZA AS INTEGER\nEND TYPE\nDIM ZC AS ZT\nDIM ZD AS ZT\nDIM ZX%(2)\nDIM ZY%(2)\n";
    const BODIES: [&str; 10] = [
        "SELECT CASE ZC\nCASE ZD\n  PRINT 1\nEND SELECT\n",
        "SELECT CASE ZC\nCASE ZC TO ZD\n  PRINT 1\nEND SELECT\n",
        "SELECT CASE ZC\nCASE IS = ZD\n  PRINT 1\nEND SELECT\n",
        "SELECT CASE ZC\nCASE ELSE\n  PRINT 1\nEND SELECT\n",
        "IF ZC = ZD THEN PRINT 1\n",
        "PRINT ZC = ZD\n",
        "ZQ% = ZC < ZD\n",
        "SELECT CASE ZX%\nCASE ZY%\n  PRINT 1\nEND SELECT\n",
        "IF ZX% = ZY% THEN PRINT 1\n",
        "WHILE ZC = ZD\nWEND\n",
    ];
    if sh.shard != 0 {
        return;
    }
    for body in BODIES {
        let text = format!("{}{}", HEAD, body);
        sh.eval();
        sh.journal(&text);
        sh.class("soundness:record-or-array-on-both-sides");
        sh.nontrivial(hash64(&text));
        let inputs = json!({"kind": "soundness", "program": text});
        let r = match impl_run::run_src(&text, &RunOpts::budget(300_000)) {
            Err(FrontErr::Panic { stage, info }) => Err(Violation::new(format!("panic:{}:{}", stage, info.sig()), "the program made the parser/checker panic", inputs)),
            Err(_) => Ok(()),
            Ok(out) => match &out.end {
                End::Err { code: Some(13), pos, .. } => Err(Violation::new("c12-type-mismatch-at-runtime", "accepted program raised Type mismatch (13)", inputs).exp_obs("no Type mismatch", json!(pos))),
                End::Panic(p) if WRONG_KIND.iter().any(|w| p.msg.contains(w)) => Err(Violation::new(format!("c12-wrong-kind:{}", p.sig()), "wrong-kind failure", inputs)),
                _ => Ok(()),
            },
        };
        if !sh.report(r) {
            return;
        }
    }
}

fn check_jump(text: &str, row: u32, same_scope: bool, inputs: Value) -> Result<(), Violation> {
    match impl_run::front(text) {
        Ok(_) if same_scope => Ok(()),
        Ok(_) => Err(Violation::new("c12-jump-into-other-scope-accepted", "a GOTO / GOSUB to a label of another scope (main module vs. a subprogram, or another subprogram) is accepted", inputs).exp_obs("lint:LabelNotDefined", "accepted")),
        Err(FrontErr::Panic { stage, info }) => Err(Violation::new(format!("panic:{}:{}", stage, info.sig()), "the program made the parser/checker panic", inputs)),
        Err(e) if same_scope => Err(Violation::new(format!("c12-jump-within-scope-rejected:{}", e.class()), "a GOTO / GOSUB to a label of its own scope is rejected", inputs).exp_obs("accepted", e.to_json())),
        Err(e) => {
            if e.class() != "lint:LabelNotDefined" {
                return Err(Violation::new(format!("c12-jump-family:{}", e.class()), "a jump to a label of another scope is rejected with an error of another family", inputs).exp_obs("lint:LabelNotDefined", e.to_json()));
            }
            let (r, _) = e.pos().unwrap_or((0, 0));
            if r != row {
                return Err(Violation::new("c12-jump-position", "the error is not located at the jump statement", inputs).exp_obs(json!({"row": row}), e.to_json()));
            }
            Ok(())
        }
    }
}

fn check_placement(text: &str, rows: (u32, u32), ref_class: &str, plabel: &str, ctx: &str, inputs: Value) -> Result<(), Violation> {
    let pos_key = plabel.split(':').next().unwrap_or("");
    match impl_run::front(text) {
        Ok(_) => Err(Violation::new(format!("c12-placement-accepted:{}:{}", pos_key, ctx), "an ill-typed expression/statement that is rejected at the reference position is accepted at another position", inputs).exp_obs(ref_class, "accepted")),
        Err(FrontErr::Panic { stage, info }) => Err(Violation::new(format!("panic:{}:{}", stage, info.sig()), "the placed fault made the parser/checker panic", inputs)),
        Err(e) => {
            let cls = e.class();
            let fam = |c: &str| -> &'static str {
                if c.ends_with("TypeMismatch") { "type" } else if c.ends_with("ArgumentCountMismatch") { "count" } else { "other" }
            };
            if cls != ref_class && fam(&cls) != fam(ref_class) || (fam(&cls) == "other" && cls != ref_class) {
                return Err(Violation::new(format!("c12-placement-family:{}:{}", pos_key, ctx), "the placed fault is rejected with an error of another family than at the reference position", inputs).exp_obs(ref_class, e.to_json()));
            }
            let (r, _) = e.pos().unwrap_or((0, 0));
            if r < rows.0 || r > rows.1 {
                return Err(Violation::new(format!("c12-placement-position:{}:{}", pos_key, ctx), "the error is not located in the faulty statement", inputs).exp_obs(json!({"rows": [rows.0, rows.1]}), e.to_json()));
            }
            Ok(())
        }
    }
}

impl Prop for C12 {
    fn id(&self) -> &'static str {
        "C12"
    }
    fn rule(&self) -> &'static str {
        "(a) Soundness: accepted programs of the wide generator (C08's) without READ / INPUT / LINE INPUT / PRINT USING / INPUT # / GET, two thirds with wrongly typed expressions planted inside parentheses, argument lists, subscripts, CASE lists and PRINT lists (so that acceptance itself is under test), are run: a run-time Type mismatch (13) or a wrong-kind panic is a violation. (b) Renaming: every user identifier (variables, labels, procedures, parameters, types, fields, constants) of a generated program - accepted, or rejected through an injected fault - is renamed consistently (same first letter, same suffix); verdict class, output, error code and error row must be unchanged. (b2) Declaration order: the DECLARE statements of a generated program with subprograms - agreeing with the bodies, or with one of them changed (a parameter more or fewer, a parameter of another type or style, a function of another type) - are placed at the top, after the main module's statements, and after the bodies: verdict class and behaviour must be the same at all three places. (c) One local edit of an accepted program: a numeric operand of any operator at ANY expression position (nested in parentheses, call arguments, subscripts, CASE lists, PRINT lists, block headers) replaced by a string literal; an extra argument on a user call; a plain variable of another type passed by reference; a duplicated CONST; a NEXT naming another counter. (c2) Duplicate-definition matrix (enumerated): a second DIM of a variable (compact scalar, array, extended scalar / fixed-length string / array) inserted in the scope that already defines it, or in a SUB / FUNCTION while the main module DIM SHAREs it, with or without a variable of the same base name and another suffix (implicit, DIMmed, parameter) in that scope. Expected: rejected, error of the matching family, located in the edited statement (printer's site map). Non-trivial = (a) >= 3 statements ran and a built-in was used, (b) program printed or was rejected, (c) edit at nesting depth >= 1 (or a statement-level edit); distinct by program text (+ edit)."
    }
    fn assumptions(&self) -> Vec<&'static str> {
        vec!["error families: string operand -> {TypeMismatch, ArgumentTypeMismatch}; extra argument -> ArgumentCountMismatch; by-reference type -> {ArgumentTypeMismatch, TypeMismatch}; duplicate -> DuplicateDefinition; NEXT -> NextWithoutFor", "undefined labels are covered by C11's fault injection"]
    }
    fn run(&self, sh: &mut Shard) {
        placement_matrix(sh);
        duplicate_matrix(sh);
        record_value_programs(sh);
        let n = sh.share(sh.tier.pick(8_000, 300_000));
        sh.search(1, n, 60, 600, |sh, tape| soundness_case(sh, tape));
        let n = sh.share(sh.tier.pick(6_000, 200_000));
        sh.search(2, n, 80, 400, |sh, tape| rename_case(sh, tape));
        let n = sh.share(sh.tier.pick(12_000, 400_000));
        sh.search(3, n, 80, 400, |sh, tape| edit_case(sh, tape));
        let n = sh.share(sh.tier.pick(2_400, 80_000));
        sh.search(4, n, 80, 400, |sh, tape| declare_order_case(sh, tape));
    }
    fn replay(&self, _sh: &mut Shard, inputs: &Value) -> Result<(), Violation> {
        match inputs["kind"].as_str().unwrap_or("") {
            "soundness" => {
                let text = inputs["program"].as_str().unwrap_or("");
                match impl_run::run_src(text, &RunOpts::budget(300_000)) {
                    Err(_) => Ok(()),
                    Ok(out) => match &out.end {
                        End::Err { code: Some(13), pos, .. } => Err(Violation::new("c12-type-mismatch-at-runtime", "accepted program raised Type mismatch (13)", inputs.clone()).exp_obs("no Type mismatch", json!(pos))),
                        End::Panic(p) if WRONG_KIND.iter().any(|w| p.msg.contains(w)) => Err(Violation::new(format!("c12-wrong-kind:{}", p.sig()), "wrong-kind failure", inputs.clone())),
                        _ => Ok(()),
                    },
                }
            }
            "jump-scope" => check_jump(inputs["program"].as_str().unwrap_or(""), inputs["row"].as_u64().unwrap_or(0) as u32, inputs["same_scope"].as_bool().unwrap_or(false), inputs.clone()),
            "placement" => check_placement(inputs["program"].as_str().unwrap_or(""), (inputs["rows"][0].as_u64().unwrap_or(0) as u32, inputs["rows"][1].as_u64().unwrap_or(0) as u32), inputs["reference_class"].as_str().unwrap_or(""), inputs["position"].as_str().unwrap_or(""), inputs["context"].as_str().unwrap_or(""), inputs.clone()),
            "declare-order" => {
                let a = behaviour(inputs["declares_at_the_top"].as_str().unwrap_or(""));
                let b = behaviour(inputs["declares_elsewhere"].as_str().unwrap_or(""));
                if a.verdict != b.verdict || a.stdout != b.stdout || a.end != b.end {
                    return Err(Violation::new(format!("c12-declare-order-verdict:{}", inputs["what"].as_str().unwrap_or("replay")), "the checker's verdict (or the behaviour) depends on where the DECLARE statements stand", inputs.clone()).exp_obs(format!("{:?}", a), format!("{:?}", b)));
                }
                Ok(())
            }
            "rename" => check_rename(inputs["original"].as_str().unwrap_or(""), inputs["renamed"].as_str().unwrap_or(""), inputs["what"].as_str().unwrap_or("replay")).map(|_| ()),
            "edit" => {
                let fam: Vec<String> = inputs["family"].as_array().map(|a| a.iter().filter_map(|x| x.as_str().map(|s| s.to_string())).collect()).unwrap_or_default();
                let fam_ref: Vec<&str> = fam.iter().map(|s| s.as_str()).collect();
                check_edit(inputs["program"].as_str().unwrap_or(""), &fam_ref, &inputs["site"], inputs["edit"].as_str().unwrap_or("replay"), inputs.clone())
            }
            k => panic!("unknown replay kind {}", k),
        }
    }
}

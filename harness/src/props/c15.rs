//! C15 — generated code is well-formed: every branch lands where intended, stacks balance.
//!
//! Static part: a checker + abstract interpreter over each generated instruction list.
//! Dynamic part: the stack-depth vector observed at statement starts must be the
//! same every time a statement is revisited in the same activation.

use std::collections::{BTreeMap, HashMap, VecDeque};

use rusty_basic::instruction_generator::{AddressOrLabel, Instruction, InstructionGeneratorResult};
use rusty_common::HasPos;
use serde_json::{Value, json};

use crate::corpus;
use crate::engine::{Shard, Violation, hash64};
use crate::genr::build::{Gen, GenCfg};
use crate::genr::print::{Layout, render};
use crate::impl_run::{self, End, RunOpts};
use crate::props::Prop;

pub struct C15;

#[derive(Clone, Copy, Debug, PartialEq, Eq)]
struct Depths {
    v: i32,
    r: i32,
    p: i32,
    q: i32,
    a: i32,
    s: i32,
}

const ZERO: Depths = Depths { v: 0, r: 0, p: 0, q: 0, a: 0, s: 0 };

fn target(a: &AddressOrLabel) -> Option<usize> {
    match a {
        AddressOrLabel::Resolved(x) => Some(*x),
        AddressOrLabel::Unresolved(_) => None,
    }
}

fn is_generated_label(name: &str) -> bool {
    name.starts_with('_') || name.starts_with(':')
}

/// A finding of the static checker: (signature, description).
pub type Finding = (String, String);

pub fn check_instructions(igr: &InstructionGeneratorResult) -> Vec<Finding> {
    let ins = &igr.instructions;
    let n = ins.len();
    let out_cell: std::cell::RefCell<Vec<Finding>> = std::cell::RefCell::new(vec![]);
    let push = |sig: &str, what: String| {
        let mut out = out_cell.borrow_mut();
        if !out.iter().any(|(s, _)| s == sig) {
            out.push((sig.to_string(), what));
        }
    };
    // 1. all targets resolved and inside the list
    for (i, ip) in ins.iter().enumerate() {
        let t = match &ip.element {
            Instruction::Jump(a) | Instruction::JumpIfFalse(a) | Instruction::GoSub(a) | Instruction::OnErrorGoTo(a) | Instruction::ResumeLabel(a) => Some(a),
            Instruction::Return(Some(a)) => Some(a),
            _ => None,
        };
        if let Some(a) = t {
            match target(a) {
                None => push("unresolved-target", format!("instruction {} {:?} has an unresolved target", i, ip.element)),
                Some(x) if x >= n => push("target-out-of-range", format!("instruction {} {:?} targets {} beyond the list of {}", i, ip.element, x, n)),
                _ => {}
            }
        }
        if let Instruction::PushRet(x) = &ip.element {
            if *x >= n {
                push("pushret-out-of-range", format!("instruction {} PushRet({}) beyond the list of {}", i, x, n));
            }
        }
    }
    if !out_cell.borrow().is_empty() {
        return out_cell.into_inner();
    }
    // 2. labels defined once
    let mut labels: HashMap<String, usize> = HashMap::new();
    for (i, ip) in ins.iter().enumerate() {
        if let Instruction::Label(l) = &ip.element {
            let key = l.to_string().to_uppercase();
            if let Some(prev) = labels.insert(key.clone(), i) {
                push(if is_generated_label(&key) { "duplicate-generated-label" } else { "duplicate-user-label" }, format!("label {} defined at {} and {}", key, prev, i));
            }
        }
    }
    // 3. regions
    let mut region_start: Vec<usize> = vec![0];
    for (i, ip) in ins.iter().enumerate() {
        if let Instruction::Label(l) = &ip.element {
            let s = l.to_string();
            if s.starts_with(":sub:") || s.starts_with(":fun:") {
                region_start.push(i);
            }
        }
    }
    let region_of = |i: usize| -> usize { region_start.iter().rposition(|s| *s <= i).unwrap_or(0) };
    let region_end = |r: usize| -> usize { if r + 1 < region_start.len() { region_start[r + 1] } else { n } };
    // main ends with Halt
    let main_end = region_end(0);
    if main_end == 0 || !matches!(ins[main_end - 1].element, Instruction::Halt) {
        push("main-without-halt", format!("main module region [0,{}) does not end with Halt", main_end));
    }
    for r in 1..region_start.len() {
        let e = region_end(r);
        if !matches!(ins[e - 1].element, Instruction::PopRet) {
            push("procedure-without-return", format!("procedure region [{},{}) does not end with PopRet", region_start[r], e));
        }
    }
    // branches stay inside their region, except the call Jump after PushRet
    for (i, ip) in ins.iter().enumerate() {
        let t = match &ip.element {
            Instruction::Jump(a) => {
                if i > 0 && matches!(ins[i - 1].element, Instruction::PushRet(_)) {
                    // call: must target a procedure entry
                    let x = target(a).unwrap();
                    if !region_start[1..].contains(&x) {
                        push("call-target-not-procedure-entry", format!("call at {} targets {} which is not a procedure entry", i, x));
                    }
                    None
                } else {
                    target(a)
                }
            }
            Instruction::JumpIfFalse(a) | Instruction::GoSub(a) | Instruction::OnErrorGoTo(a) | Instruction::ResumeLabel(a) => target(a),
            Instruction::Return(Some(a)) => target(a),
            _ => None,
        };
        if let Some(x) = t {
            if region_of(x) != region_of(i) {
                push("branch-leaves-procedure", format!("instruction {} {:?} in region {} targets {} in region {}", i, ip.element, region_of(i), x, region_of(x)));
            }
        }
        if let Instruction::PushRet(x) = &ip.element {
            if *x != i + 2 {
                push("pushret-not-after-call", format!("PushRet at {} returns to {} instead of {}", i, x, i + 2));
            }
        }
    }
    // 4. statement addresses ascending and in range
    let sa = &igr.statement_addresses;
    for w in sa.windows(2) {
        if w[1] < w[0] {
            push("statement-addresses-not-ascending", format!("statement addresses {} then {}", w[0], w[1]));
            break;
        }
    }
    if let Some(last) = sa.last() {
        if *last > n {
            push("statement-address-out-of-range", format!("statement address {} beyond {}", last, n));
        }
    }
    // 5. abstract interpretation of the depth vector
    let mut state: Vec<Option<Depths>> = vec![None; n];
    let mut work: VecDeque<usize> = VecDeque::new();
    let mut entries: Vec<usize> = vec![0];
    entries.extend(region_start[1..].iter().cloned());
    for ip in ins.iter() {
        if let Instruction::OnErrorGoTo(a) = &ip.element {
            entries.push(target(a).unwrap());
        }
    }
    for e in entries {
        if e < n && state[e].is_none() {
            state[e] = Some(ZERO);
            work.push_back(e);
        }
    }
    let label_name = |x: usize| -> String {
        match &ins[x].element {
            Instruction::Label(l) => l.to_string(),
            _ => String::new(),
        }
    };
    while let Some(i) = work.pop_front() {
        let d = state[i].unwrap();
        let mut nd = d;
        let mut succ: Vec<usize> = vec![];
        let fall = i + 1;
        match &ins[i].element {
            Instruction::PushAToValueStack => {
                nd.v += 1;
                succ.push(fall);
            }
            Instruction::PopValueStackIntoA => {
                nd.v -= 1;
                succ.push(fall);
            }
            Instruction::PushRegisters => {
                nd.r += 1;
                succ.push(fall);
            }
            Instruction::PopRegisters => {
                nd.r -= 1;
                succ.push(fall);
            }
            Instruction::VarPathName(_) => {
                nd.p += 1;
                succ.push(fall);
            }
            Instruction::VarPathIndex | Instruction::VarPathProperty(_) | Instruction::CopyVarPathToA => {
                if nd.p < 1 {
                    push("var-path-underflow", format!("instruction {} {:?} needs a variable path", i, ins[i].element));
                }
                succ.push(fall);
            }
            Instruction::CopyAToVarPath | Instruction::PopVarPath | Instruction::PushUnnamedByRef => {
                nd.p -= 1;
                succ.push(fall);
            }
            Instruction::EnqueueToReturnStack(_) => {
                nd.q += 1;
                succ.push(fall);
            }
            Instruction::DequeueFromReturnStack => {
                nd.q -= 1;
                succ.push(fall);
            }
            Instruction::BeginCollectArguments => {
                nd.s += 1;
                succ.push(fall);
            }
            Instruction::PushStack | Instruction::PushStaticStack(_) => {
                if nd.s < 1 {
                    push("push-stack-without-arguments", format!("instruction {} PushStack without BeginCollectArguments", i));
                }
                succ.push(fall);
            }
            Instruction::PopStack | Instruction::AllocateArrayIntoA(_) => {
                nd.s -= 1;
                succ.push(fall);
            }
            Instruction::PushNamed(_) | Instruction::PushUnnamedByVal => {
                if nd.s < 1 {
                    push("argument-without-collecting", format!("instruction {} pushes an argument outside BeginCollectArguments", i));
                }
                succ.push(fall);
            }
            Instruction::PushRet(_) => {
                nd.a += 1;
                succ.push(fall);
            }
            Instruction::Jump(a) => {
                if i > 0 && matches!(ins[i - 1].element, Instruction::PushRet(_)) {
                    // call: the callee pops the return address; resume after the call with it gone
                    nd.a -= 1;
                    succ.push(fall);
                } else {
                    succ.push(target(a).unwrap());
                }
            }
            Instruction::JumpIfFalse(a) => {
                succ.push(target(a).unwrap());
                succ.push(fall);
            }
            Instruction::GoSub(a) => {
                succ.push(target(a).unwrap());
                succ.push(fall);
            }
            Instruction::Return(Some(a)) => succ.push(target(a).unwrap()),
            Instruction::ResumeLabel(a) => succ.push(target(a).unwrap()),
            Instruction::Return(None) | Instruction::Resume | Instruction::ResumeNext | Instruction::Halt | Instruction::Throw(_) => {}
            Instruction::PopRet => {
                if nd.v != 0 || nd.r != 0 || nd.p != 0 || nd.q != 0 || nd.s != 0 {
                    push("return-with-open-frames", format!("PopRet at {} reached with stack depths {:?} relative to the procedure entry", i, nd));
                }
            }
            _ => succ.push(fall),
        }
        if nd.v < 0 || nd.r < 0 || nd.p < 0 || nd.q < 0 || nd.s < 0 || nd.a < 0 {
            push(&format!("stack-underflow:{}", crate::impl_run::instruction_name(&ins[i].element)), format!("instruction {} {:?} underflows: {:?}", i, ins[i].element, nd));
            continue;
        }
        for s in succ {
            if s >= n {
                if !matches!(ins[i].element, Instruction::Halt) {
                    push("fall-off-end", format!("control falls off the end of the list after instruction {}", i));
                }
                continue;
            }
            match state[s] {
                None => {
                    state[s] = Some(nd);
                    work.push_back(s);
                }
                Some(prev) => {
                    if prev != nd {
                        // which kind of edge is it?
                        let by_user_jump = matches!(&ins[i].element, Instruction::Jump(_) | Instruction::GoSub(_) | Instruction::Return(Some(_)) | Instruction::ResumeLabel(_)) && !is_generated_label(&label_name(s));
                        let which = if prev.r != nd.r {
                            "register"
                        } else if prev.v != nd.v {
                            "value"
                        } else if prev.p != nd.p {
                            "var-path"
                        } else if prev.q != nd.q {
                            "by-ref"
                        } else if prev.s != nd.s {
                            "context"
                        } else {
                            "return-address"
                        };
                        if by_user_jump {
                            push(&format!("user-jump-across-frames:{}", which), format!("jump at {} to user label {} at {} arrives with depths {:?}, other paths with {:?}", i, label_name(s), s, nd, prev));
                        } else {
                            push(&format!("path-imbalance:{}", which), format!("instruction {} {:?} reaches {} with depths {:?}, another path with {:?}", i, ins[i].element, s, nd, prev));
                        }
                    }
                }
            }
        }
    }
    out_cell.into_inner()
}

fn render_instructions(igr: &InstructionGeneratorResult) -> Vec<String> {
    igr.instructions.iter().enumerate().map(|(i, ip)| format!("{} {:?} @{}:{}", i, ip.element, ip.pos().row(), ip.pos().col())).collect()
}

/// Checks one accepted program text. `ir_has_frame_jump`: the generator knows the program jumps out of a FOR/SELECT frame.
pub fn check_text(sh: &mut Shard, text: &str, source: &str, run_it: bool) -> Result<(), Violation> {
    let (p, ctx) = match impl_run::front(text) {
        Ok(x) => x,
        Err(e) => {
            sh.discard(&format!("rejected by the checker ({})", e.class().split(':').take(2).collect::<Vec<_>>().join(":")));
            return Ok(());
        }
    };
    sh.eval();
    let c = match impl_run::codegen(p, ctx) {
        Ok(c) => c,
        Err(e) => {
            return Err(Violation::new(e.class(), "code generation panicked on an accepted program", json!({"program": text, "source": source})).exp_obs("instruction list", e.to_json()));
        }
    };
    let n_ins = c.igr.instructions.len();
    let fingerprint = hash64(&render_instructions(&c.igr));
    let nested_or_call = c.igr.instructions.iter().any(|i| matches!(i.element, Instruction::PushRet(_) | Instruction::BuiltInFunction(_) | Instruction::BuiltInSub(_)))
        || c.igr.instructions.iter().filter(|i| matches!(i.element, Instruction::JumpIfFalse(_))).count() >= 2;
    if nested_or_call {
        sh.nontrivial(fingerprint);
    }
    sh.class(&format!("source:{}", source));
    sh.class_n("instructions-checked", n_ins as u64);
    let findings = check_instructions(&c.igr);
    if let Some((sig, what)) = findings.into_iter().next() {
        return Err(Violation::new(format!("static:{}", sig), format!("instruction list is not well-formed: {}", what), json!({"program": text, "source": source})).exp_obs("well-formed, balanced instruction list", what));
    }
    if run_it && !corpus::uses_machine(text) {
        let mut opts = RunOpts::budget(300_000);
        opts.depths = true;
        opts.stdin = b"1\n2\n3\nabc\n4\n5\n6\n7\n8\n".to_vec();
        sh.journal(text);
        let out = impl_run::run(c, &opts);
        match &out.end {
            End::Budget => sh.class("run:budget"),
            End::Ok => sh.class("run:ok"),
            End::Err { .. } => sh.class("run:error"),
            End::Panic(_) => sh.class("run:panic"),
        }
        if let Some(a) = out.depth_anomaly {
            return Err(Violation::new("dynamic:revisit-depth-mismatch", format!("stack depths differ between two visits of the same statement in the same activation: {}", a), json!({"program": text, "source": source})).exp_obs("same depth vector on every visit", a));
        }
        if let End::Panic(p) = &out.end {
            if p.msg.contains("underflow") {
                return Err(Violation::new(format!("dynamic:underflow:{}", p.sig()), "a VM stack underflowed", json!({"program": text, "source": source})).exp_obs("no underflow", json!({"panic":p.msg,"at":p.loc})));
            }
        }
    }
    Ok(())
}

impl Prop for C15 {
    fn id(&self) -> &'static str {
        "C15"
    }
    fn rule(&self) -> &'static str {
        "Every accepted program from the generators (core, calls, control-flow shapes) and every program text embedded in the repository's tests/fixtures is compiled; the instruction list is checked statically (targets resolved and in range, labels unique, branches inside their procedure, Halt/PopRet terminators, statement addresses ascending, abstract interpretation of the value/register/var-path/by-ref/context/return-address depth vector over all control-flow paths with join = equality) and dynamically (depth vector at each statement start equal on every revisit within the same activation). Non-trivial = the list contains a call or >= 2 conditional branches; distinct by hash of the rendered instruction list."
    }
    fn assumptions(&self) -> Vec<&'static str> {
        vec![
            "per-instruction stack effects are taken from Interpreter::interpret_one (DESIGN.md Appendix B)",
            "a callee is assumed balanced at its call sites; every procedure body is analysed from its entry with a zero baseline",
            "error-handler entry points are analysed with a zero baseline (stacks at the moment of an error are not modelled)",
            "absence of underflow/growth is shown for the generated and corpus programs only, not for all programs",
        ]
    }
    fn run(&self, sh: &mut Shard) {
        // corpus: every accepted program of the repository (each shard takes its share)
        let all = corpus::candidates();
        for (i, text) in all.iter().enumerate() {
            if !sh.mine(i as u64) {
                continue;
            }
            let r = check_text(sh, text, "corpus", true);
            if !sh.report(r) {
                return;
            }
        }
        sh.exhaustive("every program text embedded in the repository's tests and fixtures");
        let cases = sh.share(sh.tier.pick(12_000, 300_000));
        let cfg = GenCfg::core(sh.tier.pick(16, 36), sh.tier.pick(3, 5));
        sh.search(1, cases, 40, sh.tier.pick(300, 700), |sh, tape| {
            // generator and layout are drawn first: the positions of the constructs (which name the generated labels) vary with the layout
            let mut t = crate::engine::Tape::new(tape);
            let which = t.choose(4);
            let lay = if t.chance(1, 2) { Layout::plain() } else { crate::props::c11::random_layout(&mut t) };
            let used = t.used();
            let rest = &tape[used.min(tape.len())..];
            let (prog, source) = match which {
                0 | 1 => (Gen::new(rest, &cfg).core_program(), "gen-core"),
                2 => {
                    let mut c2 = GenCfg::core(8, 2);
                    c2.procs = true;
                    c2.data = false;
                    c2.deftypes = false;
                    (Gen::new(rest, &c2).calls_program(), "gen-calls")
                }
                _ => (Gen::new(rest, &GenCfg::core(20, 3)).control_program(), "gen-control"),
            };
            let r = render(&prog, &lay);
            sh.sample_sparse(499, || json!({"program": r.text}));
            check_text(sh, &r.text, source, true)
        });
        crate::props::shapes::run_all(sh, &mut |sh, text, source| check_text(sh, text, source, true));
        // dense position grids: the same kind of construct at hundreds of (row, column) positions of one program;
        // the generated labels of two constructs must never coincide, and "every branch lands where intended" means
        // that each construct prints its own token exactly once
        {
            use crate::props::shapes::{GRID_KINDS, grid_program};
            let variants = sh.tier.pick(4, 24);
            for k in 0..GRID_KINDS.len() * variants {
                if !sh.mine(k as u64) {
                    continue;
                }
                let (text, expected) = grid_program(k % GRID_KINDS.len(), k / GRID_KINDS.len());
                let source = format!("grid:{}", GRID_KINDS[k % GRID_KINDS.len()]);
                let r = check_text(sh, &text, &source, true).and_then(|_| match impl_run::run_src(&text, &RunOpts::budget(400_000)) {
                    Ok(out) if out.stdout_str() == expected => {
                        sh.class(&format!("grid-ran-as-expected:{}", source));
                        Ok(())
                    }
                    Err(e) => {
                        sh.discard(&format!("grid program not accepted ({}): {}", source, e.class()));
                        Ok(())
                    }
                    Ok(out) => Err(Violation::new(format!("dynamic:branch-lands-elsewhere:{}", source), "constructs at different positions interfere: not every construct ran its own body exactly once", json!({"program": text, "source": source})).exp_obs(expected.chars().take(200).collect::<String>(), out.stdout_str().chars().take(200).collect::<String>())),
                });
                if !sh.report(r) {
                    return;
                }
            }
        }
    }
    fn replay(&self, sh: &mut Shard, inputs: &Value) -> Result<(), Violation> {
        let text = inputs["program"].as_str().unwrap_or("");
        check_text(sh, text, inputs["source"].as_str().unwrap_or("replay"), true)
    }
}

#[allow(dead_code)]
fn unused(_: BTreeMap<u8, u8>) {}

//! C16 — PRINT lays text out by the column rules, on screen, printer and files alike.
//!
//! Histories of PRINT / LPRINT / PRINT #n statements (plain item lists and PRINT USING) are
//! generated over four devices; an independent model written from the property statement
//! (per-device column, 14-column zones, CR LF at the end unless the statement ends in a
//! separator, column restart after an embedded CR/LF, cyclic PRINT USING) yields the expected
//! bytes per device, which are compared with the captured stdout, LPT1 and the two files.
//!
//! Round-2 extension: the value list of PRINT USING takes `,` as well as `;` between the values and
//! at the end (the comma pads to the next zone exactly as in a plain PRINT), and the numeric values
//! of PRINT USING include exact rounding ties (x.5 in a field without decimals, binary-exact
//! k/2^(d+1) fractions in a field with d decimals: nearest, halves away from zero) and negative
//! values that round to zero (sign of the zero not pinned).

use serde_json::{Value, json};

use crate::engine::{Shard, Tape, Violation, hash64};
use crate::impl_run::{self, End, RunOpts};
use crate::props::Prop;

pub struct C16;

const FILE_A: &str = "c16a.txt";
const FILE_B: &str = "c16b.txt";
/// No line of any device grows beyond this column (the statement is silent about wrapping at 80).
const MAX_COL: usize = 75;
/// A comma never has to move into the zone that starts at column 70 or beyond.
const LAST_ZONE_START: usize = 56;
const ZONE: usize = 14;
const DEV_NAMES: [&str; 4] = ["screen", "lpt1", "file1", "file2"];
const SIG_COMMA_SIGN: &str = "using:comma-after-sign";
/// A field WITH decimals rounds a binary-exact tie to the even neighbour (`#.#` of .25 -> 0.2).
const SIG_TIE_EVEN: &str = "using:fraction-tie-half-even";
/// true: an exact tie in a field with decimals must go away from zero (QBasic rounds the decimal digits
/// half up; the tree rounds such ties to even, reported under SIG_TIE_EVEN). false: either neighbour is
/// accepted there (ties of fields without decimals stay pinned).
const PIN_FRACTION_TIES: bool = true;

// ---------------------------------------------------------------------------------------------
// expected output: token streams
// ---------------------------------------------------------------------------------------------

/// One piece of the expected byte stream of a device.
#[derive(Clone, Debug, PartialEq)]
enum Tok {
    /// Bytes without CR/LF, pinned exactly.
    Text(Vec<u8>),
    /// One of several renderings, directly followed by `Hard` (so the column after it is irrelevant).
    Alt(Vec<Vec<u8>>),
    /// End of a statement: exactly CR LF.
    Hard,
    /// One CR or LF byte embedded in a string: the statement pins the column restart, not the bytes
    /// written; any non-empty run of CR/LF bytes is accepted for a run that holds one of these.
    Soft,
}

#[derive(Clone, Default)]
struct DevModel {
    col: usize,
    toks: Vec<(Tok, usize)>,
    /// the last statement on this device ended in a separator
    pending: bool,
    /// a CR/LF was embedded in a string since the last end-of-statement newline
    since_soft: bool,
}

#[derive(Clone, Default, Debug)]
struct Features {
    carried: u32,
    carried_interleaved: u32,
    comma_ge12: u32,
    comma_cols: Vec<usize>,
    nl_before_comma: u32,
    cyclic_using: u32,
    cut_using: u32,
    exact_using: u32,
    nonintegral_last: u32,
    leading_sep: u32,
    consecutive_sep: u32,
    trailing_sep: u32,
    embedded_nl: u32,
    empty_string: u32,
    variables: u32,
    comma_sign_defect: u32,
    /// commas between / after the values of a PRINT USING statement
    using_comma: u32,
    using_comma_trailing: u32,
    /// ... next to non-empty literal text of the format (the order of text and padding matters)
    using_comma_at_literal: u32,
    using_mixed_seps: u32,
    /// exact rounding ties: field without decimals (even / odd integer part), field with decimals
    using_tie_int_even: u32,
    using_tie_int_odd: u32,
    using_tie_frac: u32,
    using_tie_negative: u32,
    /// the half-to-even rendering differs from the expected one (field with decimals)
    tie_even_defect: u32,
    using_neg_zero: u32,
    /// a comma had to move beyond the last zone the check covers (alternative literal order only)
    comma_far: bool,
    devices: [u32; 4],
}

impl Features {
    fn nontrivial(&self) -> bool {
        self.carried > 0
            || self.comma_ge12 > 0
            || self.nl_before_comma > 0
            || self.cyclic_using > 0
            || self.using_comma > 0
            || self.using_tie_int_even + self.using_tie_int_odd + self.using_tie_frac > 0
    }
}

impl DevModel {
    fn text(&mut self, bytes: &[u8], stmt: usize) {
        for &b in bytes {
            if b == 13 || b == 10 {
                self.toks.push((Tok::Soft, stmt));
                self.col = 0;
                self.since_soft = true;
            } else {
                match self.toks.last_mut() {
                    Some((Tok::Text(t), s)) if *s == stmt => t.push(b),
                    _ => self.toks.push((Tok::Text(vec![b]), stmt)),
                }
                self.col += 1;
            }
        }
    }
    fn comma(&mut self, stmt: usize, f: &mut Features) {
        if self.col >= 12 {
            f.comma_ge12 += 1;
        }
        f.comma_cols.push(self.col);
        if self.since_soft {
            f.nl_before_comma += 1;
        }
        // pad with blanks to the next multiple of 14 (a full zone when exactly on a boundary)
        let pad = ZONE - self.col % ZONE;
        let blanks = vec![b' '; pad];
        self.text(&blanks, stmt);
        if self.col > LAST_ZONE_START {
            f.comma_far = true;
        }
    }
    fn hard(&mut self, stmt: usize) {
        self.toks.push((Tok::Hard, stmt));
        self.col = 0;
        self.since_soft = false;
    }
    fn alt(&mut self, opts: Vec<Vec<u8>>, stmt: usize) {
        // renderings of one length may stand in the middle of a line (the column after them is known);
        // renderings of different lengths are only ever followed by the end of the statement
        if opts.iter().all(|o| o.len() == opts[0].len()) {
            self.col += opts[0].len();
        }
        self.toks.push((Tok::Alt(opts), stmt));
    }
}

// ---------------------------------------------------------------------------------------------
// histories
// ---------------------------------------------------------------------------------------------

#[derive(Clone, Debug)]
struct Val {
    /// expression text inside the PRINT statement
    src: String,
    /// assignment line emitted before the statement when the value is supplied through a variable
    pre: Option<String>,
    /// bytes PRINT writes for this item (strings may contain CR/LF)
    out: Vec<u8>,
    /// second admissible rendering (non-integral |v| < 1: with and without the `0` before the `.`)
    alt: Option<Vec<u8>>,
    numeric: bool,
}

#[derive(Clone, Debug)]
enum Arg {
    Semi,
    Comma,
    Val(Val),
}

#[derive(Clone, Debug)]
struct UsingVal {
    src: String,
    pre: Option<String>,
    out: Vec<u8>,
    /// what the known comma-after-sign defect prints instead
    defect_out: Option<Vec<u8>>,
    /// an exact tie in a field with decimals: what rounding half to even prints instead (when it differs)
    tie_even_out: Option<Vec<u8>>,
    /// a negative value that rounds to zero: the rendering with the other sign choice (same width)
    zero_alt: Option<Vec<u8>>,
    /// 0 no tie, 1 tie in a field without decimals and even integer part, 2 same with odd part, 3 field with decimals
    tie: u8,
    negative: bool,
}

/// Separator after a PRINT USING value.
#[derive(Clone, Copy, Debug, PartialEq)]
enum Sep {
    None,
    Semi,
    Comma,
}

/// Which reading of the statement the expectation is computed for.
#[derive(Clone, Copy, Default)]
struct Mode {
    /// known defect: comma printed between the sign and a 3k-digit number
    comma_sign: bool,
    /// defect: ties of a field with decimals go to the even neighbour
    tie_even: bool,
    /// literal text that follows a field is copied right after the value (before a comma's padding)
    /// instead of right before the next value / at the end of the statement (after the padding)
    eager_literals: bool,
}

#[derive(Clone, Debug)]
enum Kind {
    Plain(Vec<Arg>),
    Using {
        fmt_src: String,
        fmt_pre: Option<String>,
        /// literal text before field 0, 1, .. n-1 and after the last field (n+1 entries)
        lits: Vec<String>,
        vals: Vec<UsingVal>,
        /// separator between value i and value i+1 (true = comma), len = vals.len() - 1
        seps: Vec<bool>,
        trailing: Sep,
    },
}

#[derive(Clone, Debug)]
struct Stmt {
    dev: usize,
    kind: Kind,
}

fn head(dev: usize) -> &'static str {
    match dev {
        0 => "PRINT",
        1 => "LPRINT",
        2 => "PRINT #1,",
        _ => "PRINT #2,",
    }
}

impl Stmt {
    fn render(&self, out: &mut String) {
        match &self.kind {
            Kind::Plain(args) => {
                for a in args {
                    if let Arg::Val(v) = a {
                        if let Some(p) = &v.pre {
                            out.push_str(p);
                            out.push('\n');
                        }
                    }
                }
                out.push_str(head(self.dev));
                for a in args {
                    match a {
                        Arg::Semi => out.push(';'),
                        Arg::Comma => out.push(','),
                        Arg::Val(v) => {
                            out.push(' ');
                            out.push_str(&v.src);
                        }
                    }
                }
                out.push('\n');
            }
            Kind::Using { fmt_src, fmt_pre, vals, seps, trailing, .. } => {
                if let Some(p) = fmt_pre {
                    out.push_str(p);
                    out.push('\n');
                }
                for v in vals {
                    if let Some(p) = &v.pre {
                        out.push_str(p);
                        out.push('\n');
                    }
                }
                out.push_str(head(self.dev));
                out.push_str(" USING ");
                out.push_str(fmt_src);
                out.push(';');
                for (i, v) in vals.iter().enumerate() {
                    if i > 0 {
                        out.push(if seps[i - 1] { ',' } else { ';' });
                    }
                    out.push(' ');
                    out.push_str(&v.src);
                }
                match trailing {
                    Sep::None => {}
                    Sep::Semi => out.push(';'),
                    Sep::Comma => out.push(','),
                }
                out.push('\n');
            }
        }
    }

    fn tag(&self) -> &'static str {
        match self.kind {
            Kind::Plain(_) => "plain",
            Kind::Using { .. } => "using",
        }
    }
}

/// The PRINT model of the property statement, applied to one statement.
fn apply(st: &Stmt, idx: usize, devs: &mut [DevModel; 4], f: &mut Features, mode: Mode, last_dev: &mut Option<usize>) {
    let d = &mut devs[st.dev];
    f.devices[st.dev] += 1;
    if d.pending && d.col > 0 {
        f.carried += 1;
        if *last_dev != Some(st.dev) {
            f.carried_interleaved += 1;
        }
    }
    *last_dev = Some(st.dev);
    match &st.kind {
        Kind::Plain(args) => {
            if matches!(args.first(), Some(Arg::Semi | Arg::Comma)) {
                f.leading_sep += 1;
            }
            let mut prev_sep = false;
            for (i, a) in args.iter().enumerate() {
                match a {
                    Arg::Semi => {
                        if prev_sep {
                            f.consecutive_sep += 1;
                        }
                        prev_sep = true;
                    }
                    Arg::Comma => {
                        if prev_sep {
                            f.consecutive_sep += 1;
                        }
                        prev_sep = true;
                        d.comma(idx, f);
                    }
                    Arg::Val(v) => {
                        prev_sep = false;
                        if v.pre.is_some() {
                            f.variables += 1;
                        }
                        if v.out.is_empty() {
                            f.empty_string += 1;
                        }
                        if v.out.iter().any(|b| *b == 13 || *b == 10) {
                            f.embedded_nl += 1;
                        }
                        match &v.alt {
                            Some(alt) => {
                                // renderings of different lengths are only ever generated as the last item of a newline-terminated statement
                                assert!(i + 1 == args.len() || alt.len() == v.out.len());
                                d.alt(vec![v.out.clone(), alt.clone()], idx);
                            }
                            None => d.text(&v.out, idx),
                        }
                        if v.numeric && v.out.contains(&b'.') {
                            f.nonintegral_last += 1;
                        }
                    }
                }
            }
            if prev_sep {
                // the next PRINT to this device continues at the same column
                f.trailing_sep += 1;
                d.pending = true;
            } else {
                d.hard(idx);
                d.pending = false;
            }
        }
        Kind::Using { lits, vals, seps, trailing, fmt_pre, .. } => {
            let n = lits.len() - 1;
            if fmt_pre.is_some() {
                f.variables += 1;
            }
            let ncommas = seps.iter().filter(|c| **c).count() + (*trailing == Sep::Comma) as usize;
            if ncommas > 0 && ncommas < seps.len() + (*trailing != Sep::None) as usize {
                f.using_mixed_seps += 1;
            }
            for (i, v) in vals.iter().enumerate() {
                let fi = i % n;
                // literal text between the previous value and this one: the rest of the format after its
                // last field and the text before field 0 when the format restarts, else the text between
                // the two fields. A semicolon adds nothing; a comma pads to the next zone. The statement
                // does not say whether the text that FOLLOWS a field is copied with that field's value
                // (before the padding) or with the next one (after it): `mode.eager_literals`.
                let comma = i > 0 && seps[i - 1];
                let (with_prev, with_this): (&str, &str) = if i == 0 {
                    ("", lits[0].as_str())
                } else if fi == 0 {
                    if mode.eager_literals { (lits[n].as_str(), lits[0].as_str()) } else { ("", "") }
                } else if mode.eager_literals {
                    (lits[fi].as_str(), "")
                } else {
                    ("", lits[fi].as_str())
                };
                d.text(with_prev.as_bytes(), idx);
                if comma {
                    f.using_comma += 1;
                    let between_empty = if fi == 0 { lits[n].is_empty() && lits[0].is_empty() } else { lits[fi].is_empty() };
                    if !between_empty {
                        f.using_comma_at_literal += 1;
                    }
                    d.comma(idx, f);
                }
                if i > 0 && fi == 0 && !mode.eager_literals {
                    // values beyond the last field restart the format
                    d.text(lits[n].as_bytes(), idx);
                    d.text(lits[0].as_bytes(), idx);
                }
                d.text(with_this.as_bytes(), idx);
                if v.pre.is_some() {
                    f.variables += 1;
                }
                match v.tie {
                    1 => f.using_tie_int_even += 1,
                    2 => f.using_tie_int_odd += 1,
                    3 => f.using_tie_frac += 1,
                    _ => {}
                }
                if v.tie > 0 && v.negative {
                    f.using_tie_negative += 1;
                }
                if let (Some(x), false) = (&v.tie_even_out, PIN_FRACTION_TIES) {
                    d.alt(vec![v.out.clone(), x.clone()], idx);
                } else if let Some(z) = &v.zero_alt {
                    // the sign of a zero is not pinned: both renderings have the width of the field
                    f.using_neg_zero += 1;
                    d.alt(vec![v.out.clone(), z.clone()], idx);
                } else {
                    match (&v.defect_out, mode.comma_sign, &v.tie_even_out, mode.tie_even) {
                        (Some(x), true, _, _) => d.text(x, idx),
                        (_, _, Some(x), true) => d.text(x, idx),
                        _ => d.text(&v.out, idx),
                    }
                }
                if v.defect_out.is_some() {
                    f.comma_sign_defect += 1;
                }
                if v.tie_even_out.is_some() && PIN_FRACTION_TIES {
                    f.tie_even_defect += 1;
                }
            }
            if vals.len() > n {
                f.cyclic_using += 1;
            }
            let last = (vals.len() - 1) % n;
            let tail = lits[last + 1].as_bytes();
            if last == n - 1 {
                // the whole format was consumed: the literal text after the last field is copied
                f.exact_using += 1;
                if mode.eager_literals {
                    d.text(tail, idx);
                }
                if *trailing == Sep::Comma {
                    f.using_comma += 1;
                    f.using_comma_trailing += 1;
                    if !tail.is_empty() {
                        f.using_comma_at_literal += 1;
                    }
                    d.comma(idx, f);
                }
                if !mode.eager_literals {
                    d.text(tail, idx);
                }
            } else {
                // values ran out mid-format: the implementation's tests document "literal text up to the
                // next field"; the statement does not pin it, so printing nothing is accepted as well
                f.cut_using += 1;
                if !tail.is_empty() {
                    assert!(*trailing == Sep::None);
                    d.alt(vec![tail.to_vec(), Vec::new()], idx);
                } else if *trailing == Sep::Comma {
                    f.using_comma += 1;
                    f.using_comma_trailing += 1;
                    d.comma(idx, f);
                }
            }
            if *trailing != Sep::None {
                d.pending = true;
                f.trailing_sep += 1;
            } else {
                d.hard(idx);
                d.pending = false;
            }
        }
    }
}

struct Expected {
    devs: [Vec<(Tok, usize)>; 4],
    features: Features,
}

fn expected(hist: &[Stmt], mode: Mode) -> Expected {
    let mut devs: [DevModel; 4] = Default::default();
    let mut f = Features::default();
    let mut last_dev = None;
    for (i, st) in hist.iter().enumerate() {
        apply(st, i, &mut devs, &mut f, mode, &mut last_dev);
    }
    let [a, b, c, d] = devs;
    Expected { devs: [a.toks, b.toks, c.toks, d.toks], features: f }
}

fn program_text(hist: &[Stmt]) -> String {
    let mut s = String::new();
    s.push_str(&format!("OPEN \"{}\" FOR OUTPUT AS #1\n", FILE_A));
    s.push_str(&format!("OPEN \"{}\" FOR OUTPUT AS #2\n", FILE_B));
    for st in hist {
        st.render(&mut s);
    }
    s.push_str("CLOSE #1\nCLOSE #2\n");
    s
}

// ---------------------------------------------------------------------------------------------
// matching observed bytes against a token stream
// ---------------------------------------------------------------------------------------------

#[derive(Clone, Debug)]
enum M {
    Text(Vec<u8>),
    Alt(Vec<Vec<u8>>),
    Nl { hard: usize, soft: usize },
}

fn compile_toks(toks: &[(Tok, usize)]) -> Vec<(M, usize)> {
    let mut out: Vec<(M, usize)> = Vec::new();
    for (t, s) in toks {
        match t {
            Tok::Text(b) => {
                if b.is_empty() {
                    continue;
                }
                // not merged across statements: a mismatch is attributed to the statement whose text fails
                match out.last_mut() {
                    Some((M::Text(prev), ps)) if *ps == *s => prev.extend_from_slice(b),
                    _ => out.push((M::Text(b.clone()), *s)),
                }
            }
            Tok::Alt(o) => out.push((M::Alt(o.clone()), *s)),
            Tok::Hard => match out.last_mut() {
                Some((M::Nl { hard, .. }, _)) => *hard += 1,
                _ => out.push((M::Nl { hard: 1, soft: 0 }, *s)),
            },
            Tok::Soft => match out.last_mut() {
                Some((M::Nl { soft, .. }, _)) => *soft += 1,
                _ => out.push((M::Nl { hard: 0, soft: 1 }, *s)),
            },
        }
    }
    out
}

fn rec(items: &[(M, usize)], i: usize, obs: &[u8], p: usize, best: &mut (usize, usize)) -> bool {
    if (i, p) > *best {
        *best = (i, p);
    }
    if i == items.len() {
        return p == obs.len();
    }
    match &items[i].0 {
        M::Text(t) => obs[p..].starts_with(t) && rec(items, i + 1, obs, p + t.len(), best),
        M::Alt(opts) => opts.iter().any(|o| obs[p..].starts_with(o) && rec(items, i + 1, obs, p + o.len(), best)),
        M::Nl { hard, soft } => {
            if *soft == 0 {
                let mut q = p;
                for _ in 0..*hard {
                    if !obs[q..].starts_with(b"\r\n") {
                        return false;
                    }
                    q += 2;
                }
                rec(items, i + 1, obs, q, best)
            } else {
                let mut q = p;
                while q < obs.len() && (obs[q] == 13 || obs[q] == 10) {
                    q += 1;
                }
                q > p && rec(items, i + 1, obs, q, best)
            }
        }
    }
}

/// Ok, or the index of the statement at which matching got stuck.
fn match_stream(toks: &[(Tok, usize)], obs: &[u8]) -> Result<(), Option<usize>> {
    let items = compile_toks(toks);
    let mut best = (0usize, 0usize);
    if rec(&items, 0, obs, 0, &mut best) {
        return Ok(());
    }
    let at = if best.0 < items.len() { Some(items[best.0].1) } else { items.last().map(|x| x.1) };
    Err(at)
}

/// Class of an abnormal end without positions (one root cause, one signature).
fn end_class(e: &End) -> String {
    match e {
        End::Ok => "ok".to_string(),
        End::Err { name, .. } => name.split(|c: char| !(c.is_alphanumeric() || c == '_')).next().unwrap_or("").to_string(),
        End::Panic(p) => format!("panic:{}", p.sig()),
        End::Budget => "budget".to_string(),
    }
}

fn esc(b: &[u8]) -> String {
    let mut s = String::new();
    for &c in b {
        match c {
            13 => s.push_str("<CR>"),
            10 => s.push_str("<LF>"),
            32..=126 => s.push(c as char),
            _ => s.push_str(&format!("<{:02X}>", c)),
        }
    }
    s
}

fn show_toks(toks: &[(Tok, usize)]) -> String {
    let mut s = String::new();
    for (t, _) in toks {
        match t {
            Tok::Text(b) => s.push_str(&esc(b)),
            Tok::Alt(o) => {
                s.push('{');
                s.push_str(&o.iter().map(|x| esc(x)).collect::<Vec<_>>().join("|"));
                s.push('}');
            }
            Tok::Hard => s.push_str("<CR><LF>"),
            Tok::Soft => s.push_str("<nl>"),
        }
    }
    s
}

fn toks_to_json(toks: &[(Tok, usize)]) -> Value {
    Value::Array(
        toks.iter()
            .map(|(t, s)| match t {
                Tok::Text(b) => json!({"t": String::from_utf8_lossy(b), "s": s}),
                Tok::Alt(o) => json!({"alt": o.iter().map(|x| String::from_utf8_lossy(x).to_string()).collect::<Vec<_>>(), "s": s}),
                Tok::Hard => json!({"nl": "hard", "s": s}),
                Tok::Soft => json!({"nl": "soft", "s": s}),
            })
            .collect(),
    )
}

fn toks_from_json(v: &Value) -> Vec<(Tok, usize)> {
    let mut out = Vec::new();
    for e in v.as_array().map(|a| a.as_slice()).unwrap_or(&[]) {
        let s = e["s"].as_u64().unwrap_or(0) as usize;
        if let Some(t) = e["t"].as_str() {
            out.push((Tok::Text(t.as_bytes().to_vec()), s));
        } else if let Some(a) = e["alt"].as_array() {
            out.push((Tok::Alt(a.iter().map(|x| x.as_str().unwrap_or("").as_bytes().to_vec()).collect()), s));
        } else if e["nl"].as_str() == Some("hard") {
            out.push((Tok::Hard, s));
        } else {
            out.push((Tok::Soft, s));
        }
    }
    out
}

// ---------------------------------------------------------------------------------------------
// running one case
// ---------------------------------------------------------------------------------------------

type DevToks = [Vec<(Tok, usize)>; 4];

/// Another reading of the history: `sig` None = equally admissible under the statement (accepted),
/// Some = the model of a defect with its own narrow signature.
struct AltExpect {
    label: String,
    sig: Option<String>,
    what: String,
    devs: DevToks,
}

struct Case {
    program: String,
    expect: DevToks,
    alts: Vec<AltExpect>,
    tags: Vec<String>,
}

fn dev_json(d: &DevToks) -> Value {
    json!({"screen": toks_to_json(&d[0]), "lpt1": toks_to_json(&d[1]), "file1": toks_to_json(&d[2]), "file2": toks_to_json(&d[3])})
}

fn devs_from_json(e: &Value) -> DevToks {
    [toks_from_json(&e["screen"]), toks_from_json(&e["lpt1"]), toks_from_json(&e["file1"]), toks_from_json(&e["file2"])]
}

const WHAT_COMMA_SIGN: &str = "PRINT USING with a thousands comma prints the comma between the minus sign and a 3- or 6-digit number";
const WHAT_TIE_EVEN: &str = "PRINT USING with a field that has decimals rounds a value exactly half-way between two renderings to the even neighbour instead of away from zero";

impl Case {
    /// None when the alternative literal order would leave the columns the check covers.
    fn from_history(hist: &[Stmt]) -> Option<(Case, Features)> {
        let e = expected(hist, Mode::default());
        let mut alts = Vec::new();
        if e.features.using_comma_at_literal > 0 {
            let x = expected(hist, Mode { eager_literals: true, ..Mode::default() });
            if x.features.comma_far || !max_col_ok(&x) {
                return None;
            }
            if x.devs != e.devs {
                alts.push(AltExpect { label: "literal text copied before the comma's padding".to_string(), sig: None, what: String::new(), devs: x.devs });
            }
        }
        if e.features.tie_even_defect > 0 {
            let x = expected(hist, Mode { tie_even: true, ..Mode::default() });
            alts.push(AltExpect { label: "ties of fields with decimals rounded to even".to_string(), sig: Some(SIG_TIE_EVEN.to_string()), what: WHAT_TIE_EVEN.to_string(), devs: x.devs });
        }
        if e.features.comma_sign_defect > 0 {
            let x = expected(hist, Mode { comma_sign: true, ..Mode::default() });
            alts.push(AltExpect { label: "comma between sign and digits".to_string(), sig: Some(SIG_COMMA_SIGN.to_string()), what: WHAT_COMMA_SIGN.to_string(), devs: x.devs });
        }
        Some((Case { program: program_text(hist), expect: e.devs, alts, tags: hist.iter().map(|s| s.tag().to_string()).collect() }, e.features))
    }

    fn inputs(&self) -> Value {
        json!({
            "kind": "history",
            "program": self.program,
            "expect": dev_json(&self.expect),
            "expect_alternatives": self.alts.iter().map(|a| json!({"label": a.label, "sig": a.sig, "what": a.what, "expect": dev_json(&a.devs)})).collect::<Vec<_>>(),
            "statement_kinds": self.tags,
        })
    }

    fn from_inputs(v: &Value) -> Case {
        let mut alts = Vec::new();
        for a in v["expect_alternatives"].as_array().map(|a| a.as_slice()).unwrap_or(&[]) {
            alts.push(AltExpect {
                label: a["label"].as_str().unwrap_or("").to_string(),
                sig: a["sig"].as_str().map(|x| x.to_string()),
                what: a["what"].as_str().unwrap_or("").to_string(),
                devs: devs_from_json(&a["expect"]),
            });
        }
        // replay files written before the alternatives were generalised
        let d = &v["expect_under_known_comma_defect"];
        if !d.is_null() {
            alts.push(AltExpect { label: "comma between sign and digits".to_string(), sig: Some(SIG_COMMA_SIGN.to_string()), what: WHAT_COMMA_SIGN.to_string(), devs: devs_from_json(d) });
        }
        Case {
            program: v["program"].as_str().unwrap_or("").to_string(),
            expect: devs_from_json(&v["expect"]),
            alts,
            tags: v["statement_kinds"].as_array().map(|a| a.iter().map(|x| x.as_str().unwrap_or("").to_string()).collect()).unwrap_or_default(),
        }
    }

    fn run(&self) -> Result<(), Violation> {
        let _ = std::fs::remove_file(FILE_A);
        let _ = std::fs::remove_file(FILE_B);
        let out = match impl_run::run_src(&self.program, &RunOpts::budget(2_000_000)) {
            Err(e) => {
                return Err(Violation::new(format!("program-rejected:{}", e.class()), "a program of valid PRINT statements was rejected", self.inputs()).exp_obs("accepted", e.to_json()));
            }
            Ok(o) => o,
        };
        let fa = std::fs::read(FILE_A).unwrap_or_default();
        let fb = std::fs::read(FILE_B).unwrap_or_default();
        let _ = std::fs::remove_file(FILE_A);
        let _ = std::fs::remove_file(FILE_B);
        if out.end == End::Budget {
            // inconclusive, never produced by these straight-line programs
            return Ok(());
        }
        if out.end != End::Ok {
            return Err(Violation::new(format!("run-end:{}", end_class(&out.end)), "a program of valid PRINT statements did not run to completion", self.inputs()).exp_obs("ok", out.end.to_json()));
        }
        let obs: [&[u8]; 4] = [&out.stdout, &out.lpt1, &fa, &fb];
        let mut bad: Option<(usize, Option<usize>)> = None;
        for d in 0..4 {
            if let Err(at) = match_stream(&self.expect[d], obs[d]) {
                bad = Some((d, at));
                break;
            }
        }
        let Some((d, at)) = bad else {
            return Ok(());
        };
        // another admissible reading, or the model of a defect with its own signature?
        for a in &self.alts {
            if (0..4).all(|k| match_stream(&a.devs[k], obs[k]).is_ok()) {
                match &a.sig {
                    None => return Ok(()),
                    Some(sig) => {
                        return Err(Violation::new(sig.clone(), a.what.clone(), self.inputs()).exp_obs(show_toks(&self.expect[d]), esc(obs[d])));
                    }
                }
            }
        }
        let tag = at.and_then(|i| self.tags.get(i).cloned()).unwrap_or_else(|| "plain".to_string());
        let expected_all: Vec<String> = (0..4).map(|k| format!("{}: {}", DEV_NAMES[k], show_toks(&self.expect[k]))).collect();
        let observed_all: Vec<String> = (0..4).map(|k| format!("{}: {}", DEV_NAMES[k], esc(obs[k]))).collect();
        Err(Violation::new(format!("layout:{}", tag), format!("bytes on {} differ from the PRINT column model (first at statement #{})", DEV_NAMES[d], at.map(|x| x as i64).unwrap_or(-1)), self.inputs())
            .exp_obs(json!(expected_all), json!(observed_all)))
    }
}

// ---------------------------------------------------------------------------------------------
// generators
// ---------------------------------------------------------------------------------------------

const STR_ALPHABET: &[u8] = b"ABCDEFGHIJKLMNOPQRSTUVWXYZabcdefghijklmnopqrstuvwxyz0123456789 .,;:!#-+*/=()<>?_%&$";
const TARGET_COLS: [usize; 10] = [12, 13, 14, 15, 27, 28, 29, 41, 42, 43];

struct Gen<'a, 'b> {
    t: &'a mut Tape<'b>,
    nvar: usize,
}

fn pow10(n: usize) -> i64 {
    10i64.pow(n as u32)
}

fn str_expr(bytes: &[u8]) -> String {
    // "abc" + CHR$(13) + "d"
    let mut parts: Vec<String> = Vec::new();
    let mut cur = String::new();
    for &b in bytes {
        if b == 13 || b == 10 {
            if !cur.is_empty() {
                parts.push(format!("\"{}\"", cur));
                cur.clear();
            }
            parts.push(format!("CHR$({})", b));
        } else {
            cur.push(b as char);
        }
    }
    if !cur.is_empty() || parts.is_empty() {
        parts.push(format!("\"{}\"", cur));
    }
    parts.join(" + ")
}

/// Would printing `bytes` from column `c` keep every line within MAX_COL?
fn fits(c: usize, bytes: &[u8]) -> bool {
    let mut col = c;
    for &b in bytes {
        if b == 13 || b == 10 {
            col = 0;
        } else {
            col += 1;
            if col > MAX_COL {
                return false;
            }
        }
    }
    true
}

fn col_after(c: usize, bytes: &[u8]) -> usize {
    let mut col = c;
    for &b in bytes {
        if b == 13 || b == 10 { col = 0 } else { col += 1 }
    }
    col
}

impl<'a, 'b> Gen<'a, 'b> {
    fn var(&mut self, suffix: &str) -> String {
        self.nvar += 1;
        format!("V{}{}", self.nvar, suffix)
    }

    fn chars(&mut self, n: usize) -> Vec<u8> {
        (0..n).map(|_| *self.t.pick(STR_ALPHABET)).collect()
    }

    fn string_val(&mut self, bytes: Vec<u8>) -> Val {
        let expr = str_expr(&bytes);
        if self.t.chance(1, 3) {
            let name = self.var("$");
            Val { src: name.clone(), pre: Some(format!("{} = {}", name, expr)), out: bytes, alt: None, numeric: false }
        } else {
            Val { src: expr, pre: None, out: bytes, alt: None, numeric: false }
        }
    }

    /// Integral number of one of the four types. ty: 0 INTEGER, 1 LONG, 2 SINGLE, 3 DOUBLE.
    fn integral(&mut self, ty: usize) -> Val {
        let (lo_d, hi_d, cap): (usize, usize, i64) = match ty {
            0 => (1, 5, 32767),
            1 => (5, 10, 2147483647),
            2 => (1, 6, 999_999),
            _ => (1, 9, 999_999_999),
        };
        if ty >= 2 && self.t.chance(1, 10) {
            // a negative zero (the negation of a zero variable, zero times a negative number): a zero like any other - it is
            // written with a leading space (or, with its sign, as -0) and a trailing space
            let sfx = if ty == 2 { "!" } else { "#" };
            let name = self.var(sfx);
            let src = match self.t.choose(3) {
                0 => format!("-{}", name),
                1 => format!("{} * -3.5{}", name, if ty == 2 { "" } else { "#" }),
                _ => format!("-2.5{} * {}", if ty == 2 { "" } else { "#" }, name),
            };
            return Val { src, pre: Some(format!("{} = 0", name)), out: b" 0 ".to_vec(), alt: Some(b"-0 ".to_vec()), numeric: true };
        }
        let nd = self.t.range(lo_d as i64, hi_d as i64) as usize;
        let lo = if nd == 1 { 0 } else { pow10(nd - 1) };
        let lo = if ty == 1 { lo.max(32768) } else { lo };
        let hi = (pow10(nd) - 1).min(cap);
        let mag = self.t.range(lo, hi.max(lo));
        let neg = self.t.chance(1, 2) && mag != 0;
        let v = if neg { -mag } else { mag };
        // number -> ' ' or '-', digits, ' '
        let out = if neg { format!("-{} ", mag) } else { format!(" {} ", mag) }.into_bytes();
        let lit = match ty {
            0 | 1 => format!("{}", v),
            2 => format!("{}.0", v),
            _ => format!("{}.0#", v),
        };
        if self.t.chance(1, 3) {
            let suffix = match ty {
                0 => "%",
                1 => "&",
                2 => {
                    if self.t.chance(1, 2) { "!" } else { "" }
                }
                _ => "#",
            };
            let name = self.var(suffix);
            Val { src: name.clone(), pre: Some(format!("{} = {}", name, v)), out, alt: None, numeric: true }
        } else {
            Val { src: lit, pre: None, out, alt: None, numeric: true }
        }
    }

    /// Non-integral SINGLE or DOUBLE with few digits (its shortest decimal form is the text itself).
    fn nonintegral(&mut self) -> Val {
        let double = self.t.chance(1, 2);
        let ni = self.t.choose(4); // integer digits 0..3
        let ip = if ni == 0 { 0 } else { self.t.range(pow10(ni - 1), pow10(ni) - 1) };
        let nf = 1 + self.t.choose(3);
        let mut frac = String::new();
        for k in 0..nf {
            let dgt = if k + 1 == nf { 1 + self.t.choose(9) } else { self.t.choose(10) };
            frac.push((b'0' + dgt as u8) as char);
        }
        let neg = self.t.chance(1, 2);
        let sign = if neg { "-" } else { " " };
        let msign = if neg { "-" } else { "" };
        let (out, alt) = if ip == 0 {
            (format!("{}.{} ", sign, frac).into_bytes(), Some(format!("{}0.{} ", sign, frac).into_bytes()))
        } else {
            (format!("{}{}.{} ", sign, ip, frac).into_bytes(), None)
        };
        let digits = if ip == 0 && self.t.chance(1, 2) { format!(".{}", frac) } else { format!("{}.{}", ip, frac) };
        let lit = format!("{}{}{}", msign, digits, if double { "#" } else { "" });
        if self.t.chance(1, 3) {
            let name = self.var(if double { "#" } else { "!" });
            Val { src: name.clone(), pre: Some(format!("{} = {}", name, lit)), out, alt, numeric: true }
        } else {
            Val { src: lit, pre: None, out, alt, numeric: true }
        }
    }

    fn plain(&mut self, dev: usize, c0: usize) -> Stmt {
        let mut args: Vec<Arg> = Vec::new();
        let mut c = c0;
        let mut prev_val = false;
        let mut force_comma = false;
        let steps = self.t.choose(8);
        let mut k = 0;
        while k < steps || force_comma {
            k += 1;
            if prev_val || force_comma {
                let comma = force_comma || self.t.chance(1, 2);
                force_comma = false;
                if comma {
                    if c / ZONE * ZONE + ZONE > LAST_ZONE_START {
                        break;
                    }
                    c = c / ZONE * ZONE + ZONE;
                    args.push(Arg::Comma);
                } else {
                    args.push(Arg::Semi);
                }
                prev_val = false;
                continue;
            }
            let w = self.t.choose(13);
            let val = match w {
                0 => {
                    let n = 1 + self.t.choose(8);
                    let b = self.chars(n);
                    self.string_val(b)
                }
                1 => self.integral(0),
                2 => {
                    // a string sized so that the column lands on a zone boundary +-1 before a comma
                    let cands: Vec<usize> = TARGET_COLS.iter().cloned().filter(|x| *x >= c && *x - c <= 30).collect();
                    if cands.is_empty() {
                        let b = self.chars(1);
                        self.string_val(b)
                    } else {
                        let target = *self.t.pick(&cands);
                        force_comma = true;
                        let b = self.chars(target - c);
                        self.string_val(b)
                    }
                }
                3 => self.integral(1),
                4 => self.integral(2),
                5 => self.integral(3),
                6 => {
                    // embedded CR, LF or CRLF
                    let a = self.t.choose(11);
                    let nl: &[u8] = match self.t.choose(3) {
                        0 => b"\r",
                        1 => b"\n",
                        _ => b"\r\n",
                    };
                    let z = match self.t.choose(8) {
                        0 => 0,
                        1 => 12,
                        2 => 13,
                        3 => 14,
                        4 => 15,
                        _ => self.t.choose(12),
                    };
                    let mut b = self.chars(a);
                    b.extend_from_slice(nl);
                    let tail = self.chars(z);
                    b.extend_from_slice(&tail);
                    if self.t.chance(2, 3) {
                        force_comma = true;
                    }
                    self.string_val(b)
                }
                7 => self.string_val(Vec::new()),
                8 => {
                    let n = 9 + self.t.choose(22);
                    let b = self.chars(n);
                    self.string_val(b)
                }
                9 => {
                    args.push(Arg::Semi);
                    continue;
                }
                _ => {
                    if c / ZONE * ZONE + ZONE > LAST_ZONE_START {
                        break;
                    }
                    c = c / ZONE * ZONE + ZONE;
                    args.push(Arg::Comma);
                    continue;
                }
            };
            if !fits(c, &val.out) {
                break;
            }
            c = col_after(c, &val.out);
            args.push(Arg::Val(val));
            prev_val = true;
        }
        // non-integral values only as the last item of a line
        if let Some(Arg::Val(v)) = args.last() {
            if v.numeric && self.t.chance(1, 3) {
                let before = c - v.out.len();
                let nv = self.nonintegral();
                let longest = nv.alt.as_ref().map(|a| a.len()).unwrap_or(nv.out.len());
                if before + longest <= MAX_COL {
                    args.pop();
                    args.push(Arg::Val(nv));
                }
            }
        }
        Stmt { dev, kind: Kind::Plain(args) }
    }

    // ---------------------------------------------------------------- PRINT USING

    fn using(&mut self, dev: usize, c0: usize) -> Stmt {
        const LIT_BEFORE: [&str; 7] = ["", " ", "A: ", "x=", "Total ", "n", " : "];
        const LIT_AFTER: [&str; 5] = ["", " C", " end", "=", " units "];
        #[derive(Clone)]
        enum Field {
            Num { int_fmt: String, dec: usize },
            Str(usize),
            Bang,
        }
        let nfields = 1 + self.t.choose(4);
        let mut fields: Vec<Field> = Vec::new();
        let mut lits: Vec<String> = Vec::new();
        for i in 0..nfields {
            let fld = match self.t.choose(5) {
                0 => Field::Num { int_fmt: "#".repeat(1 + self.t.choose(6)), dec: 0 },
                1 => Field::Num { int_fmt: "#".repeat(1 + self.t.choose(5)), dec: 1 + self.t.choose(3) },
                2 => {
                    // commas at the thousands positions only: #,### ##,### ###,### #,###,###
                    let h = 4 + self.t.choose(4);
                    let mut s = String::new();
                    for k in 0..h {
                        if k > 0 && (h - k) % 3 == 0 {
                            s.push(',');
                        }
                        s.push('#');
                    }
                    Field::Num { int_fmt: s, dec: self.t.choose(3) }
                }
                3 => Field::Str(2 + self.t.choose(7)),
                _ => Field::Bang,
            };
            let mut lit = self.t.pick(&LIT_BEFORE).to_string();
            if i > 0 && lit.is_empty() && matches!(fld, Field::Num { .. }) && matches!(fields[i - 1], Field::Num { .. }) {
                lit = " ".to_string();
            }
            lits.push(lit);
            fields.push(fld);
        }
        lits.push(self.t.pick(&LIT_AFTER).to_string());
        let mut fmt = String::new();
        for i in 0..nfields {
            fmt.push_str(&lits[i]);
            match &fields[i] {
                Field::Num { int_fmt, dec } => {
                    fmt.push_str(int_fmt);
                    if *dec > 0 {
                        fmt.push('.');
                        fmt.push_str(&"#".repeat(*dec));
                    }
                }
                Field::Str(w) => {
                    fmt.push('\\');
                    fmt.push_str(&" ".repeat(*w - 2));
                    fmt.push('\\');
                }
                Field::Bang => fmt.push('!'),
            }
        }
        fmt.push_str(&lits[nfields]);
        let (fmt_src, fmt_pre) = if self.t.chance(1, 3) {
            let name = self.var("$");
            (name.clone(), Some(format!("{} = \"{}\"", name, fmt)))
        } else {
            (format!("\"{}\"", fmt), None)
        };
        let want = 1 + self.t.choose(6);
        // separators of the value list: 0 only semicolons, 1 each one a comma or a semicolon, 2 only commas
        let sep_mode = self.t.choose(3);
        let mut vals: Vec<UsingVal> = Vec::new();
        let mut seps: Vec<bool> = Vec::new();
        let mut c = c0;
        let mut nonascii_last = false;
        for i in 0..want {
            if nonascii_last {
                break;
            }
            let fi = i % nfields;
            let v = match fields[fi].clone() {
                Field::Num { int_fmt, dec } => self.using_number(&int_fmt, dec),
                Field::Str(w) => {
                    let n = self.t.choose(13);
                    let b = self.chars(n);
                    let out = render_str_field(&b, w);
                    let sv = self.string_val(b);
                    UsingVal { src: sv.src, pre: sv.pre, out, defect_out: None, tie_even_out: None, zero_alt: None, tie: 0, negative: false }
                }
                Field::Bang => {
                    let n = 1 + self.t.choose(8);
                    let mut b = self.chars(n);
                    let mut out = vec![b[0]];
                    if self.t.chance(1, 6) {
                        // a first character above 127: the field shows that character (the statement says nothing about its
                        // width in columns, so nothing follows it in this statement)
                        b[0] = *self.t.pick(&[0xE9u8, 0xC9, 0xD8, 0xDF]);
                        out = (b[0] as char).to_string().into_bytes();
                        nonascii_last = true;
                    }
                    let sv = self.string_val(b);
                    UsingVal { src: sv.src, pre: sv.pre, out, defect_out: None, tie_even_out: None, zero_alt: None, tie: 0, negative: false }
                }
            };
            // the separator before this value: a comma first moves to the next zone
            let mut from = c;
            let mut comma = false;
            if i > 0 {
                comma = match sep_mode {
                    0 => false,
                    1 => self.t.chance(1, 2),
                    _ => true,
                };
                if comma {
                    let z = c / ZONE * ZONE + ZONE;
                    if z > LAST_ZONE_START {
                        comma = false;
                    } else {
                        from = z;
                    }
                }
            }
            // length of everything this value adds, plus the longest possible tail
            let mut add = lits[fi].len() + v.out.len();
            if fi == 0 && i > 0 {
                add += lits[nfields].len();
            }
            let tail = lits[fi + 1].len();
            if from + add + tail > MAX_COL && !vals.is_empty() {
                break;
            }
            c = from + add;
            if i > 0 {
                seps.push(comma);
            }
            vals.push(v);
        }
        let last = (vals.len() - 1) % nfields;
        let cut_with_tail = last != nfields - 1 && !lits[last + 1].is_empty();
        let mut trailing = Sep::None;
        if !cut_with_tail && !nonascii_last && self.t.chance(1, 3) {
            trailing = Sep::Semi;
            if sep_mode > 0 && self.t.chance(1, 2) && c / ZONE * ZONE + ZONE <= LAST_ZONE_START {
                trailing = Sep::Comma;
            }
        }
        Stmt { dev, kind: Kind::Using { fmt_src, fmt_pre, lits, vals, seps, trailing } }
    }

    /// A value that fits the numeric field, with its expected rendering: right-justified in the field,
    /// rounded to the field's decimals. Besides ordinary values (first discarded digit never 5): exact ties
    /// (the discarded part is exactly one half of the last kept place AND the value is exact in binary) and
    /// negative values that round to zero.
    fn using_number(&mut self, int_fmt: &str, dec: usize) -> UsingVal {
        let h = int_fmt.bytes().filter(|b| *b == b'#').count();
        let ty = self.t.choose(4); // 0 INTEGER 1 LONG 2 SINGLE 3 DOUBLE
        let mut neg = h >= 2 && self.t.chance(1, 3);
        // value class of SINGLE / DOUBLE values: 1 exact tie, 2 negative and rounding to zero, else ordinary
        let special = if ty >= 2 { self.t.choose(6) } else { 0 };
        let budget = if ty == 2 { 6usize } else { 12 };
        let mut maxn = (h - neg as usize).min(match ty {
            0 => 5,
            2 => 6,
            _ => 9,
        });
        if special == 1 {
            // integer digits + kept decimals + the 5 stay within the digits the type holds exactly
            maxn = maxn.min(budget - dec - 1);
        }
        let n = 1 + self.t.choose(maxn);
        let lo = if n == 1 { 0 } else { pow10(n - 1) };
        let mut hi = pow10(n) - 1;
        if ty == 0 {
            hi = hi.min(32767);
        }
        let mut ip = self.t.range(lo, hi);
        // fractional digits of the source value
        let mut frac: Vec<u8> = Vec::new();
        if special == 1 {
            // k / 2^(dec+1) with k odd: dec+1 decimal digits, the last one 5, exact in SINGLE and DOUBLE
            let k = 2 * self.t.choose(1 << dec) as i64 + 1;
            let digits = format!("{:0w$}", k * 5i64.pow(dec as u32 + 1), w = dec + 1);
            frac = digits.bytes().map(|b| b - b'0').collect();
        } else if special == 2 && h >= 2 {
            neg = true;
            ip = 0;
            frac = vec![0; dec];
            frac.push(*self.t.pick(&[1u8, 2, 3, 4]));
        } else if ty >= 2 {
            let mut fd = self.t.choose(dec + 3);
            if n + fd.max(dec) > budget {
                fd = 0; // integral values are exact in either type
            }
            for k in 0..fd {
                let dgt = if k == dec { *self.t.pick(&[1u8, 2, 3, 6, 7, 8]) } else { self.t.choose(10) as u8 };
                frac.push(dgt);
            }
        }
        let r = match render_numeric(int_fmt, dec, &mut neg, ip, &frac) {
            Some(x) => x,
            None => {
                // rounding up would not fit any more: drop the discarded digits from the source value instead
                frac.truncate(dec);
                render_numeric(int_fmt, dec, &mut neg, ip, &frac).expect("fits without rounding")
            }
        };
        // source text
        if ty < 2 {
            frac.clear();
        }
        let mag = if ty < 2 {
            format!("{}", ip)
        } else if frac.is_empty() {
            format!("{}.0", ip)
        } else {
            format!("{}.{}", ip, frac.iter().map(|d| (b'0' + d) as char).collect::<String>())
        };
        let lit = format!("{}{}{}", if neg { "-" } else { "" }, mag, if ty == 3 { "#" } else { "" });
        let (src, pre) = if self.t.chance(1, 3) {
            let name = self.var(["%", "&", "!", "#"][ty]);
            (name.clone(), Some(format!("{} = {}", name, lit)))
        } else {
            (lit, None)
        };
        UsingVal { src, pre, out: r.out, defect_out: r.comma_sign, tie_even_out: r.tie_even, zero_alt: r.zero_alt, tie: r.tie, negative: neg }
    }

    fn history(&mut self) -> Vec<Stmt> {
        let n = 1 + self.t.choose(12);
        let mut cols = [0usize; 4];
        let mut hist: Vec<Stmt> = Vec::new();
        let mut scratch: [DevModel; 4] = Default::default();
        let mut f = Features::default();
        let mut last_dev = None;
        for _ in 0..n {
            let dev = self.t.choose(4);
            let st = if self.t.chance(1, 4) { self.using(dev, cols[dev]) } else { self.plain(dev, cols[dev]) };
            apply(&st, hist.len(), &mut scratch, &mut f, Mode::default(), &mut last_dev);
            cols[dev] = scratch[dev].col;
            hist.push(st);
        }
        hist
    }
}

struct NumOut {
    out: Vec<u8>,
    /// what the known comma-after-sign defect prints instead
    comma_sign: Option<Vec<u8>>,
    /// exact tie in a field with decimals whose kept part is even: what rounding half to even prints
    tie_even: Option<Vec<u8>>,
    /// negative value that rounds to zero: the rendering with the sign (`out` is the one without)
    zero_alt: Option<Vec<u8>>,
    tie: u8,
}

/// Digits (sign, grouped integer part, decimals) right-justified in the field; None when they do not fit.
fn layout_numeric(int_fmt: &str, dec: usize, neg: bool, kept: i64) -> Option<(Vec<u8>, String, String, usize)> {
    let h = int_fmt.bytes().filter(|b| *b == b'#').count();
    let commas = int_fmt.contains(',');
    let width = int_fmt.len() + if dec > 0 { 1 + dec } else { 0 };
    let r_ip = kept / pow10(dec);
    let r_frac = kept % pow10(dec);
    let digits = r_ip.to_string();
    if digits.len() + neg as usize > h {
        return None;
    }
    let grouped = if commas {
        let mut g = String::new();
        for (k, ch) in digits.chars().enumerate() {
            if k > 0 && (digits.len() - k) % 3 == 0 {
                g.push(',');
            }
            g.push(ch);
        }
        g
    } else {
        digits.clone()
    };
    let fracs = if dec > 0 { format!(".{:0w$}", r_frac, w = dec) } else { String::new() };
    let body = format!("{}{}{}", if neg { "-" } else { "" }, grouped, fracs);
    assert!(body.len() <= width);
    Some((format!("{:>w$}", body, w = width).into_bytes(), grouped, fracs, digits.len()))
}

/// PRINT USING numeric field, from the statement: the value (sign, integer part, decimal digits of the
/// fraction) rounded to the field's decimals and right-justified in the field; commas every third digit
/// when the field has commas. Rounding is to the nearest value the field can show; a value exactly
/// half-way (`frac` has exactly one digit beyond the field's decimals and it is 5; the generator only
/// builds such values when they are exact in binary) goes away from zero, as QBasic's decimal rounding
/// of PRINT USING does. None when the rounded value does not fit (sign and digits <= number of #).
/// `neg` is cleared when the VALUE is zero (the generator then writes it without a sign); a negative
/// value that merely ROUNDS to zero keeps its sign in the source and both `0` and `-0` are admissible.
fn render_numeric(int_fmt: &str, dec: usize, neg: &mut bool, ip: i64, frac: &[u8]) -> Option<NumOut> {
    let commas = int_fmt.contains(',');
    let width = int_fmt.len() + if dec > 0 { 1 + dec } else { 0 };
    let mut kept: i64 = ip;
    for k in 0..dec {
        kept = kept * 10 + *frac.get(k).unwrap_or(&0) as i64;
    }
    let is_tie = frac.len() == dec + 1 && frac[dec] == 5;
    let kept_down = kept;
    if frac.len() > dec && frac[dec] >= 5 {
        kept += 1;
    }
    if ip == 0 && frac.iter().all(|d| *d == 0) {
        *neg = false;
    }
    let neg_zero = *neg && kept == 0;
    let (out, grouped, fracs, ndigits) = layout_numeric(int_fmt, dec, *neg && !neg_zero, kept)?;
    let zero_alt = if neg_zero { Some(layout_numeric(int_fmt, dec, true, kept)?.0) } else { None };
    let comma_sign = if commas && *neg && !neg_zero && ndigits % 3 == 0 {
        let b = format!("-,{}{}", grouped, fracs);
        Some(format!("{:>w$}", b, w = width).into_bytes())
    } else {
        None
    };
    let tie = if !is_tie {
        0
    } else if dec > 0 {
        3
    } else if kept_down % 2 == 0 {
        1
    } else {
        2
    };
    let tie_even = if is_tie && dec > 0 && kept_down % 2 == 0 && kept_down != 0 {
        layout_numeric(int_fmt, dec, *neg, kept_down).map(|x| x.0)
    } else {
        None
    };
    Some(NumOut { out, comma_sign, tie_even, zero_alt, tie })
}

/// `\ \` field: left-justified, padded / truncated to the width.
fn render_str_field(b: &[u8], w: usize) -> Vec<u8> {
    let mut out = b.to_vec();
    out.truncate(w);
    while out.len() < w {
        out.push(b' ');
    }
    out
}

/// The USING statement may need more room than is left on the line; a history whose model column
/// exceeds the limit anywhere is dropped (counted) instead of being compared.
fn max_col_ok(e: &Expected) -> bool {
    for d in &e.devs {
        let mut col = 0usize;
        for (t, _) in d {
            match t {
                Tok::Text(b) => col += b.len(),
                Tok::Alt(o) => col += o.iter().map(|x| x.len()).max().unwrap_or(0),
                Tok::Hard | Tok::Soft => col = 0,
            }
            if col > 79 {
                return false;
            }
        }
    }
    true
}

fn record_features(sh: &mut Shard, f: &Features, nstmts: usize) {
    sh.class(&format!("statements:{:02}", nstmts));
    let used = f.devices.iter().filter(|x| **x > 0).count();
    sh.class(&format!("devices-used:{}", used));
    for d in 0..4 {
        if f.devices[d] > 0 {
            sh.class(&format!("device:{}", DEV_NAMES[d]));
        }
    }
    if f.carried > 0 {
        sh.class("carried-column");
    }
    if f.carried_interleaved > 0 {
        sh.class("carried-column-across-other-device");
    }
    if f.comma_ge12 > 0 {
        sh.class("comma-at-col>=12");
    }
    for c in &f.comma_cols {
        if [12usize, 13, 14, 15, 27, 28, 29].contains(c) {
            sh.class(&format!("comma-at-col:{}", c));
        } else if *c == 0 {
            sh.class("comma-at-col:0");
        } else if *c % ZONE == 0 {
            sh.class("comma-at-zone-boundary>=28");
        }
    }
    if f.nl_before_comma > 0 {
        sh.class("embedded-newline-before-comma");
    }
    if f.embedded_nl > 0 {
        sh.class("embedded-newline");
    }
    if f.cyclic_using > 0 {
        sh.class("using-cyclic");
    }
    if f.cut_using > 0 {
        sh.class("using-cut-mid-format");
    }
    if f.exact_using > 0 {
        sh.class("using-format-consumed");
    }
    if f.nonintegral_last > 0 {
        sh.class("nonintegral-last-item");
    }
    if f.leading_sep > 0 {
        sh.class("leading-separator");
    }
    if f.consecutive_sep > 0 {
        sh.class("consecutive-separators");
    }
    if f.trailing_sep > 0 {
        sh.class("trailing-separator");
    }
    if f.empty_string > 0 {
        sh.class("empty-string");
    }
    if f.variables > 0 {
        sh.class("value-through-variable");
    }
    if f.comma_sign_defect > 0 {
        sh.class("using-negative-3k-digits-in-comma-field");
    }
    if f.using_comma > 0 {
        sh.class("using-comma-separator");
    }
    if f.using_comma > f.using_comma_trailing {
        sh.class("using-comma-between-values");
    }
    if f.using_comma_trailing > 0 {
        sh.class("using-comma-trailing");
    }
    if f.using_comma_at_literal > 0 {
        sh.class("using-comma-next-to-literal-text");
    }
    if f.using_mixed_seps > 0 {
        sh.class("using-commas-and-semicolons-mixed");
    }
    if f.using_tie_int_even > 0 {
        sh.class("using-tie:no-decimals,even-integer-part");
    }
    if f.using_tie_int_odd > 0 {
        sh.class("using-tie:no-decimals,odd-integer-part");
    }
    if f.using_tie_frac > 0 {
        sh.class("using-tie:field-with-decimals");
    }
    if f.tie_even_defect > 0 {
        sh.class("using-tie:field-with-decimals,even-kept-digit");
    }
    if f.using_tie_negative > 0 {
        sh.class("using-tie:negative");
    }
    if f.using_neg_zero > 0 {
        sh.class("using-negative-rounds-to-zero");
    }
}

fn random_case(sh: &mut Shard, tape: &[u32]) -> Result<(), Violation> {
    let mut t = Tape::new(tape);
    let hist = {
        let mut g = Gen { t: &mut t, nvar: 0 };
        g.history()
    };
    let e = expected(&hist, Mode::default());
    if !max_col_ok(&e) {
        sh.discard("a line would reach column 80 (wrapping is not pinned by the statement)");
        return Ok(());
    }
    if e.features.comma_far {
        sh.discard("a comma would move beyond the zone at column 56 (wrapping is not pinned by the statement)");
        return Ok(());
    }
    let Some((case, f)) = Case::from_history(&hist) else {
        sh.discard("under the other order of literal text and comma padding a line would leave the covered columns");
        return Ok(());
    };
    sh.journal(&case.program);
    sh.eval();
    record_features(sh, &f, hist.len());
    if f.nontrivial() {
        sh.nontrivial(hash64(&case.program));
    } else {
        sh.class("trivial");
    }
    sh.sample_sparse(997, || json!({"program": case.program, "expect_screen": show_toks(&case.expect[0]), "expect_lpt1": show_toks(&case.expect[1]), "expect_file1": show_toks(&case.expect[2]), "expect_file2": show_toks(&case.expect[3])}));
    case.run()
}

// ---------------------------------------------------------------------------------------------
// exhaustive part: all two-statement histories over a 6-item alphabet
// ---------------------------------------------------------------------------------------------

fn alphabet_item(k: usize) -> Arg {
    let sval = |b: &[u8]| Arg::Val(Val { src: str_expr(b), pre: None, out: b.to_vec(), alt: None, numeric: false });
    match k {
        0 => Arg::Semi,
        1 => Arg::Comma,
        2 => Arg::Val(Val { src: "-7".to_string(), pre: None, out: b"-7 ".to_vec(), alt: None, numeric: true }),
        3 => sval(b"ABCDEFGHIJKLMN"),
        4 => sval(b"xy\rz"),
        _ => sval(b""),
    }
}

/// All grammatical item lists of at most `max_len` entries (two values need a separator between them).
fn all_statements(max_len: usize) -> Vec<Vec<usize>> {
    let mut out: Vec<Vec<usize>> = vec![Vec::new()];
    let mut frontier: Vec<Vec<usize>> = vec![Vec::new()];
    for _ in 0..max_len {
        let mut next = Vec::new();
        for s in &frontier {
            let prev_val = s.last().map(|k| *k >= 2).unwrap_or(false);
            for k in 0..6 {
                if prev_val && k >= 2 {
                    continue;
                }
                let mut n = s.clone();
                n.push(k);
                next.push(n);
            }
        }
        out.extend(next.iter().cloned());
        frontier = next;
    }
    out
}

fn pair_history(stmts: &[Vec<usize>], idx: u64) -> Vec<Stmt> {
    let n = stmts.len() as u64;
    let devpair = (idx % 16) as usize;
    let s2 = ((idx / 16) % n) as usize;
    let s1 = (idx / 16 / n) as usize;
    let mk = |s: &Vec<usize>, dev: usize| Stmt { dev, kind: Kind::Plain(s.iter().map(|k| alphabet_item(*k)).collect()) };
    vec![mk(&stmts[s1], devpair / 4), mk(&stmts[s2], devpair % 4)]
}

fn exhaustive_pairs(sh: &mut Shard, max_len: usize) -> bool {
    let stmts = all_statements(max_len);
    let n = stmts.len() as u64;
    let total = n * n * 16;
    let batch = 64u64;
    let nbatches = total.div_ceil(batch);
    for b in 0..nbatches {
        if !sh.mine(b) {
            continue;
        }
        let lo = b * batch;
        let hi = (lo + batch).min(total);
        // one program per batch: after each pair the devices it left mid-line are brought back to column 0
        let mut hist: Vec<Stmt> = Vec::new();
        for idx in lo..hi {
            let pair = pair_history(&stmts, idx);
            let e = expected(&pair, Mode::default());
            sh.eval();
            if e.features.nontrivial() {
                sh.nontrivial(hash64(&("pair", max_len, idx)));
            }
            if e.features.carried > 0 {
                sh.class("pair:carried-column");
            }
            if e.features.nl_before_comma > 0 {
                sh.class("pair:embedded-newline-before-comma");
            }
            if e.features.comma_ge12 > 0 {
                sh.class("pair:comma-at-col>=12");
            }
            let devs: Vec<usize> = pair.iter().map(|s| s.dev).collect();
            hist.extend(pair);
            for d in 0..4 {
                if devs.contains(&d) {
                    hist.push(Stmt { dev: d, kind: Kind::Plain(Vec::new()) });
                }
            }
        }
        let (case, _) = Case::from_history(&hist).expect("plain statements have one reading");
        sh.journal(&case.program);
        let mut r = case.run();
        if r.is_err() {
            // find the single pair that fails on its own (minimal witness)
            let mut single = false;
            for idx in lo..hi {
                let pair = pair_history(&stmts, idx);
                let (c1, _) = Case::from_history(&pair).expect("plain statements have one reading");
                sh.journal(&c1.program);
                let r1 = c1.run();
                if r1.is_err() {
                    r = r1;
                    single = true;
                    break;
                }
            }
            if !single {
                // state leaks from one pair into a later one: shortest failing prefix, then longest droppable head
                let fails = |sh: &mut Shard, from: usize, to: usize| -> Option<Violation> {
                    let (c, _) = Case::from_history(&hist[from..to]).expect("plain statements have one reading");
                    sh.journal(&c.program);
                    c.run().err()
                };
                let mut to = hist.len();
                for k in 1..=hist.len() {
                    if fails(sh, 0, k).is_some() {
                        to = k;
                        break;
                    }
                }
                let mut from = 0;
                for j in (0..to).rev() {
                    if let Some(v) = fails(sh, j, to) {
                        from = j;
                        r = Err(v);
                        break;
                    }
                }
                let _ = from;
            }
        }
        if !sh.report(r) {
            return false;
        }
    }
    sh.sample(|| {
        let pair = pair_history(&stmts, total / 3);
        json!({"exhaustive_pair_example": program_text(&pair)})
    });
    true
}

// ---------------------------------------------------------------------------------------------
// anchors: the literal expectations pinned by the unit tests of interpreter/print.rs; the model must
// reproduce them byte for byte (checked before the programs are run)
// ---------------------------------------------------------------------------------------------

fn a_str(b: &[u8]) -> Arg {
    Arg::Val(Val { src: str_expr(b), pre: None, out: b.to_vec(), alt: None, numeric: false })
}

fn a_num(src: &str, out: &str) -> Arg {
    Arg::Val(Val { src: src.to_string(), pre: None, out: out.as_bytes().to_vec(), alt: None, numeric: true })
}

fn a_plain(args: Vec<Arg>) -> Stmt {
    Stmt { dev: 0, kind: Kind::Plain(args) }
}

fn u_num(src: &str, int_fmt: &str, dec: usize, neg: bool, ip: i64, frac: &[u8]) -> UsingVal {
    let mut n = neg;
    let r = render_numeric(int_fmt, dec, &mut n, ip, frac).expect("anchor value fits");
    UsingVal { src: src.to_string(), pre: None, out: r.out, defect_out: r.comma_sign, tie_even_out: r.tie_even, zero_alt: r.zero_alt, tie: r.tie, negative: n }
}

fn u_str(text: &str, out: Vec<u8>) -> UsingVal {
    UsingVal { src: format!("\"{}\"", text), pre: None, out, defect_out: None, tie_even_out: None, zero_alt: None, tie: 0, negative: false }
}

fn a_using(fmt: &str, lits: &[&str], vals: Vec<UsingVal>, trailing_semi: bool) -> Stmt {
    let seps = vec![false; vals.len().saturating_sub(1)];
    let trailing = if trailing_semi { Sep::Semi } else { Sep::None };
    Stmt { dev: 0, kind: Kind::Using { fmt_src: format!("\"{}\"", fmt), fmt_pre: None, lits: lits.iter().map(|x| x.to_string()).collect(), vals, seps, trailing } }
}

fn anchors() -> Vec<(&'static str, Vec<Stmt>, &'static str)> {
    vec![
        ("test_print_no_args", vec![a_plain(vec![])], "\r\n"),
        ("hello_world_two_args_comma", vec![a_plain(vec![a_str(b"Hello"), Arg::Comma, a_str(b"world!")])], "Hello         world!\r\n"),
        ("hello_world_two_args_semicolon", vec![a_plain(vec![a_str(b"Hello, "), Arg::Semi, a_str(b"world!")])], "Hello, world!\r\n"),
        (
            "trailing_comma_does_not_add_new_line",
            vec![a_plain(vec![a_str(b"123456789012345")]), a_plain(vec![a_str(b"A"), Arg::Comma]), a_plain(vec![a_str(b"B")])],
            "123456789012345\r\nA             B\r\n",
        ),
        ("trailing_semicolon_does_not_add_new_line", vec![a_plain(vec![a_str(b"A"), Arg::Semi]), a_plain(vec![a_str(b"B")])], "AB\r\n"),
        (
            "print_zones_numbers",
            vec![
                a_plain(vec![a_str(b"1"), Arg::Comma, a_str(b"2"), Arg::Comma, a_str(b"3")]),
                a_plain(vec![a_num("1", " 1 "), Arg::Comma, a_num("2", " 2 "), Arg::Comma, a_num("3", " 3 ")]),
                a_plain(vec![a_num("-1", "-1 "), Arg::Comma, a_num("-2", "-2 "), Arg::Comma, a_num("-3", "-3 ")]),
            ],
            "1             2             3\r\n 1             2             3 \r\n-1            -2            -3 \r\n",
        ),
        (
            "print_zones_when_arg_contains_crlf",
            vec![a_plain(vec![a_str(b"a"), Arg::Comma, a_str(b"hello, \r\n world"), Arg::Comma, a_str(b"z")])],
            "a             hello, \r\n\r\n world        z\r\n",
        ),
        ("print_using", vec![a_using("#.###", &["", ""], vec![u_num("3.14", "#", 3, false, 3, &[1, 4])], false)], "3.140\r\n"),
        ("using_thousands_no_decimals", vec![a_using("###,###", &["", ""], vec![u_num("1000", "###,###", 0, false, 1000, &[])], true)], "  1,000"),
        ("using_thousands_less_than_thousand", vec![a_using("###,###", &["", ""], vec![u_num("42", "###,###", 0, false, 42, &[])], true)], "     42"),
        ("using_thousands_two_decimals", vec![a_using("###,###.##", &["", ""], vec![u_num("1000", "###,###", 2, false, 1000, &[])], true)], "  1,000.00"),
        (
            "using_one_placeholder_two_variables",
            vec![a_using("####.##", &["", ""], vec![u_num("42", "####", 2, false, 42, &[]), u_num("3.147", "####", 2, false, 3, &[1, 4, 7])], false)],
            "  42.00   3.15\r\n",
        ),
        (
            "using_two_placeholders_two_variables",
            vec![a_using("Income: ####.## Expense: ####.##", &["Income: ", " Expense: ", ""], vec![u_num("42", "####", 2, false, 42, &[]), u_num("3.144", "####", 2, false, 3, &[1, 4, 4])], false)],
            "Income:   42.00 Expense:    3.14\r\n",
        ),
        (
            "using_two_placeholders_one_variable",
            vec![a_using("Income: ####.## Expense: ####.## omitted", &["Income: ", " Expense: ", " omitted"], vec![u_num("42", "####", 2, false, 42, &[])], false)],
            "Income:   42.00 Expense: \r\n",
        ),
        (
            "using_two_placeholders_three_variables",
            vec![a_using("A: # B: # C", &["A: ", " B: ", " C"], vec![u_num("1", "#", 0, false, 1, &[]), u_num("2", "#", 0, false, 2, &[]), u_num("3", "#", 0, false, 3, &[])], false)],
            "A: 1 B: 2 CA: 3 B: \r\n",
        ),
        (
            "using_two_integer_digits",
            vec![
                a_using("##", &["", ""], vec![u_num("42", "##", 0, false, 42, &[])], true),
                a_using("##", &["", ""], vec![u_num("2", "##", 0, false, 2, &[])], true),
                a_using("##", &["", ""], vec![u_num("-1", "##", 0, true, 1, &[])], true),
                a_using("##", &["", ""], vec![u_num("3.0", "##", 0, false, 3, &[0])], true),
                a_using("##", &["", ""], vec![u_num("3.14#", "##", 0, false, 3, &[1, 4])], true),
                a_using("##", &["", ""], vec![u_num("3.9", "##", 0, false, 3, &[9])], true),
                a_using("##", &["", ""], vec![u_num("61.9", "##", 0, false, 61, &[9])], true),
            ],
            "42 2-1 3 3 462",
        ),
        (
            "using_two_integer_two_fraction_digits",
            vec![
                a_using("##.##", &["", ""], vec![u_num("-1", "##", 2, true, 1, &[])], true),
                a_using("##.##", &["", ""], vec![u_num("3.9", "##", 2, false, 3, &[9])], true),
                a_using("##.##", &["", ""], vec![u_num("1.2345", "##", 2, false, 1, &[2, 3, 4, 5])], true),
                a_using("##.##", &["", ""], vec![u_num("1.9876", "##", 2, false, 1, &[9, 8, 7, 6])], true),
                a_using("##.##", &["", ""], vec![u_num("2.134#", "##", 2, false, 2, &[1, 3, 4])], true),
                a_using("##.##", &["", ""], vec![u_num("2.199#", "##", 2, false, 2, &[1, 9, 9])], true),
            ],
            "-1.00 3.90 1.23 1.99 2.13 2.20",
        ),
        ("using_backslash", vec![a_using("\\   \\", &["", ""], vec![u_str("hello world", render_str_field(b"hello world", 5))], false)], "hello\r\n"),
        ("using_exclamation_point", vec![a_using("!", &["", ""], vec![u_str("hello world", b"h".to_vec())], false)], "h\r\n"),
    ]
}

/// The model's bytes with the choices the implementation's own tests document: an embedded CR or LF is
/// written as CR LF, the literal text up to the next field is printed when values run out.
fn flatten_documented(toks: &[(Tok, usize)]) -> Vec<u8> {
    let mut out = Vec::new();
    for (t, _) in toks {
        match t {
            Tok::Text(b) => out.extend_from_slice(b),
            Tok::Alt(o) => out.extend_from_slice(&o[0]),
            Tok::Hard | Tok::Soft => out.extend_from_slice(b"\r\n"),
        }
    }
    out
}

fn run_anchors(sh: &mut Shard) -> bool {
    for (i, (name, hist, literal)) in anchors().into_iter().enumerate() {
        if !sh.mine(i as u64) {
            continue;
        }
        let (case, _) = Case::from_history(&hist).expect("anchors have one reading");
        let model = flatten_documented(&case.expect[0]);
        if model != literal.as_bytes() {
            panic!("harness fault: the C16 model disagrees with the unit-test expectation {}: model {:?}, pinned {:?}", name, esc(&model), literal);
        }
        sh.journal(&case.program);
        sh.eval();
        sh.class("anchor:unit-test-expectation");
        if !sh.report(case.run()) {
            return false;
        }
    }
    true
}

impl Prop for C16 {
    fn id(&self) -> &'static str {
        "C16"
    }
    fn rule(&self) -> &'static str {
        "Random histories of 1-12 statements (PRINT / LPRINT / PRINT #1, / PRINT #2,; one in four is PRINT USING) decoded from a proptest tape: item lists of up to 8 entries over INTEGER, LONG, SINGLE, DOUBLE integral numbers of either sign (one SINGLE / DOUBLE in ten a negative zero: -Z, Z * -3.5, -2.5 * Z with Z = 0; expected ' 0 ', '-0 ' tolerated), strings of length 0-30 (empty, with embedded CR / LF / CRLF built with CHR$), strings sized so that the column before a comma lands on 12,13,14,15,27,28,29,41,42,43, separators ; and , in every position (leading, trailing, consecutive), a non-integral number only as the last item of a newline-terminated statement, values as literals or through variables; PRINT USING formats of 1-4 fields (# runs, # runs with one ., thousands commas as #,### ##,### ###,### #,###,###, \\ \\ of width 2-8, !) with literal text around them and 1-6 values (fewer and more than fields), the values separated by ; only, by , only or by a mix of both (one statement in three each), optionally with a trailing ; or , ; SINGLE / DOUBLE values of numeric fields are ordinary (first discarded digit 1,2,3,6,7,8), or (1 in 6) an exact rounding tie (x.5 for a field without decimals, k/2^(d+1) with k odd for a field with d decimals - binary-exact in both types), or (1 in 6) a negative value that rounds to zero. The model written from the statement gives the expected bytes of screen, LPT1 and both files. A history is NON-TRIVIAL when a statement continues on a device at a carried column > 0, or a comma is met at column >= 12, or a comma follows an embedded CR/LF on the same line, or a USING format is reused cyclically, or a PRINT USING value list holds a comma, or a PRINT USING value is an exact rounding tie; distinct by hash of the program text. Plus the complete enumeration of all two-statement histories (each statement any grammatical list of <= 2 (quick) / <= 4 (thorough) entries over the alphabet { ; , -7 \"ABCDEFGHIJKLMN\" \"xy\"+CHR$(13)+\"z\" \"\" }, all 16 device pairs), run in batches of 64 pairs per program."
    }
    fn assumptions(&self) -> Vec<&'static str> {
        vec![
            "Lines are kept below 80 columns and no comma has to move into the zone at column 70: wrapping is not pinned by the statement",
            "The bytes written for a CR or LF embedded in a string are not pinned (the statement only says the column restarts): any non-empty run of CR/LF bytes is accepted where the model has an embedded newline; the zone padding after it is checked exactly",
            "A non-integral number with |v| < 1 may be written with or without a 0 before the point; such numbers only appear as the last item of a newline-terminated statement",
            "SINGLE values have at most 6 significant digits, DOUBLE at most 12, integral values at most 10 digits (larger ones print in exponent form in QBasic; the statement says 'digits')",
            "PRINT USING: values fit their field (sign and digits <= number of #); rounding is only exercised where it is determined: the first discarded digit is 1,2,3,6,7,8, or the value is an exact tie that is also exact in binary (decimal ties such as .15 that binary cannot hold are not generated); an exact tie goes away from zero (QBasic's PRINT USING rounds the decimal digits half up: ## of 2.5 is 3, #.# of .25 is 0.3); literal text avoids every QBasic format character; when values run out mid-format the literal text up to the next field may be printed (documented by the implementation's tests) or omitted (statement silent), and such statements end with a newline",
            "PRINT USING with , between or after the values: the statement's comma rule is applied as for a plain PRINT (pad to the next multiple of 14 on that device, a trailing comma carries the column to the next statement). Whether literal text that follows a field is copied with that field's value (before the padding) or with the next value / at the end of the statement (after the padding) is not pinned: both layouts are accepted, each consistently for the whole history; histories where either layout leaves columns 0-79 / the zone at 56 are discarded",
            "The sign of a negative value that PRINT USING rounds to zero is not pinned (QBasic keeps it, -0; the tree drops it in fields without decimals): ' 0' and '-0' are both accepted, negative values only go to fields with at least two #",
            "A thousands comma is only placed at thousands positions of the field, where 'comma every third digit' and 'comma where the format has one' coincide",
        ]
    }
    fn run(&self, sh: &mut Shard) {
        // the literal expectations of the implementation's unit tests, reproduced by the model
        if !run_anchors(sh) {
            return;
        }
        // exhaustive two-statement histories
        let max_len = sh.tier.pick(2, 4);
        if !exhaustive_pairs(sh, max_len) {
            return;
        }
        sh.exhaustive(&format!("all two-statement histories: item lists of <= {} entries over a 6-item alphabet x 16 device pairs", max_len));
        // random histories
        let cases = sh.share(sh.tier.pick(40_000, 800_000));
        sh.search(1, cases, 40, 600, random_case);
    }
    fn replay(&self, _sh: &mut Shard, inputs: &Value) -> Result<(), Violation> {
        Case::from_inputs(inputs).run()
    }
}

//! C13 — names resolve by the documented bare / qualified / extended rules in every scope.
//!
//! *Name-configuration programs*: for a base name, a configuration is (a) the DEFtype statements at
//! the top of the program, (b) the declaration of that base name in the global scope and in one
//! SUB/FUNCTION scope, (c) the spellings (bare, `%`, `&`, `!`, `#`, `$`; any letter case) through
//! which it is referenced. The program assigns a DISTINCT value through every accepted spelling and
//! prints through every spelling, in the global scope before and after the call and inside the
//! subprogram before and after its own assignments; the printed values reveal which storage each
//! reference denotes.
//!
//! The oracle is an independent resolver (`res_global` / `res_sub`) written from the property
//! statement and the README section "Names". Where those texts do not decide a configuration the
//! resolver answers `Undet` and the configuration is discarded (counted).

use std::collections::{BTreeMap, BTreeSet};

use serde_json::{Value, json};

use crate::engine::{Shard, Tape, Violation, hash64};
use crate::impl_run::{self, End, RunOpts};
use crate::props::Prop;

pub struct C13;

const BUDGET: u64 = 5_000_000;
/// Name-configuration units per accepted program of the enumerated part.
const BATCH: usize = 12;
const UDT_NAME: &str = "Rec9k";
const UDT_FIELD: &str = "Fld";
/// Value ids: assigned values count up from 1; these are reserved.
const ARG_VAL: u32 = 141;
const GCONST_VAL: u32 = 171;
const SCONST_VAL: u32 = 172;

// ------------------------------------------------------------------------------------------------
// vocabulary
// ------------------------------------------------------------------------------------------------

#[derive(Clone, Copy, PartialEq, Eq, Hash, Debug, PartialOrd, Ord)]
enum Q {
    Int,
    Lng,
    Sng,
    Dbl,
    Str,
}

const QS: [Q; 5] = [Q::Int, Q::Lng, Q::Sng, Q::Dbl, Q::Str];

impl Q {
    fn ch(self) -> char {
        match self {
            Q::Int => '%',
            Q::Lng => '&',
            Q::Sng => '!',
            Q::Dbl => '#',
            Q::Str => '$',
        }
    }
    fn def_kw(self) -> &'static str {
        match self {
            Q::Int => "DEFINT",
            Q::Lng => "DEFLNG",
            Q::Sng => "DEFSNG",
            Q::Dbl => "DEFDBL",
            Q::Str => "DEFSTR",
        }
    }
    fn type_kw(self) -> &'static str {
        match self {
            Q::Int => "INTEGER",
            Q::Lng => "LONG",
            Q::Sng => "SINGLE",
            Q::Dbl => "DOUBLE",
            Q::Str => "STRING",
        }
    }
}

/// A spelling: bare (None) or with a type qualifier.
type Sp = Option<Q>;

const ALL_SP: [Sp; 6] = [None, Some(Q::Int), Some(Q::Lng), Some(Q::Sng), Some(Q::Dbl), Some(Q::Str)];

fn sp_name(sp: Sp) -> String {
    match sp {
        None => "bare".to_string(),
        Some(q) => q.ch().to_string(),
    }
}

/// The type of an extended declaration (`DIM x AS ...`, `x AS ...` parameter).
#[derive(Clone, Copy, PartialEq, Eq, Hash, Debug)]
enum Ty {
    B(Q),
    /// STRING * n
    Fix(u8),
    /// the user-defined TYPE Rec9k (one INTEGER field)
    Udt,
}

const EXT_TYPES: [Ty; 7] = [Ty::B(Q::Int), Ty::B(Q::Lng), Ty::B(Q::Sng), Ty::B(Q::Dbl), Ty::B(Q::Str), Ty::Fix(3), Ty::Udt];
const PARAM_EXT_TYPES: [Ty; 6] = [Ty::B(Q::Int), Ty::B(Q::Lng), Ty::B(Q::Sng), Ty::B(Q::Dbl), Ty::B(Q::Str), Ty::Udt];

impl Ty {
    /// The qualifier that matches this type (none for a user-defined type).
    fn matching(self) -> Option<Q> {
        match self {
            Ty::B(q) => Some(q),
            Ty::Fix(_) => Some(Q::Str),
            Ty::Udt => None,
        }
    }
    fn text(self) -> String {
        match self {
            Ty::B(q) => q.type_kw().to_string(),
            Ty::Fix(n) => format!("STRING * {}", n),
            Ty::Udt => UDT_NAME.to_string(),
        }
    }
    fn is_str(self) -> bool {
        matches!(self, Ty::B(Q::Str) | Ty::Fix(_))
    }
}

/// Letter case of one occurrence of an identifier.
#[derive(Clone, Copy, PartialEq, Eq, Hash, Debug)]
enum Cs {
    /// `Azq1` (as generated)
    Mixed,
    Upper,
    Lower,
    /// `aZQ1`
    Inv,
}

const CASES: [Cs; 4] = [Cs::Mixed, Cs::Upper, Cs::Lower, Cs::Inv];

fn styled(base: &str, cs: Cs, force_upper: bool) -> String {
    if force_upper {
        return base.to_ascii_uppercase();
    }
    match cs {
        Cs::Mixed => base.to_string(),
        Cs::Upper => base.to_ascii_uppercase(),
        Cs::Lower => base.to_ascii_lowercase(),
        Cs::Inv => {
            let mut s = String::new();
            for (i, c) in base.chars().enumerate() {
                s.push(if i == 0 { c.to_ascii_lowercase() } else { c.to_ascii_uppercase() });
            }
            s
        }
    }
}

/// Two-letter tails that form no keyword or built-in name with any first letter.
const TAILS: [&str; 8] = ["zq", "xw", "qk", "jv", "zx", "qz", "wq", "vj"];

/// Base name number `k` of a program, starting with letter index `letter`.
fn base_name(letter: u8, k: usize) -> String {
    format!("{}{}{}", (b'A' + letter) as char, TAILS[k % TAILS.len()], k)
}

fn letter_of(base: &str) -> usize {
    (base.as_bytes()[0].to_ascii_uppercase() - b'A') as usize
}

// ------------------------------------------------------------------------------------------------
// DEFtype configurations
// ------------------------------------------------------------------------------------------------

#[derive(Clone, PartialEq, Eq, Hash, Debug)]
struct DefRange {
    lo: u8,
    /// None: single letter
    hi: Option<u8>,
    lo_lower: bool,
    hi_lower: bool,
}

#[derive(Clone, PartialEq, Eq, Hash, Debug)]
struct DefStmt {
    q: Q,
    ranges: Vec<DefRange>,
    kw_lower: bool,
}

impl DefStmt {
    fn single(q: Q, letter: u8, lower: bool) -> DefStmt {
        DefStmt { q, ranges: vec![DefRange { lo: letter, hi: None, lo_lower: lower, hi_lower: lower }], kw_lower: lower }
    }
    fn text(&self, force_upper: bool) -> String {
        let kw = if self.kw_lower && !force_upper { self.q.def_kw().to_lowercase() } else { self.q.def_kw().to_string() };
        let l = |i: u8, lower: bool| -> char { if lower && !force_upper { (b'a' + i) as char } else { (b'A' + i) as char } };
        let rs: Vec<String> = self
            .ranges
            .iter()
            .map(|r| match r.hi {
                None => l(r.lo, r.lo_lower).to_string(),
                Some(h) => format!("{}-{}", l(r.lo, r.lo_lower), l(h, r.hi_lower)),
            })
            .collect();
        format!("{} {}", kw, rs.join(", "))
    }
    /// `DEFINT a-D`: a range from a lower-case to an upper-case letter (known finding of the parser).
    fn has_lower_to_upper_range(&self) -> bool {
        self.ranges.iter().any(|r| r.hi.is_some() && r.lo_lower && !r.hi_lower)
    }
    fn has_lower_letter(&self) -> bool {
        self.ranges.iter().any(|r| r.lo_lower || (r.hi.is_some() && r.hi_lower))
    }
}

/// The letter -> default type table of the reference: SINGLE unless a DEFtype range covers the letter.
struct DefTable {
    q: [Q; 26],
    explicit: [bool; 26],
}

impl DefTable {
    /// Err: the statement does not say which of two differently-typed covering ranges wins.
    fn of(stmts: &[DefStmt]) -> Result<DefTable, &'static str> {
        let mut t = DefTable { q: [Q::Sng; 26], explicit: [false; 26] };
        for s in stmts {
            for r in &s.ranges {
                let hi = r.hi.unwrap_or(r.lo);
                if hi < r.lo {
                    return Err("descending DEFtype letter range");
                }
                for i in r.lo..=hi {
                    let i = i as usize;
                    if t.explicit[i] && t.q[i] != s.q {
                        return Err("letter covered by two DEFtype ranges of different types");
                    }
                    t.explicit[i] = true;
                    t.q[i] = s.q;
                }
            }
        }
        Ok(t)
    }
    fn non_default(&self, letter: usize) -> bool {
        self.q[letter] != Q::Sng
    }
}

fn defs_text(defs: &[DefStmt]) -> String {
    defs.iter().map(|d| d.text(false)).collect::<Vec<_>>().join(" : ")
}

// ------------------------------------------------------------------------------------------------
// configurations of one base name
// ------------------------------------------------------------------------------------------------

#[derive(Clone, PartialEq, Eq, Hash, Debug)]
enum GDecl {
    /// the global scope never mentions the name
    Absent,
    /// used without a declaration
    Implicit,
    /// one `DIM [SHARED] x<sp>` statement per element
    DimCompact { sps: Vec<Sp>, shared: bool },
    DimExt { ty: Ty, shared: bool },
    /// `CONST x<sp> = value`
    Const { sp: Sp, str_val: bool },
}

#[derive(Clone, PartialEq, Eq, Hash, Debug)]
enum SDecl {
    /// no subprogram mentions the name
    Absent,
    Implicit,
    DimCompact(Vec<Sp>),
    DimExt(Ty),
    ParamCompact(Sp),
    ParamExt(Ty),
    Const { sp: Sp, str_val: bool },
}

impl GDecl {
    fn kind(&self) -> String {
        match self {
            GDecl::Absent => "absent".into(),
            GDecl::Implicit => "implicit".into(),
            GDecl::DimCompact { shared, .. } => if *shared { "shared-compact".into() } else { "dim-compact".into() },
            GDecl::DimExt { shared, .. } => if *shared { "shared-extended".into() } else { "dim-extended".into() },
            GDecl::Const { .. } => "const".into(),
        }
    }
    fn shared(&self) -> bool {
        matches!(self, GDecl::DimCompact { shared: true, .. } | GDecl::DimExt { shared: true, .. })
    }
}

impl SDecl {
    fn kind(&self) -> &'static str {
        match self {
            SDecl::Absent => "absent",
            SDecl::Implicit => "implicit",
            SDecl::DimCompact(_) => "dim-compact",
            SDecl::DimExt(_) => "dim-extended",
            SDecl::ParamCompact(_) => "param-compact",
            SDecl::ParamExt(_) => "param-extended",
            SDecl::Const { .. } => "const",
        }
    }
}

#[derive(Clone, Copy, PartialEq, Eq, Hash, Debug)]
struct RefSp {
    sp: Sp,
    /// letter case of the assignment and of the first PRINT
    cs: Cs,
    /// letter case of the second PRINT
    cs2: Cs,
}

#[derive(Clone, Copy, PartialEq, Eq, Hash, Debug)]
enum RejKind {
    Assign(Sp),
    Print(Sp),
    /// `DIM x<sp>` (compact, qualified) after the `DIM x AS type` of the same scope
    DimCompactAfterExt(Sp),
    /// `DIM x AS type` after the `DIM x<sp>` (compact) of the same scope
    DimExtAfterCompact(Ty),
}

#[derive(Clone, Copy, PartialEq, Eq, Hash, Debug)]
struct Reject {
    in_sub: bool,
    kind: RejKind,
    cs: Cs,
}

#[derive(Clone, PartialEq, Eq, Hash, Debug)]
struct Case {
    base: String,
    g: GDecl,
    s: SDecl,
    /// the subprogram scope is a FUNCTION (its own name is unrelated to `base`)
    func_scope: bool,
    decl_cs: Cs,
    g_refs: Vec<RefSp>,
    s_refs: Vec<RefSp>,
    reject: Option<Reject>,
}

/// `base` is the name of a FUNCTION: calls through bare / matching spelling, result assigned inside.
#[derive(Clone, PartialEq, Eq, Hash, Debug)]
struct FnCase {
    base: String,
    decl_sp: Sp,
    decl_cs: Cs,
    calls: Vec<(bool, Cs)>,
    /// true = bare spelling, false = the matching suffix
    assigns: Vec<(bool, Cs)>,
}

// ---- array parameters ---------------------------------------------------------------------------

/// Declaration of an ARRAY parameter: `A%()` / `A()` (compact) or `A() AS type` (extended).
#[derive(Clone, Copy, PartialEq, Eq, Hash, Debug)]
enum APDecl {
    Compact(Sp),
    /// Ty::B(_) or Ty::Udt
    Ext(Ty),
}

/// How the module-level array that is passed to the parameter is DIMmed.
#[derive(Clone, Copy, PartialEq, Eq, Hash, Debug)]
enum ArgDecl {
    /// `DIM G%(1 TO 3)`
    CompactSuffix,
    /// `DIM G(1 TO 3)` — only when the default type of G's first letter is the element type
    CompactBare,
    /// `DIM G(1 TO 3) AS INTEGER`
    Ext,
}

/// The statement of an array-parameter unit that the checker must reject (extended parameters only).
#[derive(Clone, Copy, PartialEq, Eq, Hash, Debug)]
enum ArrRej {
    /// `A$ = "x"`
    ScalarAssign(Q),
    /// `PRINT A$`
    ScalarPrint(Q),
    /// `A$(1) = "x"`
    ElemAssign(Q),
    /// `PRINT A$(1)`
    ElemPrint(Q),
}

impl ArrRej {
    fn q(self) -> Q {
        match self {
            ArrRej::ScalarAssign(q) | ArrRej::ScalarPrint(q) | ArrRej::ElemAssign(q) | ArrRej::ElemPrint(q) => q,
        }
    }
}

/// `base` is an array parameter of a SUB/FUNCTION; a module-level array of the same element type is passed.
#[derive(Clone, PartialEq, Eq, Hash, Debug)]
struct ArrCase {
    base: String,
    p: APDecl,
    arg: ArgDecl,
    /// the caller's array has the same base name as the parameter (else base + "w": same first letter)
    same_name: bool,
    func_scope: bool,
    decl_cs: Cs,
    /// spellings of the parameter used inside the subprogram (all of them denote the parameter)
    refs: Vec<RefSp>,
    /// compact parameter only: a scalar of the same base name whose type is another one than the element type
    scalar: Option<(Sp, Cs)>,
    reject: Option<(ArrRej, Cs)>,
    rot: usize,
}

#[derive(Clone, Copy, PartialEq, Eq, Debug)]
enum ARes {
    Param,
    Reject,
    Undet(&'static str),
}

impl ArrCase {
    fn dq(&self, t: &DefTable) -> Q {
        t.q[letter_of(&self.base)]
    }
    /// The built-in element type (None: the user-defined type).
    fn elem_q(&self, t: &DefTable) -> Option<Q> {
        match self.p {
            APDecl::Compact(sp) => Some(sp.unwrap_or(self.dq(t))),
            APDecl::Ext(ty) => ty.matching(),
        }
    }
    /// What `name<sp>(i)` denotes inside the subprogram.
    fn res(&self, t: &DefTable, sp: Sp) -> ARes {
        match self.p {
            // "after DIM A AS type, A (bare or with the matching suffix) is that one variable and any other
            // suffix on A is rejected" — README: parameters declared AS type are extended names
            APDecl::Ext(ty) => match sp {
                None => ARes::Param,
                Some(q) if ty.matching() == Some(q) => ARes::Param,
                Some(_) => ARes::Reject,
            },
            // a compact name: the bare spelling is the variable of the default type of its first letter
            APDecl::Compact(d) => {
                if sp.unwrap_or(self.dq(t)) == d.unwrap_or(self.dq(t)) {
                    ARes::Param
                } else {
                    ARes::Undet("an undeclared array name inside a subprogram (implicit arrays are outside the statement)")
                }
            }
        }
    }
    /// The `arg` kinds that can be written for this parameter under this DEFtype table.
    fn arg_valid(&self, t: &DefTable, arg: ArgDecl) -> bool {
        match arg {
            ArgDecl::Ext => true,
            ArgDecl::CompactSuffix => self.elem_q(t).is_some(),
            ArgDecl::CompactBare => self.elem_q(t) == Some(self.dq(t)),
        }
    }
    /// Spellings through which the caller's array can be referenced in the global scope.
    fn g_sps(&self, t: &DefTable) -> Vec<Sp> {
        let eq = self.elem_q(t);
        match self.arg {
            ArgDecl::CompactSuffix => {
                let mut v = vec![eq];
                if eq == Some(self.dq(t)) {
                    v.push(None);
                }
                v
            }
            ArgDecl::CompactBare => vec![None, eq],
            ArgDecl::Ext => {
                let mut v = vec![None];
                if eq.is_some() {
                    v.push(eq);
                }
                v
            }
        }
    }
    /// Is `sp` a scalar spelling that the stated rules make a separate local variable next to a COMPACT array parameter?
    fn scalar_ok(&self, t: &DefTable, sp: Sp) -> bool {
        matches!(self.p, APDecl::Compact(_)) && Some(sp.unwrap_or(self.dq(t))) != self.elem_q(t)
    }
    fn undetermined(&self, t: &DefTable) -> Option<&'static str> {
        if !self.arg_valid(t, self.arg) {
            return Some("array argument whose element type differs from the parameter's");
        }
        if matches!(self.p, APDecl::Ext(Ty::Fix(_))) {
            return Some("STRING * n parameter");
        }
        if let Some((sp, _)) = self.scalar {
            if !self.scalar_ok(t, sp) {
                return Some("a scalar and an array parameter of the same name and type in one subprogram");
            }
        }
        if let Some((r, _)) = self.reject {
            if self.res(t, Some(r.q())) != ARes::Reject {
                return Some("must-reject statement that the rules do not reject");
            }
        }
        if !self.refs.iter().any(|r| self.res(t, r.sp) == ARes::Param) {
            return Some("array parameter never referenced");
        }
        None
    }
    fn p_kind(&self) -> &'static str {
        match self.p {
            APDecl::Compact(None) => "compact-bare",
            APDecl::Compact(Some(_)) => "compact-suffix",
            APDecl::Ext(Ty::Udt) => "extended-udt",
            APDecl::Ext(_) => "extended-builtin",
        }
    }
    fn arg_kind(&self) -> &'static str {
        match self.arg {
            ArgDecl::CompactSuffix => "compact-suffix",
            ArgDecl::CompactBare => "compact-bare",
            ArgDecl::Ext => "extended",
        }
    }
}

// ---- constants: global CONST shadowed by a local CONST -------------------------------------------

/// `CONST name<sp> = literal of kind`
#[derive(Clone, Copy, PartialEq, Eq, Hash, Debug)]
struct CDef {
    sp: Sp,
    kind: Q,
}

impl CDef {
    fn valid(self) -> bool {
        self.sp.is_none() || self.sp == Some(self.kind)
    }
    fn label(self) -> String {
        format!("{}:{}", sp_name(self.sp), self.kind.type_kw())
    }
}

/// A global CONST, one subprogram that defines a CONST of the same bare name, and subprograms that do not.
#[derive(Clone, PartialEq, Eq, Hash, Debug)]
struct ConstCase {
    base: String,
    g: CDef,
    l: CDef,
    decl_cs: Cs,
    /// the redefining subprogram is a FUNCTION
    redef_func: bool,
    /// the first non-redefining subprogram is a FUNCTION (the second one is the other kind)
    other_func: bool,
    /// module-level statements after the subprogram definitions
    tail: bool,
    rot: usize,
}

/// (literal, printed value, printed value of `name * 2` / `name + "!"`)
fn const_val(kind: Q, local: bool) -> (&'static str, &'static str, &'static str) {
    match (kind, local) {
        (Q::Int, false) => ("7", "7", "14"),
        (Q::Int, true) => ("12", "12", "24"),
        (Q::Lng, false) => ("100007", "100007", "200014"),
        (Q::Lng, true) => ("100012", "100012", "200024"),
        (Q::Sng, false) => ("7.5", "7.5", "15"),
        (Q::Sng, true) => ("12.5", "12.5", "25"),
        (Q::Dbl, false) => ("7.25#", "7.25", "14.5"),
        (Q::Dbl, true) => ("12.25#", "12.25", "24.5"),
        (Q::Str, false) => ("\"g07\"", "g07", "g07!"),
        (Q::Str, true) => ("\"l12\"", "l12", "l12!"),
    }
}

// ---- the name of a parameterless FUNCTION referenced from every scope -----------------------------

/// Where a reference to the function name stands.
#[derive(Clone, Copy, PartialEq, Eq, Hash, Debug, PartialOrd, Ord)]
enum Scope {
    /// module level
    Global,
    /// inside a SUB
    Sub,
    /// inside the body of ANOTHER FUNCTION
    Func,
}

const SCOPES: [Scope; 3] = [Scope::Global, Scope::Sub, Scope::Func];

impl Scope {
    fn label(self) -> &'static str {
        match self {
            Scope::Global => "global",
            Scope::Sub => "sub",
            Scope::Func => "other-function",
        }
    }
}

/// The syntactic position of an (accepted) reference to the name of a parameterless FUNCTION.
#[derive(Clone, Copy, PartialEq, Eq, Hash, Debug, PartialOrd, Ord)]
enum RPos {
    /// `PRINT "m="; G`
    Print,
    /// `W = G : PRINT "m="; W`
    AssignRhs,
    /// `PRINT "m="; G + 1` / `G + "!"`
    Operand,
    /// `IF G = value THEN PRINT "m=yes" ELSE PRINT "m=no"`
    Cond,
    /// `SELECT CASE G` / `CASE value` ...
    SelectCase,
    /// `FOR W% = 1 TO G` (numeric functions)
    ForLimit,
    /// `PRINT "m="; H(G)` — argument of a user FUNCTION
    ArgUserFn,
    /// `H((G))`
    ArgUserFnParen,
    /// `H(G + 1)` / `H(G + "!")`
    ArgUserFnExpr,
    /// `S n, G` — argument of a user SUB
    ArgSub,
    /// `CALL S(n, G)`
    ArgCallSub,
    /// `STR$(G)` (numeric) / `LEN(G)` (string) — argument of a built-in function
    ArgBuiltIn,
    /// `A%(G)` — array subscript (numeric functions)
    Subscript,
}

const RPOSES: [RPos; 13] = [
    RPos::Print,
    RPos::ArgUserFn,
    RPos::AssignRhs,
    RPos::ArgSub,
    RPos::Operand,
    RPos::ArgBuiltIn,
    RPos::Cond,
    RPos::ArgUserFnParen,
    RPos::SelectCase,
    RPos::ArgCallSub,
    RPos::ForLimit,
    RPos::ArgUserFnExpr,
    RPos::Subscript,
];

impl RPos {
    fn label(self) -> &'static str {
        match self {
            RPos::Print => "print-item",
            RPos::AssignRhs => "assignment-rhs",
            RPos::Operand => "operand",
            RPos::Cond => "if-condition",
            RPos::SelectCase => "select-case",
            RPos::ForLimit => "for-limit",
            RPos::ArgUserFn => "user-function-arg",
            RPos::ArgUserFnParen => "user-function-arg-parenthesized",
            RPos::ArgUserFnExpr => "user-function-arg-in-expression",
            RPos::ArgSub => "user-sub-arg",
            RPos::ArgCallSub => "user-sub-arg-CALL",
            RPos::ArgBuiltIn => "built-in-function-arg",
            RPos::Subscript => "array-subscript",
        }
    }
    /// The root-cause class of the position (part of the signature; the fine position is an evidence class).
    fn group(self) -> &'static str {
        match self {
            RPos::Print | RPos::AssignRhs | RPos::Operand | RPos::Cond | RPos::SelectCase | RPos::ForLimit => "rvalue",
            _ => "argument",
        }
    }
    fn numeric_only(self) -> bool {
        matches!(self, RPos::ForLimit | RPos::Subscript)
    }
}

#[derive(Clone, Copy, PartialEq, Eq, Hash, Debug)]
struct FnSite {
    scope: Scope,
    pos: RPos,
    /// bare spelling (else the suffix of the function's type)
    bare: bool,
    cs: Cs,
}

/// A statement that uses the name of a FUNCTION as a variable / declares it again, outside that function's body.
#[derive(Clone, Copy, PartialEq, Eq, Hash, Debug)]
enum FnRej {
    /// `G = value` (bare: true) / `G<q> = value`
    Assign(bool),
    /// `FOR G = 1 TO 2` (numeric functions)
    ForCounter,
    /// `READ G`
    Read,
    /// `INPUT G`
    Input,
    /// `DIM G` (bare: true) / `DIM G<q>`
    DimCompact(bool),
    /// `DIM G AS type`
    DimExt(Ty),
    /// `CONST G = value`
    Const,
}

impl FnRej {
    fn label(self) -> &'static str {
        match self {
            FnRej::Assign(true) => "assignment-bare",
            FnRej::Assign(false) => "assignment-suffix",
            FnRej::ForCounter => "for-counter",
            FnRej::Read => "read-target",
            FnRej::Input => "input-target",
            FnRej::DimCompact(true) => "dim-compact-bare",
            FnRej::DimCompact(false) => "dim-compact-suffix",
            FnRej::DimExt(_) => "dim-extended",
            FnRej::Const => "const",
        }
    }
    fn group(self) -> &'static str {
        match self {
            FnRej::Assign(_) | FnRej::ForCounter | FnRej::Read | FnRej::Input => "used-as-variable",
            _ => "declared-again",
        }
    }
}

/// `base` is a FUNCTION WITHOUT parameters: its name alone is a call, in every scope and every position.
#[derive(Clone, PartialEq, Eq, Hash, Debug)]
struct FnRefCase {
    base: String,
    decl_sp: Sp,
    decl_cs: Cs,
    /// the result is assigned through the bare name (else through the suffix of its type)
    assign_bare: bool,
    /// the "other FUNCTION" scope has a parameter of its own (else it is parameterless, too)
    func_has_param: bool,
    sites: Vec<FnSite>,
    reject: Option<(Scope, FnRej, Cs)>,
    rot: usize,
}

impl FnRefCase {
    fn fq(&self, t: &DefTable) -> Q {
        self.decl_sp.unwrap_or(t.q[letter_of(&self.base)])
    }
    fn undetermined(&self, t: &DefTable) -> Option<&'static str> {
        let is_str = self.fq(t) == Q::Str;
        if is_str && self.sites.iter().any(|s| s.pos.numeric_only()) {
            return Some("numeric position for a string function");
        }
        if let Some((_, r, _)) = self.reject {
            if is_str && r == FnRej::ForCounter {
                return Some("numeric position for a string function");
            }
        }
        if self.sites.is_empty() && self.reject.is_none() {
            return Some("function name never referenced");
        }
        None
    }
}

// ---- a local declaration against a DIM SHARED variable of the same base name -----------------------

#[derive(Clone, Copy, PartialEq, Eq, Hash, Debug)]
enum ClashG {
    /// `DIM SHARED x<sp>`
    Compact(Sp),
    /// `DIM SHARED x AS type`
    Ext(Ty),
}

#[derive(Clone, Copy, PartialEq, Eq, Hash, Debug)]
enum ClashL {
    /// `DIM x AS type` inside the subprogram
    DimExt(Ty),
    /// parameter `x AS type`
    ParamExt(Ty),
    /// `DIM x<q>` inside the subprogram
    DimCompact(Q),
    /// parameter `x<q>`
    ParamCompact(Q),
}

/// The module level declares `base` with DIM SHARED (so it is in scope in every subprogram); a SUB/FUNCTION declares
/// the same base name again as an extended name (or, against an extended shared variable, as a qualified compact name).
#[derive(Clone, PartialEq, Eq, Hash, Debug)]
struct ClashCase {
    base: String,
    g: ClashG,
    g_array: bool,
    l: ClashL,
    l_array: bool,
    func_scope: bool,
    decl_cs: Cs,
    l_cs: Cs,
    /// an unrelated statement stands before the local DIM
    filler: bool,
}

impl ClashCase {
    /// Some(rule) when the README's rule for extended names decides that the local declaration must be rejected.
    fn must_reject(&self) -> Option<&'static str> {
        match (self.g, self.l) {
            // "these names ... when in scope, you can't have any other qualified name of the same bare name":
            // the shared variable is in scope, the new extended name cannot coexist with it
            (_, ClashL::DimExt(_)) => Some("extended-local-over-shared"),
            (_, ClashL::ParamExt(_)) => Some("extended-param-over-shared"),
            // the shared EXTENDED name is in scope: no other qualified name of that bare name
            (ClashG::Ext(_), ClashL::DimCompact(_)) => Some("compact-local-over-shared-extended"),
            (ClashG::Ext(_), ClashL::ParamCompact(_)) => Some("compact-param-over-shared-extended"),
            // compact against compact: separate variable or redefinition — not stated
            _ => None,
        }
    }
    fn undetermined(&self) -> Option<&'static str> {
        if self.must_reject().is_none() {
            return Some("a local compact declaration with the base name of a DIM SHARED compact variable");
        }
        if matches!(self.l, ClashL::ParamExt(Ty::Fix(_))) {
            return Some("STRING * n parameter");
        }
        None
    }
    fn g_kind(&self) -> String {
        format!(
            "{}{}",
            match self.g {
                ClashG::Compact(None) => "compact-bare",
                ClashG::Compact(Some(_)) => "compact-suffix",
                ClashG::Ext(Ty::Udt) => "extended-udt",
                ClashG::Ext(Ty::Fix(_)) => "extended-fixed-string",
                ClashG::Ext(_) => "extended-builtin",
            },
            if self.g_array { "-array" } else { "" }
        )
    }
    fn l_kind(&self) -> String {
        format!(
            "{}{}",
            match self.l {
                ClashL::DimExt(Ty::Udt) => "dim-extended-udt",
                ClashL::DimExt(Ty::Fix(_)) => "dim-extended-fixed-string",
                ClashL::DimExt(_) => "dim-extended-builtin",
                ClashL::ParamExt(Ty::Udt) => "param-extended-udt",
                ClashL::ParamExt(_) => "param-extended-builtin",
                ClashL::DimCompact(_) => "dim-compact-suffix",
                ClashL::ParamCompact(_) => "param-compact-suffix",
            },
            if self.l_array { "-array" } else { "" }
        )
    }
}

#[derive(Clone, PartialEq, Eq, Hash, Debug)]
enum Unit {
    Name(Case),
    Func(FnCase),
    Arr(ArrCase),
    Const(ConstCase),
    FnRef(FnRefCase),
    Clash(ClashCase),
}

// ------------------------------------------------------------------------------------------------
// the reference resolver
// ------------------------------------------------------------------------------------------------

#[derive(Clone, Copy, PartialEq, Eq, Hash, Debug, PartialOrd, Ord)]
enum Key {
    C(Q),
    Ext,
}

#[derive(Clone, Copy, PartialEq, Eq, Hash, Debug, PartialOrd, Ord)]
enum Slot {
    G(Key),
    L(Key),
}

#[derive(Clone, Copy, PartialEq, Eq, Debug)]
enum Res {
    Var(Slot),
    ConstG,
    ConstL,
    /// the checker must reject the statement
    Reject,
    /// neither the statement nor the README decide
    Undet(&'static str),
}

fn ext_res(ty: Ty, sp: Sp, slot: Slot) -> Res {
    match sp {
        None => Res::Var(slot),
        Some(q) if ty.matching() == Some(q) => Res::Var(slot),
        Some(_) => Res::Reject,
    }
}

/// What a reference through `sp` denotes in the GLOBAL scope.
fn res_global(c: &Case, t: &DefTable, sp: Sp) -> Res {
    let dq = t.q[letter_of(&c.base)];
    match &c.g {
        GDecl::Absent => Res::Undet("reference in a scope that is configured not to mention the name"),
        GDecl::Const { sp: d, .. } => {
            if sp == *d {
                Res::ConstG
            } else {
                Res::Undet("a CONST referenced through another spelling than its declaration (coexistence of a CONST with variables of the same base name is not stated)")
            }
        }
        GDecl::DimExt { ty, .. } => ext_res(*ty, sp, Slot::G(Key::Ext)),
        GDecl::Implicit | GDecl::DimCompact { .. } => Res::Var(Slot::G(Key::C(sp.unwrap_or(dq)))),
    }
}

/// What a reference through `sp` denotes inside the SUB/FUNCTION scope.
fn res_sub(c: &Case, t: &DefTable, sp: Sp) -> Res {
    let dq = t.q[letter_of(&c.base)];
    match &c.s {
        SDecl::Absent => Res::Undet("reference in a scope that is configured not to mention the name"),
        SDecl::Const { sp: d, .. } => {
            if sp == *d {
                Res::ConstL
            } else {
                Res::Undet("a CONST referenced through another spelling than its declaration (coexistence of a CONST with variables of the same base name is not stated)")
            }
        }
        SDecl::DimExt(ty) | SDecl::ParamExt(ty) => ext_res(*ty, sp, Slot::L(Key::Ext)),
        SDecl::Implicit | SDecl::DimCompact(_) | SDecl::ParamCompact(_) => match &c.g {
            GDecl::Const { sp: d, .. } => {
                if sp == *d {
                    Res::ConstG
                } else {
                    Res::Undet("a CONST referenced through another spelling than its declaration (coexistence of a CONST with variables of the same base name is not stated)")
                }
            }
            GDecl::DimExt { ty, shared: true } => ext_res(*ty, sp, Slot::G(Key::Ext)),
            GDecl::DimCompact { sps, shared: true } => {
                let q = sp.unwrap_or(dq);
                if sps.iter().any(|d| d.unwrap_or(dq) == q) { Res::Var(Slot::G(Key::C(q))) } else { Res::Var(Slot::L(Key::C(q))) }
            }
            _ => Res::Var(Slot::L(Key::C(sp.unwrap_or(dq)))),
        },
    }
}

/// Combinations of declarations about which the statement and the README are silent.
fn case_undetermined(c: &Case, t: &DefTable) -> Option<&'static str> {
    let dq = t.q[letter_of(&c.base)];
    let dup = |sps: &Vec<Sp>| -> bool {
        let mut seen = BTreeSet::new();
        sps.iter().any(|s| !seen.insert(s.unwrap_or(dq)))
    };
    if let GDecl::DimCompact { sps, .. } = &c.g {
        if sps.is_empty() || dup(sps) {
            return Some("the same variable DIMmed twice");
        }
    }
    if let SDecl::DimCompact(sps) = &c.s {
        if sps.is_empty() || dup(sps) {
            return Some("the same variable DIMmed twice");
        }
    }
    let s_declares = !matches!(c.s, SDecl::Absent | SDecl::Implicit);
    if c.g.shared() && s_declares {
        return Some("a local declaration / parameter / CONST with the base name of a DIM SHARED variable");
    }
    if matches!(c.g, GDecl::Const { .. }) && s_declares {
        return Some("a local declaration / parameter / CONST with the base name of a global CONST");
    }
    if let GDecl::Const { sp, str_val } = &c.g {
        if (*sp == Some(Q::Str)) != *str_val && sp.is_some() {
            return Some("CONST whose qualifier does not fit its value");
        }
    }
    if let SDecl::Const { sp, str_val } = &c.s {
        if (*sp == Some(Q::Str)) != *str_val && sp.is_some() {
            return Some("CONST whose qualifier does not fit its value");
        }
    }
    if matches!(c.s, SDecl::ParamExt(Ty::Fix(_))) {
        return Some("STRING * n parameter");
    }
    None
}

// ------------------------------------------------------------------------------------------------
// rendering + expected values
// ------------------------------------------------------------------------------------------------

#[derive(Clone, Debug, PartialEq)]
enum LK {
    /// a statement that must be accepted; the tag names the rule it exercises
    Stmt,
    /// PRINT "marker="; ref  — with the expected text after the `=`
    Print { marker: String, expected: String },
    /// the statement the checker must reject
    Reject,
}

#[derive(Clone, Debug)]
struct L {
    text: String,
    tag: String,
    kind: LK,
    /// for an assignment: (text of the value, bare-name rule if the assignment goes through the bare name of a compact variable)
    wrote: Option<(String, Option<String>)>,
}

fn stmt(text: String, tag: &str) -> L {
    L { text, tag: tag.to_string(), kind: LK::Stmt, wrote: None }
}

#[derive(Default)]
struct UnitOut {
    g1: Vec<L>,
    g2: Vec<L>,
    sub: Vec<L>,
    /// module-level statements after the subprogram definitions
    tail: Vec<L>,
    udt: bool,
}

fn val_text(id: u32, is_str: bool) -> String {
    if is_str { format!("v{:02}", id % 100) } else { id.to_string() }
}

fn val_lit(id: u32, is_str: bool) -> String {
    if is_str { format!("\"{}\"", val_text(id, true)) } else { id.to_string() }
}

struct CaseRender<'a> {
    c: &'a Case,
    t: &'a DefTable,
    idx: usize,
    up: bool,
    /// slot -> (value id, spelling of the last writer)
    store: BTreeMap<Slot, (u32, Sp)>,
    next_val: u32,
    next_marker: u32,
}

impl<'a> CaseRender<'a> {
    fn letter(&self) -> usize {
        letter_of(&self.c.base)
    }
    fn slot_ty(&self, slot: Slot) -> Option<Ty> {
        match slot {
            Slot::G(Key::Ext) => match &self.c.g {
                GDecl::DimExt { ty, .. } => Some(*ty),
                _ => None,
            },
            Slot::L(Key::Ext) => match &self.c.s {
                SDecl::DimExt(ty) | SDecl::ParamExt(ty) => Some(*ty),
                _ => None,
            },
            _ => None,
        }
    }
    fn slot_is_str(&self, slot: Slot) -> bool {
        match slot {
            Slot::G(Key::C(q)) | Slot::L(Key::C(q)) => q == Q::Str,
            _ => self.slot_ty(slot).map(|t| t.is_str()).unwrap_or(false),
        }
    }
    fn is_param_slot(&self, slot: Slot) -> bool {
        let dq = self.t.q[self.letter()];
        match (&self.c.s, slot) {
            (SDecl::ParamCompact(sp), Slot::L(Key::C(q))) => sp.unwrap_or(dq) == q,
            (SDecl::ParamExt(_), Slot::L(Key::Ext)) => true,
            _ => false,
        }
    }
    fn name(&self, sp: Sp, cs: Cs) -> String {
        let mut s = styled(&self.c.base, cs, self.up);
        if let Some(q) = sp {
            s.push(q.ch());
        }
        s
    }
    /// The text of a reference that resolved to `slot`.
    fn ref_text(&self, sp: Sp, cs: Cs, slot: Option<Slot>) -> String {
        let n = self.name(sp, cs);
        match slot.and_then(|s| self.slot_ty(s)) {
            Some(Ty::Udt) => format!("{}.{}", n, UDT_FIELD),
            _ => n,
        }
    }
    /// The rule a reference exercises. A compact variable read through a suffix after it was written
    /// through the bare name (or the other way round) exercises the bare-name rule.
    fn spelling_kind(&self, res: &Res, sp: Sp) -> String {
        match res {
            Res::Var(slot @ (Slot::G(Key::C(_)) | Slot::L(Key::C(_)))) => {
                let writer_bare = self.store.get(slot).map(|(_, w)| w.is_none()).unwrap_or(false);
                if sp.is_none() || writer_bare {
                    if self.t.explicit[self.letter()] { "bare-deftype".into() } else { "bare-default".into() }
                } else {
                    "suffix-compact".into()
                }
            }
            Res::Var(_) => match sp {
                None => "extended-bare".into(),
                Some(_) => "extended-matching-suffix".into(),
            },
            _ => "const".into(),
        }
    }
    fn tag(&self, in_sub: bool, res: &Res, sp: Sp) -> String {
        let k = self.spelling_kind(res, sp);
        if !in_sub {
            return k;
        }
        match res {
            Res::ConstG => "global-const-in-sub".into(),
            Res::ConstL => "local-const".into(),
            Res::Var(s @ Slot::L(_)) => if self.is_param_slot(*s) { format!("param-{}", k) } else { format!("local-{}", k) },
            Res::Var(Slot::G(_)) => format!("shared-{}", k),
            _ => k,
        }
    }
    fn marker(&mut self) -> String {
        self.next_marker += 1;
        format!("k{}.{}", self.idx, self.next_marker)
    }
    /// Expected printed text of a reference (None: not pinned — an unassigned fixed-length string).
    fn expected(&self, res: &Res) -> Option<String> {
        match res {
            Res::ConstG => match &self.c.g {
                GDecl::Const { str_val, .. } => Some(val_text(GCONST_VAL, *str_val)),
                _ => None,
            },
            Res::ConstL => match &self.c.s {
                SDecl::Const { str_val, .. } => Some(val_text(SCONST_VAL, *str_val)),
                _ => None,
            },
            Res::Var(slot) => {
                let is_str = self.slot_is_str(*slot);
                match self.store.get(slot) {
                    Some((id, _)) => Some(val_text(*id, is_str)),
                    None => {
                        if matches!(self.slot_ty(*slot), Some(Ty::Fix(_))) {
                            None
                        } else if is_str {
                            Some(String::new())
                        } else {
                            Some("0".to_string())
                        }
                    }
                }
            }
            _ => None,
        }
    }
    fn print_line(&mut self, in_sub: bool, res: &Res, sp: Sp, cs: Cs, tag_override: Option<&str>) -> Option<L> {
        let expected = self.expected(res)?;
        let slot = if let Res::Var(s) = res { Some(*s) } else { None };
        let marker = self.marker();
        let text = format!("PRINT \"{}=\"; {}", marker, self.ref_text(sp, cs, slot));
        let tag = tag_override.map(|s| s.to_string()).unwrap_or_else(|| self.tag(in_sub, res, sp));
        Some(L { text, tag, kind: LK::Print { marker, expected }, wrote: None })
    }
    fn assign_line(&mut self, in_sub: bool, res: &Res, sp: Sp, cs: Cs) -> Option<L> {
        let Res::Var(slot) = res else { return None };
        let id = self.next_val;
        self.next_val += 1;
        let text = format!("{} = {}", self.ref_text(sp, cs, Some(*slot)), val_lit(id, self.slot_is_str(*slot)));
        let tag = self.tag(in_sub, res, sp);
        self.store.insert(*slot, (id, sp));
        let bare_rule = if sp.is_none() && matches!(slot, Slot::G(Key::C(_)) | Slot::L(Key::C(_))) { Some(self.spelling_kind(res, sp)) } else { None };
        let mut l = stmt(text, &tag);
        l.wrote = Some((val_text(id, self.slot_is_str(*slot)), bare_rule));
        Some(l)
    }
    fn reject_line(&mut self, r: &Reject) -> L {
        let site = if r.in_sub {
            match &self.c.s {
                SDecl::ParamExt(_) => "param",
                SDecl::DimExt(_) | SDecl::DimCompact(_) => "local",
                _ => "shared-in-sub",
            }
        } else if self.c.g.shared() {
            "global-shared"
        } else {
            "global"
        };
        let shared_kw = if !r.in_sub && self.c.g.shared() { "SHARED " } else { "" };
        match r.kind {
            RejKind::Assign(sp) => {
                let text = format!("{} = {}", self.name(sp, r.cs), val_lit(99, sp == Some(Q::Str)));
                L { text, tag: format!("extended-foreign-suffix-accepted:{}", site), kind: LK::Reject, wrote: None }
            }
            RejKind::Print(sp) => {
                let text = format!("PRINT \"k{}.r=\"; {}", self.idx, self.name(sp, r.cs));
                L { text, tag: format!("extended-foreign-suffix-accepted:{}", site), kind: LK::Reject, wrote: None }
            }
            RejKind::DimCompactAfterExt(sp) => {
                let text = format!("DIM {}{}", shared_kw, self.name(sp, r.cs));
                L { text, tag: format!("extended-and-compact-dim-accepted:{}", site), kind: LK::Reject, wrote: None }
            }
            RejKind::DimExtAfterCompact(ty) => {
                let text = format!("DIM {}{} AS {}", shared_kw, self.name(None, r.cs), ty.text());
                L { text, tag: format!("extended-and-compact-dim-accepted:{}", site), kind: LK::Reject, wrote: None }
            }
        }
    }
}

fn render_case(c: &Case, t: &DefTable, idx: usize, up: bool) -> UnitOut {
    let mut r = CaseRender { c, t, idx, up, store: BTreeMap::new(), next_val: 1, next_marker: 0 };
    let mut out = UnitOut::default();
    let uses_udt = |ty: &Ty| *ty == Ty::Udt;
    // ---- global scope, before the call
    match &c.g {
        GDecl::Absent | GDecl::Implicit => {}
        GDecl::DimCompact { sps, shared } => {
            for sp in sps {
                out.g1.push(stmt(format!("DIM {}{}", if *shared { "SHARED " } else { "" }, r.name(*sp, c.decl_cs)), if *shared { "decl-dim-shared-compact" } else { "decl-dim-compact" }));
            }
        }
        GDecl::DimExt { ty, shared } => {
            out.udt |= uses_udt(ty);
            out.g1.push(stmt(
                format!("DIM {}{} AS {}", if *shared { "SHARED " } else { "" }, r.name(None, c.decl_cs), ty.text()),
                if *shared { "decl-dim-shared-extended" } else { "decl-dim-extended" },
            ));
        }
        GDecl::Const { sp, str_val } => {
            out.g1.push(stmt(format!("CONST {} = {}", r.name(*sp, c.decl_cs), val_lit(GCONST_VAL, *str_val)), "decl-const"));
        }
    }
    let g_res: Vec<(RefSp, Res)> = c.g_refs.iter().map(|rf| (*rf, res_global(c, t, rf.sp))).filter(|(_, res)| matches!(res, Res::Var(_) | Res::ConstG)).collect();
    for (rf, res) in &g_res {
        if let Some(l) = r.assign_line(false, res, rf.sp, rf.cs) {
            out.g1.push(l);
        }
    }
    for (rf, res) in &g_res {
        for cs in [rf.cs, rf.cs2] {
            if let Some(l) = r.print_line(false, res, rf.sp, cs, None) {
                out.g1.push(l);
            }
        }
    }
    if let Some(rej) = &c.reject {
        if !rej.in_sub {
            let l = r.reject_line(rej);
            out.g1.push(l);
        }
    }
    // ---- the subprogram
    let mut written_globals: BTreeSet<Slot> = BTreeSet::new();
    if c.s != SDecl::Absent {
        let sub_name = if c.func_scope { format!("Fb{}%", idx) } else { format!("Sb{}", idx) };
        let mut params: Vec<String> = vec![];
        let mut args: Vec<String> = vec![];
        if c.func_scope {
            params.push("Wp%".to_string());
            args.push("0".to_string());
        }
        match &c.s {
            SDecl::ParamCompact(sp) => {
                let q = sp.unwrap_or(t.q[r.letter()]);
                params.push(r.name(*sp, c.decl_cs));
                args.push(val_lit(ARG_VAL, q == Q::Str));
                r.store.insert(Slot::L(Key::C(q)), (ARG_VAL, *sp));
            }
            SDecl::ParamExt(ty) => {
                out.udt |= uses_udt(ty);
                params.push(format!("{} AS {}", r.name(None, c.decl_cs), ty.text()));
                if *ty == Ty::Udt {
                    out.g1.push(stmt(format!("DIM Wtmp{} AS {}", idx, UDT_NAME), "call-setup"));
                    out.g1.push(stmt(format!("Wtmp{}.{} = {}", idx, UDT_FIELD, ARG_VAL), "call-setup"));
                    args.push(format!("Wtmp{}", idx));
                } else {
                    args.push(val_lit(ARG_VAL, ty.is_str()));
                }
                r.store.insert(Slot::L(Key::Ext), (ARG_VAL, None));
            }
            _ => {}
        }
        // the call
        let call = if c.func_scope {
            format!("Wret% = {}({})", sub_name, args.join(", "))
        } else if args.is_empty() {
            sub_name.clone()
        } else {
            format!("{} {}", sub_name, args.join(", "))
        };
        out.g1.push(stmt(call, "call"));
        let header = if c.func_scope {
            format!("FUNCTION {} ({})", sub_name, params.join(", "))
        } else if params.is_empty() {
            format!("SUB {}", sub_name)
        } else {
            format!("SUB {} ({})", sub_name, params.join(", "))
        };
        out.sub.push(stmt(header, "decl-subprogram-header"));
        match &c.s {
            SDecl::DimCompact(sps) => {
                for sp in sps {
                    out.sub.push(stmt(format!("DIM {}", r.name(*sp, c.decl_cs)), "decl-local-dim-compact"));
                }
            }
            SDecl::DimExt(ty) => {
                out.udt |= uses_udt(ty);
                out.sub.push(stmt(format!("DIM {} AS {}", r.name(None, c.decl_cs), ty.text()), "decl-local-dim-extended"));
            }
            SDecl::Const { sp, str_val } => {
                out.sub.push(stmt(format!("CONST {} = {}", r.name(*sp, c.decl_cs), val_lit(SCONST_VAL, *str_val)), "decl-local-const"));
            }
            _ => {}
        }
        let s_res: Vec<(RefSp, Res)> =
            c.s_refs.iter().map(|rf| (*rf, res_sub(c, t, rf.sp))).filter(|(_, res)| matches!(res, Res::Var(_) | Res::ConstG | Res::ConstL)).collect();
        // before any assignment of the subprogram: fresh local / parameter / shared / constant?
        for (rf, res) in &s_res {
            if let Some(l) = r.print_line(true, res, rf.sp, rf.cs2, None) {
                out.sub.push(l);
            }
        }
        for (rf, res) in &s_res {
            if let Some(l) = r.assign_line(true, res, rf.sp, rf.cs) {
                if let Res::Var(s @ Slot::G(_)) = res {
                    written_globals.insert(*s);
                }
                out.sub.push(l);
            }
        }
        for (rf, res) in &s_res {
            for cs in [rf.cs, rf.cs2] {
                if let Some(l) = r.print_line(true, res, rf.sp, cs, None) {
                    out.sub.push(l);
                }
            }
        }
        if let Some(rej) = &c.reject {
            if rej.in_sub {
                let l = r.reject_line(rej);
                out.sub.push(l);
            }
        }
        if c.func_scope {
            out.sub.push(stmt(format!("{} = 1", sub_name), "subprogram-frame"));
            out.sub.push(stmt("END FUNCTION".to_string(), "subprogram-frame"));
        } else {
            out.sub.push(stmt("END SUB".to_string(), "subprogram-frame"));
        }
        // ---- global scope, after the call
        for (rf, res) in &g_res {
            let tag = match res {
                Res::Var(s) if written_globals.contains(s) => "after-call-shared-updated",
                Res::Var(_) => "after-call-unshared-intact",
                _ => "after-call-const",
            };
            if let Some(l) = r.print_line(false, res, rf.sp, rf.cs2, Some(tag)) {
                out.g2.push(l);
            }
        }
    }
    out
}

impl FnCase {
    fn fq(&self, t: &DefTable) -> Q {
        self.decl_sp.unwrap_or(t.q[letter_of(&self.base)])
    }
    /// The debug assertion of Compacts::insert_compact fires when the result of a function whose type is
    /// not the default type of its bare name is assigned through the bare spelling after an earlier assignment.
    fn reassigns_bare_result_of_non_default_type(&self, t: &DefTable) -> bool {
        self.fq(t) != t.q[letter_of(&self.base)] && self.assigns.iter().enumerate().any(|(i, (bare, _))| *bare && i > 0)
    }
}

fn render_fn(f: &FnCase, t: &DefTable, idx: usize, up: bool) -> UnitOut {
    let mut out = UnitOut::default();
    let fq = f.fq(t);
    let is_str = fq == Q::Str;
    let letter = letter_of(&f.base);
    let name = |bare: bool, cs: Cs| -> String {
        let mut s = styled(&f.base, cs, up);
        if !bare {
            s.push(fq.ch());
        }
        s
    };
    // a FUNCTION declared through its bare name exercises the bare-name rule with every spelling
    let kind = |bare: bool| -> &'static str {
        if f.decl_sp.is_none() {
            if t.explicit[letter] { "bare-deftype" } else { "bare-default" }
        } else if bare {
            "bare-of-qualified"
        } else {
            "suffix"
        }
    };
    let mut decl = styled(&f.base, f.decl_cs, up);
    if let Some(q) = f.decl_sp {
        decl.push(q.ch());
    }
    out.sub.push(stmt(format!("FUNCTION {} (Wp%)", decl), "decl-function"));
    let mut last = 0;
    for (i, (bare, cs)) in f.assigns.iter().enumerate() {
        last = i as u32 + 1;
        out.sub.push(stmt(format!("{} = {}", name(*bare, *cs), val_lit(last, is_str)), &format!("function-result-{}", kind(*bare))));
    }
    out.sub.push(stmt("END FUNCTION".to_string(), "subprogram-frame"));
    let expected = if last == 0 { if is_str { String::new() } else { "0".to_string() } } else { val_text(last, is_str) };
    for (n, (bare, cs)) in f.calls.iter().enumerate() {
        let marker = format!("k{}.{}", idx, n + 1);
        out.g1.push(L {
            text: format!("PRINT \"{}=\"; {}(0)", marker, name(*bare, *cs)),
            tag: format!("function-call-{}", kind(*bare)),
            kind: LK::Print { marker, expected: expected.clone() },
            wrote: None,
        });
    }
    out
}

fn print_l(marker: String, expr: &str, expected: &str, tag: &str) -> L {
    L { text: format!("PRINT \"{}=\"; {}", marker, expr), tag: tag.to_string(), kind: LK::Print { marker, expected: expected.to_string() }, wrote: None }
}

fn render_arr(a: &ArrCase, t: &DefTable, idx: usize, up: bool) -> UnitOut {
    let mut out = UnitOut::default();
    let eq = a.elem_q(t);
    let udt = eq.is_none();
    out.udt = udt;
    let is_str = eq == Some(Q::Str);
    let gbase = if a.same_name { a.base.clone() } else { format!("{}w", a.base) };
    let nm = |base: &str, sp: Sp, cs: Cs| -> String {
        let mut s = styled(base, cs, up);
        if let Some(q) = sp {
            s.push(q.ch());
        }
        s
    };
    let el = |name: String, i: usize| -> String { if udt { format!("{}({}).{}", name, i, UDT_FIELD) } else { format!("{}({})", name, i) } };
    let mut next_marker = 0u32;
    let mut marker = || {
        next_marker += 1;
        format!("k{}.{}", idx, next_marker)
    };
    let explicit = t.explicit[letter_of(&a.base)];
    let bare_rule = if explicit { "bare-deftype" } else { "bare-default" };
    // ---- the caller's array
    let g_sps = a.g_sps(t);
    let gs = |i: usize| -> (Sp, Cs) { (g_sps[(i + a.rot) % g_sps.len()], CASES[(i + a.rot) % 4]) };
    let g_tag = |sp: Sp| -> String {
        match (a.arg, sp) {
            (ArgDecl::Ext, None) => "array-extended-bare".into(),
            (ArgDecl::Ext, Some(_)) => "array-extended-matching-suffix".into(),
            (ArgDecl::CompactBare, _) | (_, None) => format!("array-compact-{}", bare_rule),
            _ => "array-compact-suffix".into(),
        }
    };
    let dim = match a.arg {
        ArgDecl::CompactSuffix => format!("DIM {}(1 TO 3)", nm(&gbase, eq, a.decl_cs)),
        ArgDecl::CompactBare => format!("DIM {}(1 TO 3)", nm(&gbase, None, a.decl_cs)),
        ArgDecl::Ext => format!("DIM {}(1 TO 3) AS {}", nm(&gbase, None, a.decl_cs), match a.p {
            APDecl::Ext(ty) => ty.text(),
            APDecl::Compact(_) => eq.map(|q| q.type_kw().to_string()).unwrap_or_default(),
        }),
    };
    out.g1.push(stmt(dim, match a.arg { ArgDecl::Ext => "decl-array-extended", _ => "decl-array-compact" }));
    // element -> value id
    let mut store: [u32; 4] = [0; 4];
    let mut next_val = 1u32;
    for i in 1..=2usize {
        let (sp, cs) = gs(i);
        let mut l = stmt(format!("{} = {}", el(nm(&gbase, sp, cs), i), val_lit(next_val, is_str)), &g_tag(sp));
        l.wrote = Some((val_text(next_val, is_str), None));
        store[i] = next_val;
        next_val += 1;
        out.g1.push(l);
    }
    let show = |id: u32| -> String { if id == 0 { if is_str { String::new() } else { "0".into() } } else { val_text(id, is_str) } };
    for i in 1..=2usize {
        let (sp, cs) = gs(i + 1);
        out.g1.push(print_l(marker(), &el(nm(&gbase, sp, cs), i), &show(store[i]), &g_tag(sp)));
    }
    // ---- the call
    let sub_name = if a.func_scope { format!("Fa{}%", idx) } else { format!("Sa{}", idx) };
    let (asp, acs) = gs(0);
    let arg_text = format!("{}()", nm(&gbase, asp, acs));
    out.g1.push(stmt(if a.func_scope { format!("Wret% = {}({})", sub_name, arg_text) } else { format!("{} {}", sub_name, arg_text) }, "call-with-array-argument"));
    // ---- the subprogram
    let pdecl = match a.p {
        APDecl::Compact(sp) => format!("{}()", nm(&a.base, sp, a.decl_cs)),
        APDecl::Ext(ty) => format!("{}() AS {}", nm(&a.base, None, a.decl_cs), ty.text()),
    };
    out.sub.push(stmt(
        if a.func_scope { format!("FUNCTION {} ({})", sub_name, pdecl) } else { format!("SUB {} ({})", sub_name, pdecl) },
        &format!("decl-array-parameter-{}", a.p_kind()),
    ));
    let p_tag = |sp: Sp| -> String {
        match (a.p, sp) {
            (APDecl::Ext(Ty::Udt), _) => "arrparam-extended-udt-bare".into(),
            (APDecl::Ext(_), None) => "arrparam-extended-bare".into(),
            (APDecl::Ext(_), Some(_)) => "arrparam-extended-matching-suffix".into(),
            (APDecl::Compact(None), _) | (APDecl::Compact(_), None) => format!("arrparam-compact-{}", bare_rule),
            (APDecl::Compact(Some(_)), Some(_)) => "arrparam-compact-suffix".into(),
        }
    };
    let ps: Vec<RefSp> = a.refs.iter().filter(|r| a.res(t, r.sp) == ARes::Param).cloned().collect();
    if !ps.is_empty() {
        // the elements hold the caller's values
        for (i, rf) in ps.iter().enumerate() {
            let e = 1 + i % 3;
            out.sub.push(print_l(marker(), &el(nm(&a.base, rf.sp, rf.cs2), e), &show(store[e]), &p_tag(rf.sp)));
        }
        // written through one spelling ...
        let writers = [ps[0], ps[1 % ps.len()], ps[ps.len() - 1]];
        for (k, rf) in writers.iter().enumerate() {
            let e = k + 1;
            let mut l = stmt(format!("{} = {}", el(nm(&a.base, rf.sp, rf.cs), e), val_lit(next_val, is_str)), &p_tag(rf.sp));
            l.wrote = Some((val_text(next_val, is_str), None));
            store[e] = next_val;
            next_val += 1;
            out.sub.push(l);
        }
        // ... read through every spelling
        for (i, rf) in ps.iter().enumerate() {
            for k in 0..3usize {
                let e = 1 + (i + k) % 3;
                if k == 2 && ps.len() > 2 {
                    continue;
                }
                out.sub.push(print_l(marker(), &el(nm(&a.base, rf.sp, if k == 0 { rf.cs } else { rf.cs2 }), e), &show(store[e]), &p_tag(rf.sp)));
            }
        }
    }
    if let Some((sp, cs)) = a.scalar {
        // a compact array parameter does not reserve the other suffixes: a fresh local scalar
        let s_str = sp.unwrap_or(a.dq(t)) == Q::Str;
        let tag = "arrparam-compact-other-type-scalar";
        out.sub.push(print_l(marker(), &nm(&a.base, sp, cs), if s_str { "" } else { "0" }, tag));
        let mut l = stmt(format!("{} = {}", nm(&a.base, sp, cs), val_lit(next_val, s_str)), tag);
        l.wrote = Some((val_text(next_val, s_str), None));
        out.sub.push(l);
        out.sub.push(print_l(marker(), &nm(&a.base, sp, cs), &val_text(next_val, s_str), tag));
        if let Some(rf) = ps.first() {
            out.sub.push(print_l(marker(), &el(nm(&a.base, rf.sp, rf.cs), 1), &show(store[1]), &p_tag(rf.sp)));
        }
    }
    if let Some((r, cs)) = a.reject {
        let q = r.q();
        let n = nm(&a.base, Some(q), cs);
        let (text, form) = match r {
            ArrRej::ScalarAssign(_) => (format!("{} = {}", n, val_lit(99, q == Q::Str)), "scalar"),
            ArrRej::ScalarPrint(_) => (format!("PRINT \"k{}.r=\"; {}", idx, n), "scalar"),
            ArrRej::ElemAssign(_) => (format!("{}(1) = {}", n, val_lit(99, q == Q::Str)), "element"),
            ArrRej::ElemPrint(_) => (format!("PRINT \"k{}.r=\"; {}(1)", idx, n), "element"),
        };
        out.sub.push(L { text, tag: format!("arrparam-extended-foreign-suffix-accepted:{}", form), kind: LK::Reject, wrote: None });
    }
    if a.func_scope {
        out.sub.push(stmt(format!("{} = 1", sub_name), "subprogram-frame"));
        out.sub.push(stmt("END FUNCTION".to_string(), "subprogram-frame"));
    } else {
        out.sub.push(stmt("END SUB".to_string(), "subprogram-frame"));
    }
    // ---- after the call: the elements written inside the subprogram are the caller's
    for i in 1..=3usize {
        let (sp, cs) = gs(i + 2);
        out.g2.push(print_l(marker(), &el(nm(&gbase, sp, cs), i), &show(store[i]), "after-call-array-argument-updated"));
    }
    out
}

fn render_const(c: &ConstCase, _t: &DefTable, idx: usize, up: bool) -> UnitOut {
    let mut out = UnitOut::default();
    let nm = |sp: Sp, cs: Cs| -> String {
        let mut s = styled(&c.base, cs, up);
        if let Some(q) = sp {
            s.push(q.ch());
        }
        s
    };
    let mut next_marker = 0u32;
    let mut marker = || {
        next_marker += 1;
        format!("k{}.{}", idx, next_marker)
    };
    let mut n_ref = c.rot;
    // Statements that reference the constant `d` (the innermost definition in `scope`):
    // directly (bare and suffixed), inside a later CONST expression, as a STRING * n length.
    let mut uses = |d: CDef, local: bool, scope: &str, site: &str, out: &mut Vec<L>| {
        let (_, shown, doubled) = const_val(d.kind, local);
        // the two spellings: bare, and the suffix of the constant's type
        let sps = [None, Some(d.kind)];
        let sp_tag = |sp: Sp| -> &'static str {
            match (sp, d.sp) {
                (None, None) => "bare-of-bare-decl",
                (None, Some(_)) => "bare-of-suffixed-decl",
                (Some(_), None) => "suffix-of-bare-decl",
                (Some(_), Some(_)) => "suffix-of-suffixed-decl",
            }
        };
        for sp in sps {
            n_ref += 1;
            out.push(print_l(marker(), &nm(sp, CASES[n_ref % 4]), shown, &format!("{}-direct-{}", site, sp_tag(sp))));
        }
        // a later constant expression of the same scope
        for (k, sp) in sps.iter().enumerate() {
            n_ref += 1;
            let dn = format!("M{}{}{}{}", scope, idx, k, if d.kind == Q::Str && (n_ref % 2 == 0) { "$" } else { "" });
            let expr = if d.kind == Q::Str { format!("{} + \"!\"", nm(*sp, CASES[n_ref % 4])) } else { format!("{} * 2", nm(*sp, CASES[n_ref % 4])) };
            out.push(stmt(format!("CONST {} = {}", dn, expr), &format!("{}-in-const-expr-{}", site, sp_tag(*sp))));
            out.push(print_l(marker(), &dn, doubled, &format!("{}-in-const-expr-{}", site, sp_tag(*sp))));
        }
        if d.kind == Q::Int {
            n_ref += 1;
            let sp = sps[n_ref % 2];
            let bn = format!("B{}{}", scope, idx);
            out.push(stmt(format!("DIM {} AS STRING * {}", bn, nm(sp, CASES[n_ref % 4])), &format!("{}-as-string-length-{}", site, sp_tag(sp))));
            out.push(print_l(marker(), &format!("LEN({})", bn), shown, &format!("{}-as-string-length-{}", site, sp_tag(sp))));
        }
    };
    let (glit, _, _) = const_val(c.g.kind, false);
    let (llit, _, _) = const_val(c.l.kind, true);
    // ---- module level, before the calls
    out.g1.push(stmt(format!("CONST {} = {}", nm(c.g.sp, c.decl_cs), glit), "decl-const"));
    uses(c.g, false, "g", "const-global", &mut out.g1);
    // ---- subprograms: [other1] redef other2
    let subprogram = |name: &str, func: bool, body: Vec<L>, out: &mut UnitOut| {
        if func {
            out.g1.push(stmt(format!("Wret% = {}%(0)", name), "call"));
            out.sub.push(stmt(format!("FUNCTION {}% (Wp%)", name), "decl-subprogram-header"));
        } else {
            out.g1.push(stmt(name.to_string(), "call"));
            out.sub.push(stmt(format!("SUB {}", name), "decl-subprogram-header"));
        }
        out.sub.extend(body);
        if func {
            out.sub.push(stmt(format!("{}% = 1", name), "subprogram-frame"));
            out.sub.push(stmt("END FUNCTION".to_string(), "subprogram-frame"));
        } else {
            out.sub.push(stmt("END SUB".to_string(), "subprogram-frame"));
        }
    };
    let mut body = vec![];
    uses(c.g, false, "p", "const-global-in-sub-before-shadowing-sub", &mut body);
    subprogram(&format!("Cp{}", idx), c.other_func, body, &mut out);
    let mut body = vec![stmt(format!("CONST {} = {}", nm(c.l.sp, CASES[(c.rot + 1) % 4]), llit), "decl-local-const-shadowing-global")];
    uses(c.l, true, "r", "const-local-shadow", &mut body);
    subprogram(&format!("Cr{}", idx), c.redef_func, body, &mut out);
    let mut body = vec![];
    uses(c.g, false, "q", "const-global-in-sub-after-shadowing-sub", &mut body);
    subprogram(&format!("Cq{}", idx), !c.other_func, body, &mut out);
    // ---- module level, after the calls
    uses(c.g, false, "h", "after-call-const-global", &mut out.g2);
    if c.tail {
        uses(c.g, false, "t", "after-subprograms-const-global", &mut out.tail);
    }
    out
}

/// A parameterless FUNCTION whose name is referenced (bare / with the suffix of its type) at module level, inside a
/// SUB and inside ANOTHER FUNCTION, in r-value and in argument positions: every reference is a call (prints the
/// function's value); a statement that treats the name as a variable or declares it again must be rejected.
fn render_fnref(f: &FnRefCase, t: &DefTable, idx: usize, up: bool) -> UnitOut {
    let mut out = UnitOut::default();
    let fq = f.fq(t);
    let is_str = fq == Q::Str;
    let sfx = fq.ch();
    let id: u32 = 3 + ((idx + f.rot) % 6) as u32;
    let lit = val_lit(id, is_str);
    let shown = val_text(id, is_str);
    let plus = if is_str { format!("{}!", shown) } else { (id + 1).to_string() };
    let nm = |bare: bool, cs: Cs| -> String {
        let mut s = styled(&f.base, cs, up);
        if !bare {
            s.push(sfx);
        }
        s
    };
    let hh = format!("Hh{}{}", idx, sfx);
    let hs = format!("Hs{}", idx);
    let wv = format!("Wv{}{}", idx, sfx);
    let wa = format!("Wa{}%", idx);
    let wc = format!("Wc{}%", idx);
    let wi = format!("Wi{}%", idx);
    let mut next_marker = 0u32;
    let mut need_hh = false;
    let mut need_hs = false;
    let mut lines_of = |s: &FnSite, need_hh: &mut bool, need_hs: &mut bool| -> Vec<L> {
        next_marker += 1;
        let mnum = next_marker;
        let marker = format!("k{}.{}", idx, mnum);
        let tag = format!("function-name-{}-in-{}", s.pos.group(), s.scope.label());
        let n = nm(s.bare, s.cs);
        let pr = |text: String, expected: &str| -> L { L { text, tag: tag.clone(), kind: LK::Print { marker: marker.clone(), expected: expected.to_string() }, wrote: None } };
        let op = if is_str { format!("{} + \"!\"", n) } else { format!("{} + 1", n) };
        match s.pos {
            RPos::Print => vec![print_l(marker.clone(), &n, &shown, &tag)],
            RPos::AssignRhs => vec![stmt(format!("{} = {}", wv, n), &tag), print_l(marker.clone(), &wv, &shown, &tag)],
            RPos::Operand => vec![print_l(marker.clone(), &op, &plus, &tag)],
            RPos::Cond => vec![pr(format!("IF {} = {} THEN PRINT \"{}=yes\" ELSE PRINT \"{}=no\"", n, lit, marker, marker), "yes")],
            RPos::SelectCase => vec![
                stmt(format!("SELECT CASE {}", n), &tag),
                stmt(format!("CASE {}", lit), &tag),
                pr(format!("PRINT \"{}=yes\"", marker), "yes"),
                stmt("CASE ELSE".to_string(), &tag),
                stmt(format!("PRINT \"{}=no\"", marker), &tag),
                stmt("END SELECT".to_string(), &tag),
            ],
            RPos::ForLimit => vec![
                stmt(format!("{} = 0", wc), &tag),
                stmt(format!("FOR {} = 1 TO {}", wi, n), &tag),
                stmt(format!("{} = {} + 1", wc, wc), &tag),
                stmt("NEXT".to_string(), &tag),
                print_l(marker.clone(), &wc, &shown, &tag),
            ],
            RPos::ArgUserFn => {
                *need_hh = true;
                vec![print_l(marker.clone(), &format!("{}({})", hh, n), &shown, &tag)]
            }
            RPos::ArgUserFnParen => {
                *need_hh = true;
                vec![print_l(marker.clone(), &format!("{}(({}))", hh, n), &shown, &tag)]
            }
            RPos::ArgUserFnExpr => {
                *need_hh = true;
                vec![print_l(marker.clone(), &format!("{}({})", hh, op), &plus, &tag)]
            }
            RPos::ArgSub => {
                *need_hs = true;
                vec![pr(format!("{} {}, {}", hs, mnum, n), &shown)]
            }
            RPos::ArgCallSub => {
                *need_hs = true;
                vec![pr(format!("CALL {}({}, {})", hs, mnum, n), &shown)]
            }
            RPos::ArgBuiltIn => {
                if is_str {
                    vec![print_l(marker.clone(), &format!("LEN({})", n), &shown.len().to_string(), &tag)]
                } else {
                    vec![print_l(marker.clone(), &format!("STR$({})", n), &shown, &tag)]
                }
            }
            RPos::Subscript => vec![stmt(format!("{}({}) = 77", wa, id), &tag), print_l(marker.clone(), &format!("{}({})", wa, n), "77", &tag)],
        }
    };
    let mut body: BTreeMap<Scope, Vec<L>> = BTreeMap::new();
    for sc in SCOPES {
        if f.sites.iter().any(|s| s.scope == sc && s.pos == RPos::Subscript) {
            body.entry(sc).or_default().push(stmt(format!("DIM {}(0 TO 9)", wa), "function-name-setup"));
        }
    }
    for s in &f.sites {
        if is_str && s.pos.numeric_only() {
            continue;
        }
        let ls = lines_of(s, &mut need_hh, &mut need_hs);
        body.entry(s.scope).or_default().extend(ls);
    }
    if let Some((sc, r, cs)) = f.reject {
        let tag = format!("function-name-{}-accepted:{}", r.group(), sc.label());
        let rej = |text: String| -> L { L { text, tag: tag.clone(), kind: LK::Reject, wrote: None } };
        let b = body.entry(sc).or_default();
        match r {
            FnRej::Assign(bare) => b.push(rej(format!("{} = {}", nm(bare, cs), lit))),
            FnRej::ForCounter => {
                b.push(rej(format!("FOR {} = 1 TO 2", nm(true, cs))));
                b.push(stmt("NEXT".to_string(), "function-name-setup"));
            }
            FnRej::Read => {
                out.g1.push(stmt(format!("DATA {}", lit), "function-name-setup"));
                b.push(rej(format!("READ {}", nm(true, cs))));
            }
            FnRej::Input => b.push(rej(format!("INPUT {}", nm(true, cs)))),
            FnRej::DimCompact(bare) => b.push(rej(format!("DIM {}", nm(bare, cs)))),
            FnRej::DimExt(ty) => {
                out.udt |= ty == Ty::Udt;
                b.push(rej(format!("DIM {} AS {}", nm(true, cs), ty.text())));
            }
            FnRej::Const => b.push(rej(format!("CONST {} = {}", nm(true, cs), lit))),
        }
    }
    // ---- module level
    if let Some(ls) = body.remove(&Scope::Global) {
        out.g1.extend(ls);
    }
    // ---- the function itself
    let mut decl = styled(&f.base, f.decl_cs, up);
    if let Some(q) = f.decl_sp {
        decl.push(q.ch());
    }
    out.sub.push(stmt(format!("FUNCTION {}", decl), "decl-parameterless-function"));
    out.sub.push(stmt(format!("{} = {}", nm(f.assign_bare, CASES[(f.rot + 1) % 4]), lit), "function-result-of-parameterless-function"));
    out.sub.push(stmt("END FUNCTION".to_string(), "subprogram-frame"));
    if need_hh {
        out.sub.push(stmt(format!("FUNCTION {} (Wq{})", hh, sfx), "function-name-setup"));
        out.sub.push(stmt(format!("{} = Wq{}", hh, sfx), "function-name-setup"));
        out.sub.push(stmt("END FUNCTION".to_string(), "subprogram-frame"));
    }
    if need_hs {
        out.sub.push(stmt(format!("SUB {} (Wm%, Wq{})", hs, sfx), "function-name-setup"));
        out.sub.push(stmt(format!("PRINT \"k{}.\" + LTRIM$(STR$(Wm%)) + \"=\"; Wq{}", idx, sfx), "function-name-setup"));
        out.sub.push(stmt("END SUB".to_string(), "subprogram-frame"));
    }
    if let Some(ls) = body.remove(&Scope::Sub) {
        out.g1.push(stmt(format!("Sr{}", idx), "call"));
        out.sub.push(stmt(format!("SUB Sr{}", idx), "decl-subprogram-header"));
        out.sub.extend(ls);
        out.sub.push(stmt("END SUB".to_string(), "subprogram-frame"));
    }
    if let Some(ls) = body.remove(&Scope::Func) {
        if f.func_has_param {
            out.g1.push(stmt(format!("Wret% = Fr{}%(0)", idx), "call"));
            out.sub.push(stmt(format!("FUNCTION Fr{}% (Wp%)", idx), "decl-subprogram-header"));
        } else {
            out.g1.push(stmt(format!("Wret% = Fr{}%", idx), "call"));
            out.sub.push(stmt(format!("FUNCTION Fr{}%", idx), "decl-subprogram-header"));
        }
        out.sub.extend(ls);
        out.sub.push(stmt(format!("Fr{}% = 1", idx), "subprogram-frame"));
        out.sub.push(stmt("END FUNCTION".to_string(), "subprogram-frame"));
    }
    out
}

/// `DIM SHARED x...` at module level and a declaration of the same base name inside a SUB/FUNCTION that the README's
/// rule for extended names forbids (the shared variable is in scope there).
fn render_clash(c: &ClashCase, t: &DefTable, idx: usize, up: bool) -> UnitOut {
    let mut out = UnitOut::default();
    let nm = |sp: Sp, cs: Cs| -> String {
        let mut s = styled(&c.base, cs, up);
        if let Some(q) = sp {
            s.push(q.ch());
        }
        s
    };
    // ---- module level: the shared variable and one accepted use of it
    let (g_name, g_ty): (String, Option<Ty>) = match c.g {
        ClashG::Compact(sp) => (nm(sp, c.decl_cs), None),
        ClashG::Ext(ty) => (nm(None, c.decl_cs), Some(ty)),
    };
    let g_dims = if c.g_array { "(1 TO 3)" } else { "" };
    match g_ty {
        None => out.g1.push(stmt(format!("DIM SHARED {}{}", g_name, g_dims), "decl-dim-shared-compact")),
        Some(ty) => {
            out.udt |= ty == Ty::Udt;
            out.g1.push(stmt(format!("DIM SHARED {}{} AS {}", g_name, g_dims, ty.text()), "decl-dim-shared-extended"));
        }
    }
    let g_is_str = match c.g {
        ClashG::Compact(sp) => sp.unwrap_or(t.q[letter_of(&c.base)]) == Q::Str,
        ClashG::Ext(ty) => ty.is_str(),
    };
    let target = format!("{}{}{}", g_name, if c.g_array { "(1)" } else { "" }, if g_ty == Some(Ty::Udt) { format!(".{}", UDT_FIELD) } else { String::new() });
    out.g1.push(stmt(format!("{} = {}", target, val_lit(5, g_is_str)), "shared-variable-use"));
    // ---- the subprogram with the clashing declaration
    let rule = c.must_reject().unwrap_or("undetermined");
    let site = if c.func_scope { "function" } else { "sub" };
    let tag = format!("{}-accepted:{}", rule, site);
    let sub_name = if c.func_scope { format!("Fc{}%", idx) } else { format!("Sc{}", idx) };
    let kw = if c.func_scope { "FUNCTION" } else { "SUB" };
    let param: Option<String> = match c.l {
        ClashL::ParamExt(ty) => {
            out.udt |= ty == Ty::Udt;
            Some(format!("{}{} AS {}", nm(None, c.l_cs), if c.l_array { "()" } else { "" }, ty.text()))
        }
        ClashL::ParamCompact(q) => Some(format!("{}{}", nm(Some(q), c.l_cs), if c.l_array { "()" } else { "" })),
        _ => None,
    };
    match param {
        Some(p) => out.sub.push(L { text: format!("{} {} ({})", kw, sub_name, p), tag, kind: LK::Reject, wrote: None }),
        None => {
            out.sub.push(stmt(format!("{} {}", kw, sub_name), "decl-subprogram-header"));
            if c.filler {
                out.sub.push(stmt(format!("Wf{}% = 1", idx), "subprogram-frame"));
            }
            let l_dims = if c.l_array { "(1 TO 2)" } else { "" };
            let text = match c.l {
                ClashL::DimExt(ty) => {
                    out.udt |= ty == Ty::Udt;
                    format!("DIM {}{} AS {}", nm(None, c.l_cs), l_dims, ty.text())
                }
                ClashL::DimCompact(q) => format!("DIM {}{}", nm(Some(q), c.l_cs), l_dims),
                _ => unreachable!(),
            };
            out.sub.push(L { text, tag, kind: LK::Reject, wrote: None });
        }
    }
    if c.func_scope {
        out.sub.push(stmt(format!("{} = 1", sub_name), "subprogram-frame"));
        out.sub.push(stmt("END FUNCTION".to_string(), "subprogram-frame"));
    } else {
        out.sub.push(stmt("END SUB".to_string(), "subprogram-frame"));
    }
    out
}

// ------------------------------------------------------------------------------------------------
// programs and their check
// ------------------------------------------------------------------------------------------------

#[derive(Clone, Debug)]
struct ExpPrint {
    marker: String,
    expected: String,
    tag: String,
    unit: usize,
    row: u32,
}

#[derive(Clone, Debug)]
struct StmtTag {
    row: u32,
    tag: String,
    unit: usize,
}

#[derive(Clone, Debug)]
struct Prog {
    src: String,
    prints: Vec<ExpPrint>,
    stmts: Vec<StmtTag>,
    reject: Option<StmtTag>,
    deftype: String,
    /// (unit, value, assignment statement, bare-name rule if assigned through a bare compact name)
    values: Vec<(usize, String, String, Option<String>)>,
}

fn assemble(defs: &[DefStmt], t: &DefTable, units: &[Unit], up: bool) -> Prog {
    let outs: Vec<UnitOut> = units
        .iter()
        .enumerate()
        .map(|(i, u)| match u {
            Unit::Name(c) => render_case(c, t, i, up),
            Unit::Func(f) => render_fn(f, t, i, up),
            Unit::Arr(a) => render_arr(a, t, i, up),
            Unit::Const(c) => render_const(c, t, i, up),
            Unit::FnRef(f) => render_fnref(f, t, i, up),
            Unit::Clash(c) => render_clash(c, t, i, up),
        })
        .collect();
    let mut src = String::new();
    let mut row: u32 = 0;
    let mut p = Prog { src: String::new(), prints: vec![], stmts: vec![], reject: None, deftype: defs_text(defs), values: vec![] };
    let mut push = |p: &mut Prog, src: &mut String, l: &L, unit: usize| {
        row += 1;
        src.push_str(&l.text);
        src.push('\n');
        if let Some((value, rule)) = &l.wrote {
            p.values.push((unit, value.clone(), l.text.clone(), rule.clone()));
        }
        match &l.kind {
            LK::Stmt => p.stmts.push(StmtTag { row, tag: l.tag.clone(), unit }),
            LK::Print { marker, expected } => {
                p.stmts.push(StmtTag { row, tag: l.tag.clone(), unit });
                p.prints.push(ExpPrint { marker: marker.clone(), expected: expected.clone(), tag: l.tag.clone(), unit, row });
            }
            LK::Reject => p.reject = Some(StmtTag { row, tag: l.tag.clone(), unit }),
        }
    };
    if outs.iter().any(|o| o.udt) {
        for text in [format!("TYPE {}", UDT_NAME), format!("  {} AS INTEGER", UDT_FIELD), "END TYPE".to_string()] {
            push(&mut p, &mut src, &stmt(text, "type-definition"), usize::MAX);
        }
    }
    // names used BEFORE the DEFtype statements: a DEFtype statement changes the default type from its place in the text on
    // (README: "the default type can be changed ... with the DEFINT A-Z statement"), so up to there a bare name is SINGLE
    let early: Vec<usize> = (0..26).filter(|l| t.non_default(*l)).take(2).collect();
    let early_name = |l: usize| format!("{}qy9", (b'A' + l as u8) as char);
    for (k, l) in early.iter().enumerate() {
        let n = early_name(*l);
        let mut a = stmt(format!("{} = {}", n, 71 + k), "early-bare-assign-before-deftype");
        a.wrote = Some(((71 + k).to_string(), None));
        push(&mut p, &mut src, &a, usize::MAX);
        push(&mut p, &mut src, &print_l(format!("e{}.1", k), &format!("{}!", n), &(71 + k).to_string(), "bare-name-before-deftype-statement-is-single"), usize::MAX);
    }
    for d in defs {
        let tag = if !up && d.has_lower_to_upper_range() { "deftype-range-lower-to-upper" } else { "deftype-statement" };
        push(&mut p, &mut src, &stmt(d.text(up), tag), usize::MAX);
    }
    for (k, l) in early.iter().enumerate() {
        let n = early_name(*l);
        let q = t.q[*l];
        let (lit, shown) = if q == Q::Str { (format!("\"v{}\"", 33 + k), format!("v{}", 33 + k)) } else { ((33 + k).to_string(), (33 + k).to_string()) };
        let mut a = stmt(format!("{} = {}", n, lit), "early-bare-assign-after-deftype");
        a.wrote = Some((shown.clone(), None));
        push(&mut p, &mut src, &a, usize::MAX);
        push(&mut p, &mut src, &print_l(format!("e{}.2", k), &format!("{}{}", n, q.ch()), &shown, "bare-name-after-deftype-statement-has-its-type"), usize::MAX);
        push(&mut p, &mut src, &print_l(format!("e{}.3", k), &format!("{}!", n), &(71 + k).to_string(), "single-variable-written-before-deftype-statement-keeps-its-value"), usize::MAX);
    }
    for (i, o) in outs.iter().enumerate() {
        for l in o.g1.iter().chain(o.g2.iter()) {
            push(&mut p, &mut src, l, i);
        }
    }
    for (i, o) in outs.iter().enumerate() {
        for l in &o.sub {
            push(&mut p, &mut src, l, i);
        }
    }
    for (i, o) in outs.iter().enumerate() {
        for l in &o.tail {
            push(&mut p, &mut src, l, i);
        }
    }
    p.src = src;
    p
}

impl Prog {
    fn to_json(&self) -> Value {
        json!({
            "kind": "prog",
            "program": self.src,
            "deftype": self.deftype,
            "prints": self.prints.iter().map(|e| json!([e.marker, e.expected, e.tag, e.unit as u64, e.row])).collect::<Vec<_>>(),
            "stmts": self.stmts.iter().map(|s| json!([s.row, s.tag, s.unit as u64])).collect::<Vec<_>>(),
            "reject": self.reject.as_ref().map(|s| json!([s.row, s.tag, s.unit as u64])),
            "values": self.values.iter().map(|(u, v, st, r)| json!([*u as u64, v, st, r])).collect::<Vec<_>>(),
        })
    }
    fn from_json(v: &Value) -> Prog {
        let unit = |x: &Value| -> usize { x.as_u64().map(|u| u as usize).unwrap_or(usize::MAX) };
        let st = |s: &Value| StmtTag { row: s[0].as_u64().unwrap_or(0) as u32, tag: s[1].as_str().unwrap_or("").to_string(), unit: unit(&s[2]) };
        Prog {
            src: v["program"].as_str().unwrap_or("").to_string(),
            deftype: v["deftype"].as_str().unwrap_or("").to_string(),
            prints: v["prints"]
                .as_array()
                .map(|a| {
                    a.iter()
                        .map(|e| ExpPrint {
                            marker: e[0].as_str().unwrap_or("").to_string(),
                            expected: e[1].as_str().unwrap_or("").to_string(),
                            tag: e[2].as_str().unwrap_or("").to_string(),
                            unit: unit(&e[3]),
                            row: e[4].as_u64().unwrap_or(0) as u32,
                        })
                        .collect()
                })
                .unwrap_or_default(),
            stmts: v["stmts"].as_array().map(|a| a.iter().map(st).collect()).unwrap_or_default(),
            reject: if v["reject"].is_null() { None } else { Some(st(&v["reject"])) },
            values: v["values"]
                .as_array()
                .map(|a| a.iter().map(|e| (unit(&e[0]), e[1].as_str().unwrap_or("").to_string(), e[2].as_str().unwrap_or("").to_string(), e[3].as_str().map(|s| s.to_string()))).collect())
                .unwrap_or_default(),
        }
    }
    fn line(&self, row: u32) -> String {
        self.src.lines().nth(row.saturating_sub(1) as usize).unwrap_or("").to_string()
    }
}

/// The signature part of a tag: the spelling classes of the constant templates are evidence classes, not root causes.
fn sig_tag(tag: &str) -> String {
    tag.replace("-of-bare-decl", "").replace("-of-suffixed-decl", "")
}

fn viol(p: &Prog, sig: String, what: String, expected: Value, observed: Value) -> Violation {
    Violation::new(sig, what, p.to_json()).exp_obs(expected, observed)
}

/// A front-end rejection where acceptance was predicted, attributed to the statement at its row.
fn rejected_viol(p: &Prog, e: &impl_run::FrontErr) -> (Option<usize>, Violation) {
    if let impl_run::FrontErr::Panic { stage, info } = e {
        // the panic message carries the variable name: the signature is stage + location only
        return (None, viol(p, format!("panic:{}@{}", stage, info.loc), "the front end panicked on a name-configuration program".into(), json!("accepted or rejected with an error"), e.to_json()));
    }
    let row = e.pos().map(|p| p.0).unwrap_or(0);
    match p.stmts.iter().find(|s| s.row == row) {
        Some(s) => (
            if s.unit == usize::MAX { None } else { Some(s.unit) },
            viol(
                p,
                format!("{}-rejected", sig_tag(&s.tag)),
                format!("statement `{}` (row {}) must be accepted by the stated naming rules [{}] but the program is rejected there with {}", p.line(row), row, s.tag, e.class()),
                json!("accepted"),
                e.to_json(),
            ),
        ),
        None => (None, viol(p, "rejected-unattributed".into(), format!("program rejected at row {} which is no generated statement", row), json!("accepted"), e.to_json())),
    }
}

/// Checks one program against its predictions. At most one violation per unit (the first one).
fn check_prog(p: &Prog) -> Vec<(Option<usize>, Violation)> {
    if let Some(r) = &p.reject {
        // prediction: the checker rejects, at the offending statement
        return match impl_run::front(&p.src) {
            Ok(_) => vec![(
                Some(r.unit),
                viol(
                    p,
                    r.tag.clone(),
                    format!("statement `{}` (row {}) must be rejected by the checker but the program is accepted", p.line(r.row), r.row),
                    json!({"rejected_at_row": r.row}),
                    json!("accepted"),
                ),
            )],
            Err(e) => {
                if !matches!(e, impl_run::FrontErr::Panic { .. }) && e.pos().map(|x| x.0) == Some(r.row) {
                    vec![]
                } else {
                    vec![rejected_viol(p, &e)]
                }
            }
        };
    }
    let out = match impl_run::run_src(&p.src, &RunOpts::budget(BUDGET)) {
        Err(e) => return vec![rejected_viol(p, &e)],
        Ok(o) => o,
    };
    match &out.end {
        End::Ok => {}
        End::Budget => return vec![],
        End::Panic(info) => {
            return vec![(None, viol(p, format!("panic:run@{}", info.loc), "the interpreter panicked on a name-configuration program".into(), json!("ok"), out.end.to_json()))];
        }
        End::Err { name, pos, .. } => {
            let row = pos.first().map(|x| x.0).unwrap_or(0);
            let (unit, tag) = p.stmts.iter().find(|s| s.row == row).map(|s| (Some(s.unit), s.tag.clone())).unwrap_or((None, "unattributed".into()));
            return vec![(
                unit.filter(|u| *u != usize::MAX),
                viol(p, format!("{}-runtime-error", sig_tag(&tag)), format!("statement `{}` (row {}) raised {} at run time", p.line(row), row, name), json!("ok"), out.end.to_json()),
            )];
        }
    }
    let text = out.stdout_str();
    let mut seen: BTreeMap<&str, &str> = BTreeMap::new();
    for line in text.lines() {
        if let Some((m, v)) = line.split_once('=') {
            seen.entry(m.trim()).or_insert(v.trim());
        }
    }
    let mut bad_units: BTreeSet<usize> = BTreeSet::new();
    let mut out_v = vec![];
    for e in &p.prints {
        if bad_units.contains(&e.unit) {
            continue;
        }
        let obs = seen.get(e.marker.as_str()).copied();
        if obs == Some(e.expected.as_str()) {
            continue;
        }
        bad_units.insert(e.unit);
        // which assignment of this unit wrote the value that shows up instead?
        let writer = p.values.iter().find(|(u, v, _, _)| *u == e.unit && Some(v.as_str()) == obs);
        let mut tag = e.tag.clone();
        if let Some((_, _, _, Some(bare_rule))) = writer {
            // a qualified compact variable shows the value assigned through the bare name: the bare-name rule is broken
            tag = tag.replace("suffix-compact", bare_rule);
        }
        let sig = match obs {
            None => "output-line-missing".to_string(),
            Some(_) => format!("{}-mismatch", sig_tag(&tag)),
        };
        let shows = match (obs, writer) {
            (Some(o), Some((_, _, st, _))) => format!("it shows {} (written by `{}`)", o, st),
            (Some("0"), None) | (Some(""), None) => "it shows the value of a fresh variable".to_string(),
            (Some(o), None) => format!("it shows {}", o),
            (None, _) => "its output line is missing".to_string(),
        };
        out_v.push((
            Some(e.unit),
            viol(
                p,
                sig,
                format!("`{}` (row {}) must print {:?}, the value of the storage the stated rules [{}] make it denote; {}", p.line(e.row), e.row, e.expected, e.tag, shows),
                json!({"marker": e.marker, "value": e.expected}),
                json!({"marker": e.marker, "value": obs}),
            ),
        ));
    }
    out_v
}

/// The violation of `original` re-classified by control programs that differ from it only in letter case.
fn with_controls(mut v: Violation, controls: Vec<(String, Prog)>) -> Violation {
    let mut list = vec![];
    let mut decided = false;
    for (sig, cp) in &controls {
        list.push(json!({"sig_if_this_passes": sig, "program": cp.src}));
        if !decided && check_prog(cp).is_empty() {
            v.what = format!("{} — the same program with {} behaves as predicted", v.what, if sig == "deftype-case" { "the DEFtype statements and every identifier in upper case" } else { "every identifier in upper case" });
            v.sig = sig.clone();
            decided = true;
        }
    }
    if let Value::Object(m) = &mut v.inputs {
        m.insert("controls".to_string(), json!(list));
    }
    v
}

thread_local! {
    /// Failure handling only: how many failing units this worker has already reduced.
    static REDUCED: std::cell::Cell<u64> = const { std::cell::Cell::new(0) };
}
const MAX_REDUCED: u64 = 24;

fn unit_letter(u: &Unit) -> usize {
    match u {
        Unit::Name(c) => letter_of(&c.base),
        Unit::Func(f) => letter_of(&f.base),
        Unit::Arr(a) => letter_of(&a.base),
        Unit::Const(c) => letter_of(&c.base),
        Unit::FnRef(f) => letter_of(&f.base),
        Unit::Clash(c) => letter_of(&c.base),
    }
}

fn unit_has_case_variation(u: &Unit) -> bool {
    match u {
        Unit::Name(c) => c.decl_cs != Cs::Upper || c.g_refs.iter().chain(c.s_refs.iter()).any(|r| r.cs != Cs::Upper || r.cs2 != Cs::Upper) || c.reject.map(|r| r.cs != Cs::Upper).unwrap_or(false),
        Unit::Func(f) => f.decl_cs != Cs::Upper || f.calls.iter().chain(f.assigns.iter()).any(|(_, cs)| *cs != Cs::Upper),
        // letter cases rotate through every reference
        Unit::Arr(_) | Unit::Const(_) | Unit::FnRef(_) | Unit::Clash(_) => true,
    }
}

/// Reduces a failing unit to a program of its own and classifies letter-case failures.
fn reduce(sh: &mut Shard, defs: &[DefStmt], t: &DefTable, u: &Unit, batch_v: Violation, batch_len: usize) -> Violation {
    REDUCED.with(|m| m.set(m.get() + 1));
    let solo = assemble(defs, t, std::slice::from_ref(u), false);
    let v = if batch_len > 1 {
        sh.journal(&solo.src);
        match check_prog(&solo).into_iter().next() {
            Some((_, v)) => v,
            None => {
                let mut v = batch_v;
                v.sig = format!("{}:only-in-batch", v.sig);
                return v;
            }
        }
    } else {
        batch_v
    };
    if v.sig.starts_with("panic:") {
        return v;
    }
    let mut controls = vec![];
    let covered = t.explicit[unit_letter(u)];
    if unit_has_case_variation(u) || (covered && defs.iter().any(|d| d.kw_lower || d.has_lower_letter())) {
        let sig = if covered && t.non_default(unit_letter(u)) { "deftype-case" } else { "ident-case" };
        controls.push((sig.to_string(), assemble(defs, t, std::slice::from_ref(u), true)));
    }
    with_controls(v, controls)
}

fn nontrivial_unit(u: &Unit, t: &DefTable) -> bool {
    match u {
        Unit::Func(_) => true, // bare and qualified spelling of the function name
        Unit::Arr(_) => true, // a parameter is in play
        Unit::Const(_) => true, // a CONST is in play in subprogram scopes
        Unit::FnRef(_) => true, // a function name is in play in several scopes
        Unit::Clash(_) => true, // SHARED is in play in a subprogram scope
        Unit::Name(c) => {
            let mut sps: BTreeSet<Sp> = BTreeSet::new();
            for r in c.g_refs.iter().chain(c.s_refs.iter()) {
                sps.insert(r.sp);
            }
            if let Some(Reject { kind: RejKind::Assign(sp) | RejKind::Print(sp) | RejKind::DimCompactAfterExt(sp), .. }) = c.reject {
                sps.insert(sp);
                sps.insert(None);
            }
            sps.len() >= 2
                || t.non_default(letter_of(&c.base))
                || (c.s != SDecl::Absent && (c.g.shared() || matches!(c.g, GDecl::Const { .. }) || matches!(c.s, SDecl::ParamCompact(_) | SDecl::ParamExt(_) | SDecl::Const { .. })))
        }
    }
}

fn unit_class(u: &Unit) -> String {
    match u {
        Unit::Func(f) => format!("function-name:{}", sp_name(f.decl_sp)),
        Unit::Arr(a) => format!("array-param:{}|arg:{}{}", a.p_kind(), a.arg_kind(), if a.reject.is_some() { "|must-reject" } else { "" }),
        Unit::Const(c) => format!(
            "const-shadow:{}-kind,{}-spelling",
            if c.g.kind == c.l.kind { "same" } else { "other" },
            if c.g.sp.is_some() == c.l.sp.is_some() { "same" } else { "other" }
        ),
        Unit::Name(c) => format!("g:{}|s:{}{}", c.g.kind(), c.s.kind(), if c.s != SDecl::Absent && c.func_scope { "(function)" } else { "" }),
        Unit::FnRef(f) => format!("parameterless-function-name:{}{}", sp_name(f.decl_sp), if f.reject.is_some() { "|must-reject" } else { "" }),
        Unit::Clash(c) => format!("shared-clash:{}", c.must_reject().unwrap_or("undetermined")),
    }
}

fn deftype_class(defs: &[DefStmt]) -> &'static str {
    if defs.is_empty() {
        "deftype:none"
    } else if defs.len() > 1 || defs[0].ranges.len() > 1 {
        "deftype:several-ranges"
    } else if defs[0].ranges[0].hi.is_some() {
        "deftype:one-range"
    } else {
        "deftype:one-letter"
    }
}

/// Renders the units as one program, checks it, records statistics, returns the (reduced) violations.
fn run_units(sh: &mut Shard, defs: &[DefStmt], t: &DefTable, units: &[Unit]) -> Vec<Violation> {
    if units.is_empty() {
        return vec![];
    }
    let prog = assemble(defs, t, units, false);
    sh.journal(&prog.src);
    let dt = defs_text(defs);
    for u in units {
        sh.eval();
        if nontrivial_unit(u, t) {
            sh.nontrivial(hash64(&(u, &dt)));
        }
        sh.class(&unit_class(u));
        match u {
            Unit::Arr(a) => {
                sh.class(&format!("array-param:elem={}", a.elem_q(t).map(|q| q.type_kw()).unwrap_or("user-type")));
                sh.class(if a.func_scope { "array-param:in-function" } else { "array-param:in-sub" });
                sh.class(if a.same_name { "array-param:argument-has-the-parameter's-name" } else { "array-param:argument-has-another-name" });
                sh.class(if a.elem_q(t) == Some(a.dq(t)) { "array-param:elem-type-is-default-type-of-letter" } else { "array-param:elem-type-differs-from-default-type-of-letter" });
                if a.scalar.is_some() {
                    sh.class("array-param:with-scalar-of-other-type");
                }
            }
            Unit::FnRef(f) => {
                let fq = f.fq(t);
                sh.class(&format!("fnref:type={}", fq.type_kw()));
                sh.class(if f.decl_sp.is_none() { "fnref:declared-bare" } else { "fnref:declared-with-suffix" });
                for s in &f.sites {
                    if fq == Q::Str && s.pos.numeric_only() {
                        continue;
                    }
                    sh.class(&format!("fnref:{}:{}", s.scope.label(), s.pos.label()));
                    sh.class(&format!("fnref:{}:{}", s.scope.label(), if s.bare { "bare-spelling" } else { "suffix-spelling" }));
                }
                if let Some((sc, r, _)) = f.reject {
                    sh.class(&format!("fnref-reject:{}:{}", sc.label(), r.label()));
                }
                if f.sites.iter().any(|s| s.scope == Scope::Func) || matches!(f.reject, Some((Scope::Func, _, _))) {
                    sh.class(if f.func_has_param { "fnref:other-function-has-parameter" } else { "fnref:other-function-parameterless" });
                }
            }
            Unit::Clash(c) => {
                sh.class(&format!("shared-clash:shared={}", c.g_kind()));
                sh.class(&format!("shared-clash:local={}", c.l_kind()));
                sh.class(if c.func_scope { "shared-clash:in-function" } else { "shared-clash:in-sub" });
            }
            Unit::Const(c) => {
                sh.class(&format!("const-shadow:global={}", c.g.label()));
                sh.class(&format!("const-shadow:local={}", c.l.label()));
                sh.class(if c.redef_func { "const-shadow:redefined-in-function" } else { "const-shadow:redefined-in-sub" });
                if c.tail {
                    sh.class("const-shadow:with-module-code-after-subprograms");
                }
            }
            _ => {}
        }
        let l = unit_letter(u);
        sh.class(if !t.explicit[l] { "name:letter-not-covered" } else if t.non_default(l) { "name:letter-covered-non-default" } else { "name:letter-covered-DEFSNG" });
    }
    sh.class(deftype_class(defs));
    sh.class(if prog.reject.is_some() { "predict:rejected" } else { "predict:accepted" });
    if let Some(r) = &prog.reject {
        sh.class(&format!("reject:{}", r.tag));
    }
    for e in &prog.prints {
        sh.class(&format!("print:{}", e.tag));
    }
    // one rendered example of each added family per worker (kept as a note: samples are capped)
    for u in units {
        let key = match u {
            Unit::Arr(a) if a.reject.is_some() => "example:array-parameter-must-reject-unit",
            Unit::Arr(_) => "example:array-parameter-unit",
            Unit::Const(_) => "example:const-shadow-unit",
            Unit::FnRef(f) if f.reject.is_some() => "example:parameterless-function-name-must-reject-unit",
            Unit::FnRef(_) => "example:parameterless-function-name-unit",
            Unit::Clash(_) => "example:shared-clash-unit",
            _ => continue,
        };
        if !sh.stats.notes.contains_key(key) {
            let solo = assemble(defs, t, std::slice::from_ref(u), false);
            sh.note(key, json!({"deftype": dt, "program": solo.src}));
        }
    }
    sh.sample_sparse(97, || json!({"deftype": dt, "units": units.len(), "program_head": prog.src.lines().take(70).collect::<Vec<_>>().join("\n")}));
    let mut out = vec![];
    for (unit, v) in check_prog(&prog) {
        let known = sh.known.open_match(&v.sig).is_some();
        match unit {
            Some(i) if !known && i < units.len() => {
                if REDUCED.with(|m| m.get()) > MAX_REDUCED {
                    sh.discard("failing unit not reduced/reported: this worker already reduced 24 failures");
                    continue;
                }
                out.push(reduce(sh, defs, t, &units[i], v, units.len()));
            }
            None if !known && units.len() > 1 && v.sig.starts_with("panic:") => {
                // which unit makes the pipeline panic?
                let mut found = None;
                for u in units {
                    let solo = assemble(defs, t, std::slice::from_ref(u), false);
                    sh.journal(&solo.src);
                    if let Some((_, v2)) = check_prog(&solo).into_iter().find(|(_, v2)| v2.sig == v.sig) {
                        found = Some(v2);
                        break;
                    }
                }
                out.push(found.unwrap_or(v));
            }
            None if !known && units.len() > 1 => {
                // a statement that belongs to no unit (DEFtype, TYPE): keep one unit only
                let solo = assemble(defs, t, &units[..1], false);
                sh.journal(&solo.src);
                match check_prog(&solo).into_iter().find(|(_, v2)| v2.sig == v.sig) {
                    Some((_, v2)) => out.push(v2),
                    None => out.push(v),
                }
            }
            _ => out.push(v),
        }
    }
    out
}

// ------------------------------------------------------------------------------------------------
// enumerated part
// ------------------------------------------------------------------------------------------------

fn g_kinds() -> Vec<GDecl> {
    let mut v = vec![GDecl::Absent, GDecl::Implicit];
    for shared in [false, true] {
        for sp in ALL_SP {
            v.push(GDecl::DimCompact { sps: vec![sp], shared });
        }
        v.push(GDecl::DimCompact { sps: vec![Some(Q::Int), Some(Q::Str)], shared });
        for ty in EXT_TYPES {
            v.push(GDecl::DimExt { ty, shared });
        }
    }
    v.push(GDecl::Const { sp: None, str_val: false });
    v.push(GDecl::Const { sp: None, str_val: true });
    v.push(GDecl::Const { sp: Some(Q::Int), str_val: false });
    v.push(GDecl::Const { sp: Some(Q::Dbl), str_val: false });
    v.push(GDecl::Const { sp: Some(Q::Str), str_val: true });
    v
}

fn s_kinds() -> Vec<SDecl> {
    let mut v = vec![SDecl::Absent, SDecl::Implicit];
    for sp in ALL_SP {
        v.push(SDecl::DimCompact(vec![sp]));
    }
    v.push(SDecl::DimCompact(vec![Some(Q::Lng), Some(Q::Dbl)]));
    for ty in EXT_TYPES {
        v.push(SDecl::DimExt(ty));
    }
    for sp in ALL_SP {
        v.push(SDecl::ParamCompact(sp));
    }
    for ty in PARAM_EXT_TYPES {
        v.push(SDecl::ParamExt(ty));
    }
    v.push(SDecl::Const { sp: None, str_val: false });
    v.push(SDecl::Const { sp: Some(Q::Str), str_val: true });
    v
}

/// All spellings, rotated by `rot`, alternating letter cases.
fn all_refs(rot: usize) -> Vec<RefSp> {
    (0..6)
        .map(|i| {
            let k = (i + rot) % 6;
            RefSp { sp: ALL_SP[k], cs: CASES[(i + rot) % 4], cs2: CASES[(i + rot + 2) % 4] }
        })
        .collect()
}

/// The accepted spellings of a template: every spelling the resolver does not reject / leave open.
fn full_case(base: String, g: GDecl, s: SDecl, rot: usize, t: &DefTable) -> Option<Case> {
    let mut c = Case { base, g, s, func_scope: rot % 2 == 1, decl_cs: CASES[rot % 4], g_refs: vec![], s_refs: vec![], reject: None };
    if case_undetermined(&c, t).is_some() {
        return None;
    }
    if c.g != GDecl::Absent {
        c.g_refs = all_refs(rot).into_iter().filter(|r| matches!(res_global(&c, t, r.sp), Res::Var(_) | Res::ConstG)).collect();
    }
    if c.s != SDecl::Absent {
        c.s_refs = all_refs(rot + 1).into_iter().filter(|r| matches!(res_sub(&c, t, r.sp), Res::Var(_) | Res::ConstG | Res::ConstL)).collect();
    }
    if c.g == GDecl::Absent && c.s == SDecl::Absent {
        return None;
    }
    Some(c)
}

/// (g, s, reject) templates whose last statement of one scope must be rejected.
fn reject_templates(rot0: usize) -> Vec<(GDecl, SDecl, Reject)> {
    let mut v = vec![];
    let mut n = rot0;
    let mut gi = rot0;
    let mut cs = || {
        n += 1;
        CASES[n % 4]
    };
    let foreign = |ty: Ty| -> Vec<Sp> { QS.iter().filter(|q| ty.matching() != Some(**q)).map(|q| Some(*q)).collect() };
    for ty in EXT_TYPES {
        for sp in foreign(ty) {
            for assign in [true, false] {
                let kind = if assign { RejKind::Assign(sp) } else { RejKind::Print(sp) };
                // extended in the global scope, referenced there
                for shared in [false, true] {
                    v.push((GDecl::DimExt { ty, shared }, SDecl::Absent, Reject { in_sub: false, kind, cs: cs() }));
                }
                // DIM SHARED extended, referenced in the subprogram
                v.push((GDecl::DimExt { ty, shared: true }, SDecl::Implicit, Reject { in_sub: true, kind, cs: cs() }));
                // extended local / parameter
                // the (non-shared) global declaration of the same base name rotates with the configuration
                let gv = [GDecl::Absent, GDecl::Implicit, GDecl::DimExt { ty: Ty::B(Q::Dbl), shared: false }];
                gi += 1;
                v.push((gv[gi % 3].clone(), SDecl::DimExt(ty), Reject { in_sub: true, kind, cs: cs() }));
                if PARAM_EXT_TYPES.contains(&ty) {
                    v.push((gv[(gi + 1) % 3].clone(), SDecl::ParamExt(ty), Reject { in_sub: true, kind, cs: cs() }));
                }
            }
        }
        // an extended and a qualified compact DIM of one base name in one scope
        for q in QS {
            v.push((GDecl::DimExt { ty, shared: false }, SDecl::Absent, Reject { in_sub: false, kind: RejKind::DimCompactAfterExt(Some(q)), cs: cs() }));
            v.push((GDecl::DimCompact { sps: vec![Some(q)], shared: false }, SDecl::Absent, Reject { in_sub: false, kind: RejKind::DimExtAfterCompact(ty), cs: cs() }));
            v.push((GDecl::Absent, SDecl::DimExt(ty), Reject { in_sub: true, kind: RejKind::DimCompactAfterExt(Some(q)), cs: cs() }));
            v.push((GDecl::Absent, SDecl::DimCompact(vec![Some(q)]), Reject { in_sub: true, kind: RejKind::DimExtAfterCompact(ty), cs: cs() }));
        }
    }
    v
}

fn reject_case(base: String, g: GDecl, s: SDecl, rej: Reject, rot: usize, t: &DefTable) -> Option<Case> {
    let mut c = full_case(base, g, s, rot, t)?;
    // keep the accepted part small: the bare spelling (and the matching suffix) only
    c.g_refs.truncate(2);
    c.s_refs.truncate(2);
    c.reject = Some(rej);
    Some(c)
}

fn fn_cases(letter: u8, k0: usize, t: &DefTable) -> Vec<(FnCase, bool)> {
    let assign_lists: [&[(bool, Cs)]; 6] = [
        &[(true, Cs::Mixed)],
        &[(false, Cs::Lower)],
        &[(true, Cs::Upper), (false, Cs::Mixed)],
        &[(false, Cs::Mixed), (true, Cs::Lower)],
        &[(true, Cs::Mixed), (true, Cs::Inv)],
        &[],
    ];
    let mut v = vec![];
    let mut k = k0;
    for decl_sp in ALL_SP {
        for (i, al) in assign_lists.iter().enumerate() {
            let f = FnCase {
                base: base_name(letter, k),
                decl_sp,
                decl_cs: CASES[(i + k) % 4],
                calls: vec![(true, Cs::Upper), (true, Cs::Lower), (false, Cs::Mixed), (false, Cs::Inv)],
                assigns: al.to_vec(),
            };
            k += 1;
            let risky = f.reassigns_bare_result_of_non_default_type(t);
            v.push((f, risky));
        }
    }
    v
}

fn ap_decls() -> Vec<APDecl> {
    ALL_SP.iter().map(|sp| APDecl::Compact(*sp)).chain(PARAM_EXT_TYPES.iter().map(|ty| APDecl::Ext(*ty))).collect()
}

/// Array parameters: every declaration style x every way of DIMming the caller's array that fits it; all
/// spellings that denote the parameter; for compact parameters a local scalar of another type next to it.
fn arr_units(letter: u8, rot0: usize, t: &DefTable) -> Vec<Unit> {
    let mut v = vec![];
    let mut rot = rot0;
    for p in ap_decls() {
        for arg in [ArgDecl::CompactSuffix, ArgDecl::CompactBare, ArgDecl::Ext] {
            rot += 1;
            let mut a = ArrCase {
                base: base_name(letter, 0),
                p,
                arg,
                same_name: (rot / 2) % 2 == 1,
                func_scope: rot % 2 == 1,
                decl_cs: CASES[rot % 4],
                refs: all_refs(rot),
                scalar: None,
                reject: None,
                rot,
            };
            if !a.arg_valid(t, arg) {
                continue;
            }
            let keep: Vec<RefSp> = a.refs.iter().filter(|r| a.res(t, r.sp) == ARes::Param).cloned().collect();
            a.refs = keep;
            if matches!(p, APDecl::Compact(_)) {
                a.scalar = (0..6).map(|i| ALL_SP[(i + rot) % 6]).find(|sp| a.scalar_ok(t, *sp)).map(|sp| (sp, CASES[(rot + 1) % 4]));
            }
            if a.undetermined(t).is_none() {
                v.push(Unit::Arr(a));
            }
        }
    }
    v
}

/// Extended array parameters: a foreign suffix as scalar / element, assigned / printed, must be rejected.
/// Half of the 100 (type, suffix, form) combinations per call, alternating with `rot0`.
fn arr_reject_units(letter: u8, rot0: usize, t: &DefTable) -> Vec<Unit> {
    let mut v = vec![];
    let mut n = rot0;
    for ty in PARAM_EXT_TYPES {
        for q in QS {
            if ty.matching() == Some(q) {
                continue;
            }
            for form in 0..4usize {
                n += 1;
                if n % 2 == 0 {
                    continue;
                }
                let r = match form {
                    0 => ArrRej::ScalarAssign(q),
                    1 => ArrRej::ScalarPrint(q),
                    2 => ArrRej::ElemAssign(q),
                    _ => ArrRej::ElemPrint(q),
                };
                let mut a = ArrCase {
                    base: base_name(letter, 0),
                    p: APDecl::Ext(ty),
                    arg: if (n / 2) % 2 == 0 { ArgDecl::Ext } else { ArgDecl::CompactSuffix },
                    same_name: (n / 4) % 2 == 1,
                    func_scope: (n / 8) % 2 == 1,
                    decl_cs: CASES[n % 4],
                    refs: vec![RefSp { sp: if (n / 2) % 3 == 0 { ty.matching() } else { None }, cs: CASES[(n + 1) % 4], cs2: CASES[(n + 2) % 4] }],
                    scalar: None,
                    reject: Some((r, CASES[(n + 3) % 4])),
                    rot: n,
                };
                if !a.arg_valid(t, a.arg) {
                    a.arg = ArgDecl::Ext;
                }
                if a.undetermined(t).is_none() {
                    v.push(Unit::Arr(a));
                }
            }
        }
    }
    v
}

fn const_defs() -> Vec<CDef> {
    QS.iter().flat_map(|k| [CDef { sp: None, kind: *k }, CDef { sp: Some(*k), kind: *k }]).collect()
}

/// Global CONST x local CONST of the same bare name: 10 x 10 (spelling, value kind) combinations
/// (`part` = Some(k): only every third combination, starting with k % 3).
fn const_units(letter: u8, rot0: usize, part: Option<usize>) -> Vec<Unit> {
    let mut v = vec![];
    let mut rot = rot0;
    let mut n = 0usize;
    for g in const_defs() {
        for l in const_defs() {
            rot += 1;
            n += 1;
            if let Some(k) = part {
                if (n + k) % 3 != 0 {
                    continue;
                }
            }
            v.push(Unit::Const(ConstCase {
                base: base_name(letter, 0),
                g,
                l,
                decl_cs: CASES[rot % 4],
                redef_func: rot % 2 == 1,
                other_func: (rot / 2) % 2 == 1,
                tail: (rot / 3) % 3 == 0,
                rot,
            }));
        }
    }
    v
}

/// Every (scope, position) site of a parameterless function's name; spellings and letter cases rotate with `rot`.
fn fn_sites(rot: usize, is_str: bool) -> Vec<FnSite> {
    let mut v = vec![];
    let mut n = rot;
    for scope in SCOPES {
        for pos in RPOSES {
            n += 1;
            if is_str && pos.numeric_only() {
                continue;
            }
            v.push(FnSite { scope, pos, bare: n % 2 == 0, cs: CASES[(n / 2) % 4] });
        }
    }
    v
}

/// Parameterless functions declared through each spelling, referenced at every site.
fn fnref_units(letter: u8, rot0: usize, t: &DefTable) -> Vec<Unit> {
    let mut v = vec![];
    for (i, decl_sp) in ALL_SP.iter().enumerate() {
        let rot = rot0 + i;
        let mut f = FnRefCase {
            base: base_name(letter, 0),
            decl_sp: *decl_sp,
            decl_cs: CASES[rot % 4],
            assign_bare: rot % 2 == 0,
            func_has_param: (rot / 2) % 2 == 0,
            sites: vec![],
            reject: None,
            rot,
        };
        f.sites = fn_sites(rot, f.fq(t) == Q::Str);
        if f.undetermined(t).is_none() {
            v.push(Unit::FnRef(f));
        }
    }
    v
}

/// The name of a parameterless function used as a variable / declared again, in each scope outside its own body.
fn fnref_reject_units(letter: u8, rot0: usize, t: &DefTable) -> Vec<Unit> {
    let mut v = vec![];
    let mut n = rot0;
    for scope in SCOPES {
        let kinds = [
            FnRej::Assign(true),
            FnRej::Assign(false),
            FnRej::ForCounter,
            FnRej::Read,
            FnRej::Input,
            FnRej::DimCompact(true),
            FnRej::DimCompact(false),
            FnRej::DimExt(EXT_TYPES[(rot0 + scope as usize) % 7]),
            FnRej::Const,
        ];
        for r in kinds {
            n += 1;
            let mut f = FnRefCase {
                base: base_name(letter, 0),
                decl_sp: ALL_SP[n % 6],
                decl_cs: CASES[n % 4],
                assign_bare: (n / 2) % 2 == 0,
                func_has_param: (n / 3) % 2 == 0,
                // one accepted reference in the same scope, before the offending statement
                sites: vec![FnSite { scope, pos: RPOSES[n % 4], bare: (n / 4) % 2 == 0, cs: CASES[(n + 1) % 4] }],
                reject: Some((scope, r, CASES[(n + 2) % 4])),
                rot: n,
            };
            if f.undetermined(t).is_some() {
                // a string function: FOR needs a numeric counter — take the next spelling that is numeric
                f.decl_sp = Some(Q::Lng);
            }
            if f.undetermined(t).is_none() {
                v.push(Unit::FnRef(f));
            }
        }
    }
    v
}

fn clash_gs() -> Vec<ClashG> {
    ALL_SP.iter().map(|sp| ClashG::Compact(*sp)).chain(EXT_TYPES.iter().map(|ty| ClashG::Ext(*ty))).collect()
}

/// Local declarations that cannot coexist with a DIM SHARED variable of the same base name.
/// `full`: the whole product; else a rotating selection (every shared kind x {local DIM, parameter}).
fn clash_units(letter: u8, rot0: usize, full: bool) -> Vec<Unit> {
    let mut v = vec![];
    let mut n = rot0;
    let push = |v: &mut Vec<Unit>, n: usize, g: ClashG, g_array: bool, l: ClashL, l_array: bool| {
        let c = ClashCase {
            base: base_name(letter, 0),
            g,
            g_array,
            l,
            l_array,
            func_scope: (n / 2) % 2 == 1,
            decl_cs: CASES[n % 4],
            l_cs: CASES[(n / 3 + 1) % 4],
            filler: (n / 4) % 2 == 1,
        };
        if c.undetermined().is_none() {
            v.push(Unit::Clash(c));
        }
    };
    for g in clash_gs() {
        if full {
            for g_array in [false, true] {
                for l_array in [false, true] {
                    for ty in EXT_TYPES {
                        n += 1;
                        push(&mut v, n, g, g_array, ClashL::DimExt(ty), l_array);
                    }
                    for ty in PARAM_EXT_TYPES {
                        n += 1;
                        push(&mut v, n, g, g_array, ClashL::ParamExt(ty), l_array);
                    }
                    if matches!(g, ClashG::Ext(_)) {
                        for q in QS {
                            n += 1;
                            push(&mut v, n, g, g_array, ClashL::DimCompact(q), l_array);
                            n += 1;
                            push(&mut v, n, g, g_array, ClashL::ParamCompact(q), l_array);
                        }
                    }
                }
            }
        } else {
            n += 1;
            push(&mut v, n, g, n % 2 == 1, ClashL::DimExt(EXT_TYPES[n % 7]), (n / 2) % 3 == 1);
            n += 1;
            push(&mut v, n, g, (n / 2) % 2 == 1, ClashL::ParamExt(PARAM_EXT_TYPES[n % 6]), (n / 4) % 3 == 1);
            if matches!(g, ClashG::Ext(_)) {
                n += 1;
                push(&mut v, n, g, n % 2 == 1, ClashL::DimCompact(QS[n % 5]), (n / 2) % 3 == 1);
                n += 1;
                push(&mut v, n, g, (n / 2) % 2 == 1, ClashL::ParamCompact(QS[n % 5]), (n / 4) % 3 == 1);
            }
        }
    }
    v
}

/// The few templates applied to names around the edges of a DEFtype range.
fn core_units(letter: u8, k0: usize, rot: usize, t: &DefTable) -> Vec<Unit> {
    let tm: Vec<(GDecl, SDecl)> = vec![
        (GDecl::Implicit, SDecl::Implicit),
        (GDecl::DimCompact { sps: vec![None], shared: true }, SDecl::Implicit),
        (GDecl::Absent, SDecl::ParamCompact(None)),
        (GDecl::DimCompact { sps: vec![None], shared: false }, SDecl::DimCompact(vec![None])),
    ];
    let mut v: Vec<Unit> = vec![];
    for (i, (g, s)) in tm.into_iter().enumerate() {
        if let Some(c) = full_case(base_name(letter, k0 + i), g, s, rot + i, t) {
            v.push(Unit::Name(c));
        }
    }
    v.push(Unit::Func(FnCase {
        base: base_name(letter, k0 + 4),
        decl_sp: None,
        decl_cs: CASES[rot % 4],
        calls: vec![(true, CASES[(rot + 1) % 4]), (false, CASES[(rot + 2) % 4])],
        assigns: vec![(true, CASES[(rot + 3) % 4])],
    }));
    v
}

struct Enumerator {
    prog_index: u64,
    stop: bool,
}

impl Enumerator {
    /// Runs the program if it belongs to this shard.
    fn program(&mut self, sh: &mut Shard, defs: &[DefStmt], t: &DefTable, units: &[Unit]) {
        let mine = sh.mine(self.prog_index);
        self.prog_index += 1;
        if !mine || self.stop || units.is_empty() {
            return;
        }
        for v in run_units(sh, defs, t, units) {
            if !sh.report(Err(v)) {
                self.stop = true;
            }
            if sh.stats.violations.len() == 1 && !sh.stats.notes.contains_key("first_violation") {
                let at = sh.stats.evaluations;
                let sig = sh.stats.violations[0].sig.clone();
                sh.note("first_violation", json!(format!("shard {} of {}: sig {} after {} units of this shard", sh.shard, sh.nshards, sig, at)));
            }
        }
        if REDUCED.with(|m| m.get()) > MAX_REDUCED {
            self.stop = true;
        }
    }
    fn batched(&mut self, sh: &mut Shard, defs: &[DefStmt], t: &DefTable, units: Vec<Unit>) {
        for chunk in units.chunks(BATCH) {
            // names are numbered per program
            let renamed: Vec<Unit> = chunk.iter().enumerate().map(|(k, u)| rename(u, k)).collect();
            self.program(sh, defs, t, &renamed);
        }
    }
}

fn rename(u: &Unit, k: usize) -> Unit {
    match u {
        Unit::Name(c) => {
            let mut c = c.clone();
            c.base = base_name(letter_of(&c.base) as u8, k);
            Unit::Name(c)
        }
        Unit::Func(f) => {
            let mut f = f.clone();
            f.base = base_name(letter_of(&f.base) as u8, k);
            Unit::Func(f)
        }
        Unit::Arr(a) => {
            let mut a = a.clone();
            a.base = base_name(letter_of(&a.base) as u8, k);
            Unit::Arr(a)
        }
        Unit::Const(c) => {
            let mut c = c.clone();
            c.base = base_name(letter_of(&c.base) as u8, k);
            Unit::Const(c)
        }
        Unit::FnRef(f) => {
            let mut f = f.clone();
            f.base = base_name(letter_of(&f.base) as u8, k);
            Unit::FnRef(f)
        }
        Unit::Clash(c) => {
            let mut c = c.clone();
            c.base = base_name(letter_of(&c.base) as u8, k);
            Unit::Clash(c)
        }
    }
}

/// All single-name templates under one DEFtype configuration, for names starting with `letter`.
fn all_templates(en: &mut Enumerator, sh: &mut Shard, defs: &[DefStmt], t: &DefTable, letter: u8, rot0: usize, with_rejects: bool) {
    let gs = g_kinds();
    let ss = s_kinds();
    let mut units: Vec<Unit> = vec![];
    let mut rot = rot0;
    for g in &gs {
        for s in &ss {
            rot += 1;
            if let Some(c) = full_case(base_name(letter, 0), g.clone(), s.clone(), rot, t) {
                units.push(Unit::Name(c));
            }
        }
    }
    let mut risky = vec![];
    for (f, r) in fn_cases(letter, 0, t) {
        if r { risky.push(Unit::Func(f)) } else { units.push(Unit::Func(f)) }
    }
    units.extend(arr_units(letter, rot0, t));
    units.extend(const_units(letter, rot0, if defs.is_empty() { None } else { Some(rot0) }));
    units.extend(fnref_units(letter, rot0, t));
    en.batched(sh, defs, t, units);
    for u in risky {
        en.program(sh, defs, t, &[rename(&u, 0)]);
    }
    if with_rejects {
        for (i, (g, s, rej)) in reject_templates(rot0).into_iter().enumerate() {
            if let Some(c) = reject_case(base_name(letter, 0), g, s, rej, rot0 + i, t) {
                en.program(sh, defs, t, &[Unit::Name(c)]);
            }
        }
        for u in arr_reject_units(letter, rot0, t) {
            en.program(sh, defs, t, &[u]);
        }
        for u in fnref_reject_units(letter, rot0, t) {
            en.program(sh, defs, t, &[u]);
        }
        for u in clash_units(letter, rot0, defs.is_empty()) {
            en.program(sh, defs, t, &[u]);
        }
    }
}

fn enumerate(sh: &mut Shard) -> bool {
    let mut en = Enumerator { prog_index: 0, stop: false };
    // (0) no DEFtype statement at all: every template, names over the alphabet
    {
        let t = DefTable::of(&[]).unwrap();
        for letter in [0u8, 7, 12, 18, 25] {
            all_templates(&mut en, sh, &[], &t, letter, letter as usize, letter == 0);
        }
    }
    // (2) the same 130 statements in the other letter case: core templates for the covered letter and its neighbours
    for letter in 0..26u8 {
        for (qi, q) in QS.iter().enumerate() {
            if en.stop {
                return false;
            }
            let defs = [DefStmt::single(*q, letter, (letter as usize + qi) % 2 == 0)];
            let t = DefTable::of(&defs).unwrap();
            let mut units = core_units(letter, 0, qi, &t);
            units.extend(core_units((letter + 1) % 26, 5, qi + 1, &t));
            units.extend(core_units((letter + 25) % 26, 10, qi + 2, &t));
            en.program(sh, &defs, &t, &units);
        }
    }
    sh.exhaustive("26 letters x 5 DEFtype statements in the other letter case x core templates for the covered and the two neighbouring letters");
    // (3) every letter range lo-hi (lo < hi) x 5 types, letter cases rotating: names at lo-1, lo, middle, hi, hi+1
    let mut n = 0usize;
    for lo in 0..26u8 {
        for hi in (lo + 1)..26u8 {
            for q in QS {
                if en.stop {
                    return false;
                }
                n += 1;
                // `A-C`, `a-c`, `A-c`; `a-C` (rejected by the parser: known finding) is a separate program below
                let defs = [DefStmt { q, ranges: vec![DefRange { lo, hi: Some(hi), lo_lower: n % 3 == 1, hi_lower: n % 3 != 0 }], kw_lower: n % 3 == 1 }];
                let t = DefTable::of(&defs).unwrap();
                let mut letters = vec![lo, (lo + hi) / 2, hi];
                if lo > 0 {
                    letters.push(lo - 1);
                }
                if hi < 25 {
                    letters.push(hi + 1);
                }
                letters.dedup();
                let mut units = vec![];
                for (i, l) in letters.iter().enumerate() {
                    let cu = core_units(*l, i * 5, n + i, &t);
                    // two of the five core templates per letter, rotating
                    units.push(cu[(n + i) % 5].clone());
                    units.push(cu[(n + i + 2) % 5].clone());
                }
                let renamed: Vec<Unit> = units.iter().enumerate().map(|(k, u)| rename(u, k)).collect();
                en.program(sh, &defs, &t, &renamed);
                if n % 5 == 0 {
                    let defs = [DefStmt { q, ranges: vec![DefRange { lo, hi: Some(hi), lo_lower: true, hi_lower: false }], kw_lower: false }];
                    en.program(sh, &defs, &t, &renamed[..1]);
                }
            }
        }
    }
    sh.exhaustive("all 325 letter ranges lo-hi x 5 DEFtype statements (letter case of keyword and letters rotating) x names starting with lo-1, lo, middle, hi, hi+1");
    // (1) the 26 x 5 single-letter configurations x every single-name template (statement in upper or lower case, alternating)
    for letter in 0..26u8 {
        for (qi, q) in QS.iter().enumerate() {
            if en.stop {
                return false;
            }
            let defs = [DefStmt::single(*q, letter, (letter as usize + qi) % 2 == 1)];
            let t = DefTable::of(&defs).unwrap();
            all_templates(&mut en, sh, &defs, &t, letter, letter as usize * 5 + qi, true);
            // names that the statement does not cover: the neighbouring letters
            let mut units = core_units((letter + 1) % 26, 0, qi, &t);
            units.extend(core_units((letter + 25) % 26, 5, qi + 1, &t));
            en.batched(sh, &defs, &t, units);
        }
    }
    sh.exhaustive("26 letters x 5 DEFtype statements (single letter; `DEFINT A` / `defint a` alternating) x every single-name template: 35 global x 30 subprogram declaration kinds (minus the undetermined combinations) of the base name with all accepted spellings in both letter cases, 36 function-name templates, and 422 must-reject templates (foreign suffix on an extended variable by assignment / PRINT in global, shared-in-sub, local and parameter position; extended + compact DIM of one base name)");
    sh.exhaustive("array parameters, under no DEFtype (letters A H M S Z) and under each of the 26 x 5 single-letter DEFtype statements: 12 declaration styles (`A()` `A%()` `A&()` `A!()` `A#()` `A$()` compact; `A() AS INTEGER|LONG|SINGLE|DOUBLE|STRING|user TYPE` extended) x every fitting way of DIMming the caller's array (`DIM G%(1 TO 3)`, bare `DIM G(1 TO 3)` when the default type fits, `DIM G(1 TO 3) AS t`), in SUB and FUNCTION, caller's array with the parameter's name or another one, all six spellings resolved (denotes the parameter / rejected / undetermined), plus per configuration half of the 100 must-reject statements (6 extended element types x foreign suffixes x scalar/element x assignment/PRINT, alternating)");
    sh.exhaustive("constants: global CONST x CONST of the same bare name in one SUB/FUNCTION, 10 x 10 combinations of (declared bare | with suffix) x (INTEGER, LONG, SINGLE, DOUBLE, STRING literal) - all 100 under no DEFtype for 5 letters, every third one (rotating) under each of the 130 single-letter DEFtype statements; each referenced bare and suffixed, directly, in a later CONST expression and (INTEGER) as STRING * n length, at module level before / after the calls / after the subprogram definitions, in the redefining subprogram, and in a non-redefining subprogram textually before and after it");
    sh.exhaustive("names of parameterless FUNCTIONs, under no DEFtype (letters A H M S Z) and under each of the 130 single-letter DEFtype statements: declared through each of the 6 spellings (bare: typed by the DEFtype table), the name referenced bare / with the suffix of its type (alternating, letter cases rotating) in 3 scopes (module level, SUB, another FUNCTION with or without a parameter of its own) x 13 positions (PRINT item, assignment right side, operand, IF condition, SELECT CASE, FOR limit, argument of a user FUNCTION plain / parenthesized / inside an expression, argument of a user SUB with and without CALL, argument of a built-in function, array subscript); plus per configuration (no DEFtype: letter A) 3 scopes x 9 must-reject statements (assignment bare / suffixed, FOR counter, READ, INPUT, DIM bare / suffixed, DIM AS type, CONST)");
    sh.exhaustive("a declaration inside a SUB/FUNCTION against a DIM SHARED variable of the same base name: under no DEFtype (letter A) the whole product of 13 shared declarations (6 compact spellings, 7 extended types) x scalar/array x {local DIM AS 7 types, parameter AS 6 types; against an extended shared variable also DIM x<q> and parameter x<q> for the 5 suffixes} x scalar/array (956 programs, each must be rejected at the local declaration); under each of the 130 single-letter DEFtype statements a rotating selection of 40 of them (every shared kind x local DIM / parameter)");
    !en.stop
}

// ------------------------------------------------------------------------------------------------
// random part
// ------------------------------------------------------------------------------------------------

fn rand_sp(t: &mut Tape) -> Sp {
    ALL_SP[t.choose(6)]
}

fn rand_ty(t: &mut Tape) -> Ty {
    EXT_TYPES[t.choose(7)]
}

fn rand_defs(t: &mut Tape) -> Vec<DefStmt> {
    let n = t.choose(4);
    let mut v = vec![];
    // letters already covered, with their type: a range that would cover one of them with another type is not generated
    // (which of two differently-typed covering statements wins is not stated)
    let mut covered: [Option<Q>; 26] = [None; 26];
    for _ in 0..n {
        let q = QS[t.choose(5)];
        let kw_lower = t.chance(1, 3);
        let nr = 1 + t.choose(3);
        let mut ranges = vec![];
        for _ in 0..nr {
            let lo = t.choose(26) as u8;
            let len = t.choose(6) as u8;
            let hi = if len == 0 { None } else { Some((lo + len).min(25)) };
            let hi = if hi == Some(lo) { None } else { hi };
            let lo_lower = t.chance(1, 3);
            // `a-C` is rejected by the parser (known finding): keep it rare so that it does not mask the rest
            let hi_lower = if lo_lower { !t.chance(1, 8) } else { t.chance(1, 3) };
            let span = lo..=hi.unwrap_or(lo);
            if span.clone().any(|i| covered[i as usize].map(|c| c != q).unwrap_or(false)) {
                continue;
            }
            for i in span {
                covered[i as usize] = Some(q);
            }
            ranges.push(DefRange { lo, hi, lo_lower, hi_lower });
        }
        if !ranges.is_empty() {
            v.push(DefStmt { q, ranges, kw_lower });
        }
    }
    v
}

fn rand_refs(t: &mut Tape) -> Vec<RefSp> {
    let n = 1 + t.choose(7);
    (0..n).map(|_| RefSp { sp: rand_sp(t), cs: CASES[t.choose(4)], cs2: CASES[t.choose(4)] }).collect()
}

fn rand_gdecl(t: &mut Tape) -> GDecl {
    match t.choose(9) {
        0 => GDecl::Implicit,
        1 => GDecl::Absent,
        2 | 3 => {
            let shared = t.chance(1, 2);
            let mut sps = vec![rand_sp(t)];
            if t.chance(1, 3) {
                sps.push(rand_sp(t));
            }
            GDecl::DimCompact { sps, shared }
        }
        4 | 5 => GDecl::DimExt { ty: rand_ty(t), shared: false },
        6 | 7 => GDecl::DimExt { ty: rand_ty(t), shared: true },
        _ => {
            let sp = rand_sp(t);
            let str_val = if sp.is_some() { sp == Some(Q::Str) } else { t.chance(1, 2) };
            GDecl::Const { sp, str_val }
        }
    }
}

fn rand_sdecl(t: &mut Tape) -> SDecl {
    match t.choose(10) {
        0 | 1 => SDecl::Implicit,
        2 => SDecl::Absent,
        3 => {
            let mut sps = vec![rand_sp(t)];
            if t.chance(1, 3) {
                sps.push(rand_sp(t));
            }
            SDecl::DimCompact(sps)
        }
        4 | 5 => SDecl::DimExt(rand_ty(t)),
        6 => SDecl::ParamCompact(rand_sp(t)),
        7 | 8 => SDecl::ParamExt(PARAM_EXT_TYPES[t.choose(6)]),
        _ => {
            let sp = rand_sp(t);
            let str_val = if sp.is_some() { sp == Some(Q::Str) } else { t.chance(1, 2) };
            SDecl::Const { sp, str_val }
        }
    }
}

/// A letter, biased towards the ones the DEFtype statements mention and their neighbours.
fn rand_letter(t: &mut Tape, defs: &[DefStmt]) -> u8 {
    let mut edges: Vec<u8> = vec![];
    for d in defs {
        for r in &d.ranges {
            let hi = r.hi.unwrap_or(r.lo);
            edges.extend([r.lo, hi, r.lo.saturating_sub(1), (hi + 1).min(25)]);
        }
    }
    let pick = t.raw();
    if edges.is_empty() || pick % 4 == 0 {
        ((pick as u64 * 26) >> 32) as u8
    } else {
        edges[(pick as usize / 4) % edges.len()]
    }
}

fn random_program_case(sh: &mut Shard, tape: &[u32]) -> Result<(), Violation> {
    REDUCED.with(|m| m.set(0));
    let mut t = Tape::new(tape);
    let defs = rand_defs(&mut t);
    let table = match DefTable::of(&defs) {
        Ok(x) => x,
        Err(r) => {
            sh.discard(r);
            return Ok(());
        }
    };
    let n_units = 1 + t.choose(6);
    let mut with_reject = t.chance(1, 3);
    let mut units: Vec<Unit> = vec![];
    for k in 0..n_units {
        let letter = rand_letter(&mut t, &defs);
        let base = base_name(letter, k);
        if t.chance(1, 8) {
            let decl_sp = rand_sp(&mut t);
            let n_assign = t.choose(3);
            let mut f = FnCase { base, decl_sp, decl_cs: CASES[t.choose(4)], calls: vec![], assigns: vec![] };
            for i in 0..n_assign {
                // a later assignment is never bare (known debug assertion in Compacts::insert_compact, covered by the enumerated part)
                let bare = if i == 0 { t.chance(1, 2) } else { false };
                f.assigns.push((bare, CASES[t.choose(4)]));
            }
            for _ in 0..1 + t.choose(3) {
                f.calls.push((t.chance(1, 2), CASES[t.choose(4)]));
            }
            units.push(Unit::Func(f));
            continue;
        }
        match t.choose(12) {
            10 => {
                // the name of a parameterless FUNCTION referenced from random scopes / positions
                let decl_sp = rand_sp(&mut t);
                let mut f = FnRefCase {
                    base,
                    decl_sp,
                    decl_cs: CASES[t.choose(4)],
                    assign_bare: t.chance(1, 2),
                    func_has_param: t.chance(1, 2),
                    sites: vec![],
                    reject: None,
                    rot: t.choose(24),
                };
                let is_str = f.fq(&table) == Q::Str;
                for _ in 0..1 + t.choose(8) {
                    let site = FnSite { scope: SCOPES[t.choose(3)], pos: RPOSES[t.choose(13)], bare: t.chance(1, 2), cs: CASES[t.choose(4)] };
                    if is_str && site.pos.numeric_only() {
                        sh.discard("numeric position for a string function");
                        continue;
                    }
                    f.sites.push(site);
                }
                if with_reject && t.chance(1, 2) {
                    let r = match t.choose(9) {
                        0 => FnRej::Assign(true),
                        1 => FnRej::Assign(false),
                        2 => FnRej::DimCompact(true),
                        3 => FnRej::DimCompact(false),
                        4 => FnRej::DimExt(rand_ty(&mut t)),
                        5 => FnRej::Const,
                        6 => FnRej::Read,
                        7 => FnRej::Input,
                        _ => if is_str { FnRej::Assign(true) } else { FnRej::ForCounter },
                    };
                    with_reject = false;
                    f.reject = Some((SCOPES[t.choose(3)], r, CASES[t.choose(4)]));
                }
                match f.undetermined(&table) {
                    Some(why) => sh.discard(why),
                    None => units.push(Unit::FnRef(f)),
                }
                continue;
            }
            11 => {
                // a local declaration against a DIM SHARED variable: decided only when it must be rejected
                let g = if t.chance(1, 2) { ClashG::Compact(rand_sp(&mut t)) } else { ClashG::Ext(rand_ty(&mut t)) };
                let l = match t.choose(4) {
                    0 => ClashL::DimExt(rand_ty(&mut t)),
                    1 => ClashL::ParamExt(PARAM_EXT_TYPES[t.choose(6)]),
                    2 => ClashL::DimCompact(QS[t.choose(5)]),
                    _ => ClashL::ParamCompact(QS[t.choose(5)]),
                };
                let c = ClashCase {
                    base,
                    g,
                    g_array: t.chance(1, 3),
                    l,
                    l_array: t.chance(1, 3),
                    func_scope: t.chance(1, 2),
                    decl_cs: CASES[t.choose(4)],
                    l_cs: CASES[t.choose(4)],
                    filler: t.chance(1, 2),
                };
                if !with_reject {
                    sh.discard("a second must-reject unit in one program");
                    continue;
                }
                match c.undetermined() {
                    Some(why) => sh.discard(why),
                    None => {
                        with_reject = false;
                        units.push(Unit::Clash(c));
                    }
                }
                continue;
            }
            8 => {
                let p = if t.chance(1, 2) { APDecl::Compact(rand_sp(&mut t)) } else { APDecl::Ext(PARAM_EXT_TYPES[t.choose(6)]) };
                let arg = [ArgDecl::Ext, ArgDecl::CompactSuffix, ArgDecl::CompactBare][t.choose(3)];
                let mut a = ArrCase {
                    base,
                    p,
                    arg,
                    same_name: t.chance(1, 2),
                    func_scope: t.chance(1, 3),
                    decl_cs: CASES[t.choose(4)],
                    refs: rand_refs(&mut t),
                    scalar: None,
                    reject: None,
                    rot: t.choose(24),
                };
                if !a.arg_valid(&table, a.arg) {
                    a.arg = ArgDecl::Ext;
                }
                let mut kept = vec![];
                let mut rejected: Vec<RefSp> = vec![];
                for r in &a.refs {
                    match a.res(&table, r.sp) {
                        ARes::Param => kept.push(*r),
                        ARes::Reject => rejected.push(*r),
                        ARes::Undet(why) => sh.discard(why),
                    }
                }
                if kept.is_empty() {
                    // the spelling of the declaration
                    let sp = match a.p {
                        APDecl::Compact(sp) => sp,
                        APDecl::Ext(_) => None,
                    };
                    kept.push(RefSp { sp, cs: Cs::Mixed, cs2: Cs::Mixed });
                }
                kept.truncate(4);
                a.refs = kept;
                if matches!(a.p, APDecl::Compact(_)) && t.chance(1, 2) {
                    let sp = rand_sp(&mut t);
                    if a.scalar_ok(&table, sp) {
                        a.scalar = Some((sp, CASES[t.choose(4)]));
                    } else {
                        sh.discard("a scalar and an array parameter of the same name and type in one subprogram");
                    }
                }
                if with_reject {
                    if let Some(r) = rejected.first() {
                        if let Some(q) = r.sp {
                            with_reject = false;
                            let rj = match t.choose(4) {
                                0 => ArrRej::ScalarAssign(q),
                                1 => ArrRej::ScalarPrint(q),
                                2 => ArrRej::ElemAssign(q),
                                _ => ArrRej::ElemPrint(q),
                            };
                            a.reject = Some((rj, r.cs));
                        }
                    }
                }
                match a.undetermined(&table) {
                    Some(why) => sh.discard(why),
                    None => units.push(Unit::Arr(a)),
                }
                continue;
            }
            9 => {
                let mut cdef = |t: &mut Tape| -> CDef {
                    let kind = QS[t.choose(5)];
                    CDef { sp: if t.chance(1, 2) { Some(kind) } else { None }, kind }
                };
                let g = cdef(&mut t);
                let l = cdef(&mut t);
                units.push(Unit::Const(ConstCase {
                    base,
                    g,
                    l,
                    decl_cs: CASES[t.choose(4)],
                    redef_func: t.chance(1, 2),
                    other_func: t.chance(1, 2),
                    tail: t.chance(1, 3),
                    rot: t.choose(24),
                }));
                continue;
            }
            _ => {}
        }
        let mut c = Case {
            base,
            g: rand_gdecl(&mut t),
            s: rand_sdecl(&mut t),
            func_scope: t.chance(1, 3),
            decl_cs: CASES[t.choose(4)],
            g_refs: rand_refs(&mut t),
            s_refs: rand_refs(&mut t),
            reject: None,
        };
        if c.g == GDecl::Absent {
            c.g_refs.clear();
        }
        if c.s == SDecl::Absent {
            c.s_refs.clear();
        }
        if c.g == GDecl::Absent && c.s == SDecl::Absent {
            c.g = GDecl::Implicit;
            c.g_refs = vec![RefSp { sp: None, cs: Cs::Mixed, cs2: Cs::Mixed }];
        }
        if let Some(r) = case_undetermined(&c, &table) {
            sh.discard(r);
            continue;
        }
        // references the rules leave open are dropped; rejected ones are kept for the reject slot
        let mut rejected: Vec<(bool, RefSp)> = vec![];
        let mut keep = |in_sub: bool, refs: &Vec<RefSp>, c: &Case, sh: &mut Shard| -> Vec<RefSp> {
            let mut out = vec![];
            for r in refs {
                match if in_sub { res_sub(c, &table, r.sp) } else { res_global(c, &table, r.sp) } {
                    Res::Undet(why) => sh.discard(why),
                    Res::Reject => rejected.push((in_sub, *r)),
                    _ => out.push(*r),
                }
            }
            out
        };
        let g_refs = keep(false, &c.g_refs, &c, sh);
        let s_refs = keep(true, &c.s_refs, &c, sh);
        c.g_refs = g_refs;
        c.s_refs = s_refs;
        if with_reject {
            if let Some((in_sub, r)) = rejected.first() {
                with_reject = false;
                let kind = if r.cs2 == Cs::Lower || r.cs2 == Cs::Inv { RejKind::Print(r.sp) } else { RejKind::Assign(r.sp) };
                c.reject = Some(Reject { in_sub: *in_sub, kind, cs: r.cs });
            }
        }
        units.push(Unit::Name(c));
    }
    for v in run_units(sh, &defs, &table, &units) {
        sh.triage(v)?;
    }
    Ok(())
}

// ------------------------------------------------------------------------------------------------

/// Arrays of one base name and different suffixes are different arrays, and the bare name is the array of the default type:
/// an array `N<s>()` (s one of % & # $) is declared and written, then the bare `N()` is declared (another array: N!), written
/// and both are read back with their bounds - static (DIM) and dynamic (REDIM, also re-dimensioned once more) declarations.
fn array_suffix_family(sh: &mut Shard) -> bool {
    let mut index = 0u64;
    for (si, sfx) in ["%", "&", "#", "$"].iter().enumerate() {
        for decl in ["DIM", "REDIM"] {
            for again in [false, true] {
                for bare_first in [false, true] {
                    index += 1;
                    if sh.shard as u64 != index % sh.nshards as u64 {
                        continue;
                    }
                    if again && decl == "DIM" {
                        continue;
                    }
                    let base = format!("Nq{}", TAILS[si]);
                    let (v1, lit1) = if *sfx == "$" { ("v41".to_string(), "\"v41\"".to_string()) } else { ("41".to_string(), "41".to_string()) };
                    let a = vec![format!("{} {}{}(1 TO 2)", decl, base, sfx), format!("{}{}(1) = {}", base, sfx, lit1)];
                    let mut b = vec![format!("{} {}(1 TO 5)", decl, base), format!("{}(5) = 52", base)];
                    if again {
                        // the bare REDIM once more: it re-dimensions the array of the default type, not its namesake
                        b.push(format!("REDIM {}(1 TO 7)", base));
                        b.push(format!("{}(7) = 52", base));
                    }
                    let hi = if again { 7 } else { 5 };
                    let mut lines: Vec<String> = if bare_first { b.iter().chain(a.iter()).cloned().collect() } else { a.iter().chain(b.iter()).cloned().collect() };
                    let mut p = Prog { src: String::new(), prints: vec![], stmts: vec![], reject: None, deftype: String::new(), values: vec![] };
                    for (k, (expr, expected, tag)) in [
                        (format!("{}{}(1)", base, sfx), v1.clone(), "array-of-another-suffix-keeps-its-element"),
                        (format!("{}!({})", base, hi), "52".to_string(), "bare-array-name-is-the-array-of-the-default-type"),
                        (format!("UBOUND({}{})", base, sfx), "2".to_string(), "array-of-another-suffix-keeps-its-bounds"),
                        (format!("UBOUND({})", base), hi.to_string(), "bare-array-has-its-own-bounds"),
                    ]
                    .into_iter()
                    .enumerate()
                    {
                        let marker = format!("a{}", k);
                        lines.push(format!("PRINT \"{}=\"; {}", marker, expr));
                        p.prints.push(ExpPrint { marker, expected, tag: tag.to_string(), unit: usize::MAX, row: lines.len() as u32 });
                    }
                    for (r, _) in lines.iter().enumerate() {
                        p.stmts.push(StmtTag { row: r as u32 + 1, tag: "array-suffix-family".to_string(), unit: usize::MAX });
                    }
                    p.src = lines.join("\n") + "\n";
                    sh.eval();
                    sh.journal(&p.src);
                    sh.class(&format!("array-suffix-family:{}:{}", decl, sfx));
                    sh.nontrivial(hash64(&p.src));
                    for (_, v) in check_prog(&p) {
                        if !sh.report(Err(v)) {
                            return false;
                        }
                    }
                }
            }
        }
    }
    sh.exhaustive("arrays of one base name: 4 suffixes x DIM / REDIM / REDIM twice x either order, next to the bare (default-type) array");
    true
}

impl Prop for C13 {
    fn id(&self) -> &'static str {
        "C13"
    }
    fn rule(&self) -> &'static str {
        "One case = one name-configuration unit: a base name (first letter chosen against the DEFtype statements at the top of the program) with one declaration kind in the global scope {absent, implicit use, DIM x<q> (compact, one or two qualifiers), DIM x AS t (INTEGER/LONG/SINGLE/DOUBLE/STRING/STRING*3/user TYPE), both also as DIM SHARED, CONST} and one in a SUB or FUNCTION scope {absent, implicit use, DIM compact, DIM extended, parameter x<q>, parameter x AS t, CONST}, or the base name is a FUNCTION name. The program assigns a distinct small integer (or 3-character string) through every spelling (bare and % & ! # $, mixed letter cases) that the reference resolver accepts and prints through every spelling: in the global scope before and after the call, in the subprogram before and after its own assignments. Up to 12 units with different base names share one program (attribution by source row / output marker). Expected values come from the independent resolver written from the statement + README; a must-reject unit carries one statement (foreign suffix on an extended variable, or extended + qualified compact DIM) that has to be rejected at its row. Enumerated part (identical in both tiers): see exhaustive_parts; random part: 0-3 DEFtype statements with up to 3 letters/ranges each in random letter case, 1-6 units with random declarations, spellings, orders, letter cases. ADDED (names before the DEFtype statements): whenever a DEFtype statement gives a letter a non-SINGLE type, a bare name with that letter is assigned BEFORE the DEFtype statements and read back through its ! spelling (a DEFtype statement changes the default type from its place in the text on), assigned again after them and read through the suffix of the new default type, and the SINGLE variable written first must have kept its value. ADDED (arrays of one base name): an array with a suffix and the bare array of the same base name (the default type) are different arrays with their own elements and bounds, DIMmed or REDIMmed (the bare one also re-dimensioned once more), in either order. ADDED (array parameters): a unit whose base name is an ARRAY PARAMETER of a SUB/FUNCTION, declared compact (`A%()`, `A$()`, bare `A()` typed by DEFtype) or extended (`A() AS INTEGER|LONG|SINGLE|DOUBLE|STRING|user TYPE`); a module-level array of the same element type (DIMmed compact with suffix, compact bare, or extended; same or another base name) gets two distinct element values and is passed; inside the subprogram every spelling that the resolver makes denote the parameter (extended: bare + matching suffix; compact: the suffix, and the bare name iff the letter's default type is the element type) reads the caller's values, three elements are written through alternating spellings and read back through every spelling, and the caller prints all three elements after return; next to a compact parameter a scalar of the same base name and ANOTHER type must be a fresh local; next to an extended parameter a foreign suffix (scalar or element, assignment or PRINT) must be rejected at its row. ADDED (constants): a unit with a global CONST and a CONST of the same bare name inside one SUB/FUNCTION (declared bare or suffixed, INTEGER/LONG/SINGLE/DOUBLE/STRING literal, so same and different suffix / value kind, always different values); the name is referenced bare and with the suffix of the innermost definition's type - directly, inside a later `CONST M = name * 2` / `name + \"!\"`, and as `DIM B AS STRING * name` (LEN printed) - at module level before the calls, after the calls and (one third) after the subprogram definitions, in the redefining subprogram after its CONST, and in two non-redefining subprograms (one textually before, one after the redefining one; one SUB, one FUNCTION): the innermost definition must win everywhere in the redefining subprogram, the global one everywhere else. ADDED (parameterless function names): a unit whose base name is a FUNCTION WITHOUT parameters (declared bare or with any suffix; result assigned once, bare or suffixed); the name is referenced bare / with the suffix of its type at module level, inside a SUB and inside ANOTHER FUNCTION (with / without a parameter of its own) in r-value positions (PRINT item, assignment right side, operand, IF condition, SELECT CASE, FOR limit) and in argument positions (user FUNCTION argument plain / parenthesized / inside an expression, user SUB argument with and without CALL, built-in function argument, array subscript): every reference is a call, so it shows the function's (non-zero / non-empty) value; a must-reject unit carries one statement outside the function's body that uses the name as a variable (assignment, FOR counter, READ, INPUT) or declares it again (DIM, DIM AS, CONST). ADDED (DIM SHARED clashes): a unit with `DIM SHARED x...` at module level (compact bare / suffixed or extended, scalar or array, with one accepted use) and a SUB/FUNCTION that declares the same base name as an extended name (local `DIM x AS t` or parameter `x AS t`, scalar or array) or - against an extended shared variable - as a qualified compact name (`DIM x$`, parameter `x$`): the declaration must be rejected at its row. A unit is non-trivial when it is one of these four kinds, or uses >= 2 spellings of its base name, or a non-SINGLE DEFtype covers its letter, or a subprogram scope has SHARED / a parameter / a CONST in play; distinct by unit configuration + DEFtype text."
    }
    fn assumptions(&self) -> Vec<&'static str> {
        vec![
            "a variable that was never assigned prints 0 (numeric) or the empty string; an unassigned STRING * n is never printed",
            "DEFtype statements stand at the top of the program, before every unit and before every SUB/FUNCTION; a DEFtype statement takes effect from its place in the text on (QBasic; README: the default type can be CHANGED with the statement), so the two probe names used before them are SINGLE there; when two ranges of different types cover one letter the case is discarded",
            "arguments are literals, so that parameter passing by reference cannot couple the scopes; a parameter of the user-defined type receives a scratch variable that is not observed",
            "discarded as undetermined by the statement/README: a CONST referenced through another spelling than its declaration or coexisting with variables/declarations of the same base name; a local compact DIM / parameter / CONST with the base name of a DIM SHARED compact variable, a local bare DIM / parameter or CONST with the base name of a DIM SHARED extended variable, any local declaration with the base name of a global CONST (a local CONST over a global CONST is decided: see constants; extended declarations over DIM SHARED variables are decided: see DIM SHARED clashes); DIM after an implicit use; the same variable DIMmed twice; function names called through a foreign suffix or coexisting with variables of the same base name",
            "a CONST is visible as its value in its own scope and (global CONST) in every subprogram; its value is printed like a literal of that type",
            "a FUNCTION's result type follows the bare/qualified rule (suffix, else the default type of its first letter); it can be called and its result assigned through the bare name or the matching suffix",
            "an extended variable and a qualified compact DIM of the same base name in one scope are rejected in either order (README: 'when in scope, you can't have any other qualified name of the same bare name')",
            "a must-reject prediction is met by any parse/lint error positioned in the row of the offending statement",
            "array parameters: a parameter declared `A() AS type` is an extended name like `A AS type` (README lists parameters among the extended names; the statement's DIM A AS type rule), a parameter `A%()` / `A()` is a compact name (bare = default type of the first letter); an array argument is passed by reference, so elements assigned in the subprogram are the caller's elements after return; spellings of the parameter's base name that denote no declared array (implicit arrays) and a scalar of the parameter's own name and type are not referenced (undetermined)",
            "constants: inside a subprogram the innermost CONST of a bare name wins for every later use in that subprogram, including constant expressions (right side of a later CONST, STRING * n length); other subprograms and the module level see the global CONST (the property's priority list: local constant before global constant; names_outer.rs rule 4). A CONST is referenced bare or with the suffix of its type; the type of a bare CONST is the type of its literal (QBasic CONST documentation; rules 2/3 in names_outer.rs) - these references carry their own evidence classes (suffix-of-bare-decl). LEN of a STRING * n variable is n; 7.5 * 2, 7.25# * 2 and the integer products are exact",
            "module-level statements written after the subprogram definitions belong to the module level",
            "parameterless function names: a FUNCTION procedure without parameters is invoked by its name alone in any expression (QBasic FUNCTION documentation; the property's resolution order puts the function name before the implicit variable), in every scope - only inside its OWN body is the name the result variable (never read there by the generator: QBasic makes that a recursive call). The call's value is the value assigned to the result (constant, so evaluation order does not matter). Outside its own body the name is not a variable: assigning to it, using it as FOR counter / READ / INPUT target, or declaring it again with DIM / DIM AS / CONST is an error (QBasic: Duplicate definition); any error positioned at that row meets the prediction. References through a foreign suffix stay undetermined. STR$(n) of a small positive integer value is the digits after trimming; LEN of the 3-character string value is 3",
            "DIM SHARED clashes: a DIM SHARED variable is in scope in every SUB/FUNCTION (statement), and an extended name cannot coexist with any other (qualified) name of the same bare name that is in scope (README, Extended names: 'when in scope, you can't have any other qualified name of the same bare name'), whichever of the two is the extended one; parameters declared AS type are extended names (README lists them). So inside a subprogram `DIM x AS t` / parameter `x AS t` is rejected when any DIM SHARED x... exists, and `DIM x<q>` / parameter `x<q>` is rejected when DIM SHARED x AS t exists; scalar or array makes no difference (the rule is about the bare name). The subprogram is not called (the checker lints every subprogram)",
        ]
    }
    fn run(&self, sh: &mut Shard) {
        if !enumerate(sh) {
            return;
        }
        if !array_suffix_family(sh) {
            return;
        }
        if !sh.stats.violations.is_empty() {
            return;
        }
        let cases = sh.share(sh.tier.pick(20_000, 400_000));
        sh.search(1, cases, 40, 420, random_program_case);
    }
    fn replay(&self, _sh: &mut Shard, inputs: &Value) -> Result<(), Violation> {
        match inputs["kind"].as_str().unwrap_or("") {
            "prog" => {
                let prog = Prog::from_json(inputs);
                let Some((_, mut v)) = check_prog(&prog).into_iter().next() else { return Ok(()) };
                if let Some(cs) = inputs["controls"].as_array() {
                    for c in cs {
                        let mut cp = prog.clone();
                        cp.src = c["program"].as_str().unwrap_or("").to_string();
                        if check_prog(&cp).is_empty() {
                            v.sig = c["sig_if_this_passes"].as_str().unwrap_or("ident-case").to_string();
                            break;
                        }
                    }
                }
                Err(v)
            }
            "show" => {
                let src = inputs["program"].as_str().unwrap_or("");
                match impl_run::run_src(src, &RunOpts::budget(BUDGET)) {
                    Ok(o) => println!("end: {}\nstdout:\n{}", o.end.short(), o.stdout_str()),
                    Err(e) => println!("rejected: {}", e.to_json()),
                }
                Ok(())
            }
            k => panic!("unknown replay kind {}", k),
        }
    }
}

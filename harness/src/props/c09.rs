//! C09 — letter case, spacing, comments and line endings never change a program's meaning.

use serde_json::{Value, json};

use crate::corpus;
use crate::engine::{Shard, Tape, Violation, hash64};
use crate::genr::build::{Gen, GenCfg};
use crate::genr::inject::{count_slots, replace_slot};
use crate::genr::ir::*;
use crate::genr::print::{Layout, Rendered, render};
use crate::impl_run::{self, End, FrontErr, RunOpts};
use crate::props::Prop;
use crate::props::c11::random_layout;
use crate::props::common::norm_numbers;

pub struct C09;

/// Normalises the Debug rendering of a parsed program: positions erased, comment statements dropped,
/// identifier payloads case-folded (string literal payloads verbatim).
pub fn normalise_ast(debug: &str) -> String {
    // 1. positions
    let mut s = String::with_capacity(debug.len());
    let b: Vec<char> = debug.chars().collect();
    let pat: Vec<char> = "Position { row: ".chars().collect();
    let mut i = 0;
    while i < b.len() {
        if b[i..].starts_with(&pat) {
            // skip to the closing brace
            let mut j = i;
            while j < b.len() && b[j] != '}' {
                j += 1;
            }
            s.push('P');
            i = j + 1;
        } else if b[i] == '"' {
            // copy a debug string literal verbatim
            s.push('"');
            i += 1;
            while i < b.len() {
                s.push(b[i]);
                if b[i] == '\\' && i + 1 < b.len() {
                    s.push(b[i + 1]);
                    i += 2;
                    continue;
                }
                if b[i] == '"' {
                    i += 1;
                    break;
                }
                i += 1;
            }
        } else {
            s.push(b[i]);
            i += 1;
        }
    }
    // 2. comments
    for head in ["Positioned { element: Statement(Comment(\"", "Positioned { element: Comment(\""] {
        loop {
            let Some(start) = s.find(head) else { break };
            // find the end of the string literal
            let bytes = s.as_bytes();
            let mut j = start + head.len();
            while j < bytes.len() {
                if bytes[j] == b'\\' {
                    j += 2;
                    continue;
                }
                if bytes[j] == b'"' {
                    break;
                }
                j += 1;
            }
            let tail = if head.contains("Statement(") { "\")), pos: P }" } else { "\"), pos: P }" };
            if !s[j..].starts_with(tail) {
                // unexpected shape: leave it (the comparison will then fail loudly)
                break;
            }
            let end = j + tail.len();
            let (mut a, mut z) = (start, end);
            if s[..a].ends_with(", ") {
                a -= 2;
            } else if s[z..].starts_with(", ") {
                z += 2;
            }
            s.replace_range(a..z, "");
        }
    }
    // 2b. comment containers of SELECT CASE and TYPE, and the empty else block a trailing comment leaves behind
    for head in ["inline_comments: [", "comments: ["] {
        let mut from = 0;
        while let Some(k) = s[from..].find(head) {
            let start = from + k + head.len();
            let bytes = s.as_bytes();
            let mut depth = 1;
            let mut j = start;
            while j < bytes.len() && depth > 0 {
                match bytes[j] {
                    b'"' => {
                        j += 1;
                        while j < bytes.len() && bytes[j] != b'"' {
                            if bytes[j] == b'\\' {
                                j += 1;
                            }
                            j += 1;
                        }
                    }
                    b'[' => depth += 1,
                    b']' => depth -= 1,
                    _ => {}
                }
                j += 1;
            }
            // j is one past the closing bracket
            s.replace_range(start..j - 1, "");
            from = start;
        }
    }
    s = s.replace("else_block: Some([])", "else_block: None");
    // letters of DEFtype ranges are characters, not identifiers: fold their case too
    {
        let cs: Vec<char> = s.chars().collect();
        let mut t = String::with_capacity(s.len());
        let mut i = 0;
        while i < cs.len() {
            if cs[i] == '\'' && i + 2 < cs.len() && cs[i + 2] == '\'' && cs[i + 1].is_ascii_alphabetic() {
                t.push('\'');
                t.push(cs[i + 1].to_ascii_uppercase());
                t.push('\'');
                i += 3;
            } else {
                t.push(cs[i]);
                i += 1;
            }
        }
        s = t;
    }
    // 3. identifier case
    let head = "CaseInsensitiveString(\"";
    let mut out = String::with_capacity(s.len());
    let mut rest = s.as_str();
    while let Some(k) = rest.find(head) {
        out.push_str(&rest[..k + head.len()]);
        rest = &rest[k + head.len()..];
        let end = rest.find('"').unwrap_or(rest.len());
        out.push_str(&rest[..end].to_uppercase());
        rest = &rest[end..];
    }
    out.push_str(rest);
    out
}

fn ast_of(text: &str) -> Result<String, FrontErr> {
    impl_run::parse(text).map(|p| normalise_ast(&format!("{:?}", p)))
}

/// innermost site containing (row, col)
fn site_at(r: &Rendered, row: u32, col: u32) -> Option<String> {
    let mut best: Option<(&String, u32)> = None;
    for (p, s) in &r.sites {
        if s.row == row && col >= s.col_start && col <= s.col_end + 1 {
            let span = s.col_end - s.col_start;
            if best.map(|(_, b)| span < b).unwrap_or(true) {
                best = Some((p, span));
            }
        }
    }
    best.map(|(p, _)| p.clone())
}

fn inside(r: &Rendered, path: &str, row: u32, col: u32) -> bool {
    r.sites.get(path).map(|s| s.row == row && col >= s.col_start && col <= s.col_end + 1).unwrap_or(false)
}

fn run_pair(a: &Rendered, b: &Rendered, what: &str, inputs: Value) -> Result<bool, Violation> {
    run_pair_opt(a, b, what, inputs, true)
}

fn run_pair_opt(a: &Rendered, b: &Rendered, what: &str, inputs: Value, compare_trees: bool) -> Result<bool, Violation> {
    // (1) parse trees
    let ta = ast_of(&a.text);
    let tb = ast_of(&b.text);
    match (&ta, &tb) {
        (Ok(x), Ok(y)) => {
            if x != y && compare_trees {
                // locate the first difference for the report
                let k = x.chars().zip(y.chars()).position(|(p, q)| p != q).unwrap_or(x.len().min(y.len()));
                let ctx = |s: &str| s.chars().skip(k.saturating_sub(60)).take(160).collect::<String>();
                return Err(Violation::new(format!("c09-tree:{}", what), "the two layouts of one program parse to different trees (positions, comments and identifier case aside)", inputs).exp_obs(ctx(x), ctx(y)));
            }
        }
        (Err(FrontErr::Panic { stage, info }), _) | (_, Err(FrontErr::Panic { stage, info })) => {
            return Err(Violation::new(format!("panic:{}:{}", stage, info.sig()), "parser panicked", inputs));
        }
        (Err(x), Err(y)) => {
            if x.class() != y.class() {
                return Err(Violation::new(format!("c09-parse-verdict:{}", what), "the two layouts are rejected by the parser with different errors", inputs).exp_obs(x.to_json(), y.to_json()));
            }
            let (ra, ca) = x.pos().unwrap();
            let (rb, cb) = y.pos().unwrap();
            if let Some(p) = site_at(a, ra, ca) {
                if !inside(b, &p, rb, cb) {
                    return Err(Violation::new(format!("c09-parse-error-site:{}", what), "the parse error moves to another statement under the other layout", inputs).exp_obs(json!({"site": p, "layout_a": x.to_json()}), y.to_json()));
                }
            }
            return Ok(false);
        }
        (x, y) => {
            let j = |r: &Result<String, FrontErr>| match r {
                Ok(_) => json!("parsed"),
                Err(e) => e.to_json(),
            };
            return Err(Violation::new(format!("c09-parse-verdict:{}", what), "one layout of the program parses, the other does not", inputs).exp_obs(j(x), j(y)));
        }
    }
    // (2) checker verdict
    let fa = impl_run::front(&a.text);
    let fb = impl_run::front(&b.text);
    match (&fa, &fb) {
        (Ok(_), Ok(_)) => {}
        (Err(x), Err(y)) => {
            if x.class() != y.class() {
                return Err(Violation::new(format!("c09-check-verdict:{}", what), "the two layouts are rejected by the checker with different errors", inputs).exp_obs(x.to_json(), y.to_json()));
            }
            if let (Some((ra, ca)), Some((rb, cb))) = (x.pos(), y.pos()) {
                if let Some(p) = site_at(a, ra, ca) {
                    if !inside(b, &p, rb, cb) {
                        return Err(Violation::new(format!("c09-check-error-site:{}", what), "the checker error moves to another statement under the other layout", inputs).exp_obs(json!({"site": p, "layout_a": x.to_json()}), y.to_json()));
                    }
                }
            }
            return Ok(false);
        }
        (x, y) => {
            let j = |r: &Result<_, FrontErr>| match r {
                Ok(_) => json!("accepted"),
                Err(e) => e.to_json(),
            };
            return Err(Violation::new(format!("c09-check-verdict:{}", what), "the checker accepts one layout of the program and rejects the other", inputs).exp_obs(j(x), j(y)));
        }
    }
    // (3) behaviour
    let (pa, ca) = fa.unwrap();
    let (pb, cb) = fb.unwrap();
    let (Ok(xa), Ok(xb)) = (impl_run::codegen(pa, ca), impl_run::codegen(pb, cb)) else {
        return Ok(false); // codegen panics are C08's business
    };
    let oa = impl_run::run(xa, &RunOpts::budget(1_500_000));
    let ob = impl_run::run(xb, &RunOpts::budget(1_500_000));
    if matches!(oa.end, End::Budget) && matches!(ob.end, End::Budget) {
        return Ok(false);
    }
    if norm_numbers(&oa.stdout_str()) != norm_numbers(&ob.stdout_str()) || oa.lpt1 != ob.lpt1 {
        return Err(Violation::new(format!("c09-output:{}", what), "the two layouts of one program print different text", inputs).exp_obs(json!({"stdout": oa.stdout_str(), "end": oa.end.to_json()}), json!({"stdout": ob.stdout_str(), "end": ob.end.to_json()})));
    }
    match (&oa.end, &ob.end) {
        (End::Ok, End::Ok) => {}
        (End::Err { code: c1, pos: p1, .. }, End::Err { code: c2, pos: p2, .. }) => {
            if c1 != c2 {
                return Err(Violation::new(format!("c09-error-code:{}", what), "the two layouts end with different run-time errors", inputs).exp_obs(oa.end.to_json(), ob.end.to_json()));
            }
            if let (Some((ra, cca)), Some((rb, ccb))) = (p1.first(), p2.first()) {
                if let Some(p) = site_at(a, *ra, *cca) {
                    if !inside(b, &p, *rb, *ccb) {
                        return Err(Violation::new(format!("c09-runtime-error-site:{}", what), "the run-time error is reported at another statement under the other layout", inputs).exp_obs(json!({"site": p, "layout_a": oa.end.to_json()}), ob.end.to_json()));
                    }
                }
            }
        }
        (x, y) => {
            if x.short() != y.short() {
                return Err(Violation::new(format!("c09-end:{}", what), "the two layouts of one program end differently", inputs).exp_obs(x.to_json(), y.to_json()));
            }
        }
    }
    Ok(true)
}

fn gen_program(t: &mut Tape, rest: &[u32]) -> (Program, &'static str) {
    match t.choose(4) {
        0 => (Gen::new(rest, &GenCfg::core(14, 3)).core_program(), "core"),
        1 => {
            let mut cfg = GenCfg::core(8, 2);
            cfg.procs = true;
            cfg.data = false;
            cfg.deftypes = false;
            (Gen::new(rest, &cfg).calls_program(), "calls")
        }
        2 => (Gen::new(rest, &GenCfg::core(20, 3)).control_program(), "control"),
        _ => (Gen::new(rest, &GenCfg::core(20, 2)).array_program(), "arrays"),
    }
}

fn one_case(sh: &mut Shard, tape: &[u32]) -> Result<(), Violation> {
    let mut t = Tape::new(tape);
    let lay_a = if t.chance(1, 3) { random_layout(&mut t) } else { Layout::plain() };
    let lay_b = random_layout(&mut t);
    let fault = t.choose(6); // 0..=3: accepted program; 4, 5: a rejected one (static fault injected)
    let which = t.raw();
    let used = t.used();
    let rest = &tape[used.min(tape.len())..];
    let (mut prog, kind) = gen_program(&mut t, rest);
    let mut what = kind.to_string();
    if fault >= 4 {
        let n = count_slots(&prog);
        if n > 0 {
            let target = ((which as u64 * n as u64) >> 32) as usize;
            let text = *Tape::new(&[which]).pick(&["ZQ = = 1", "PRINT )", "ZQ% = \"abc\"", "GOTO ZNoSuchLabel", "ZQ% = LEN(\"a\", \"b\")", "NEXT"]);
            let _ = replace_slot(&mut prog, target, &mut |_, _| Stmt::Raw(text.to_string()));
            what = format!("{}-rejected", kind);
        }
    }
    let a = render(&prog, &lay_a);
    let b = render(&prog, &lay_b);
    sh.eval();
    if a.text == b.text {
        sh.discard("the two layouts render identically");
        return Ok(());
    }
    sh.journal(&b.text);
    let inputs = json!({"kind": "generated", "layout_a": lay_a.describe(), "layout_b": lay_b.describe(), "text_a": a.text, "text_b": b.text, "sites_a": sites_json(&a), "sites_b": sites_json(&b), "what": what});
    let ran = run_pair(&a, &b, &what, inputs)?;
    sh.class(&format!("program:{}", what));
    sh.class(&format!("eol:{:?}->{:?}", lay_a.eol, lay_b.eol));
    if lay_b.case_mode > 0 {
        sh.class("case-changed");
    }
    if lay_b.colons > 0 {
        sh.class("colon-joins");
    }
    if lay_b.comments > 0 || lay_b.blank_lines > 0 {
        sh.class("comments-or-blank-lines");
    }
    if lay_b.space_mode > 0 {
        sh.class("blanks-and-tabs");
    }
    if b.changed_sites >= 1 && a.rows >= 3 {
        sh.nontrivial(hash64(&(&a.text, &b.text)));
    }
    if ran {
        sh.class("ran-both");
    }
    sh.sample_sparse(401, || json!({"layout_b": lay_b.describe(), "text_a": a.text, "text_b": b.text}));
    Ok(())
}

fn sites_json(r: &Rendered) -> Value {
    Value::Object(r.sites.iter().map(|(k, s)| (k.clone(), json!([s.row, s.col_start, s.col_end]))).collect())
}

fn rendered_from(text: &str, sites: &Value) -> Rendered {
    let mut m = std::collections::BTreeMap::new();
    if let Some(o) = sites.as_object() {
        for (k, v) in o {
            m.insert(k.clone(), crate::genr::print::Site { row: v[0].as_u64().unwrap_or(0) as u32, col_start: v[1].as_u64().unwrap_or(0) as u32, col_end: v[2].as_u64().unwrap_or(0) as u32, proc_: None, after_colon: false });
        }
    }
    Rendered { text: text.to_string(), sites: m, rows: 0, changed_sites: 0 }
}

// ---------------------------------------------------------------- corpus texts (text-level transformations)

/// Splits a line into (code, comment) at the first `'` outside a string literal.
fn split_comment(line: &str) -> (String, String) {
    let mut in_str = false;
    for (i, ch) in line.char_indices() {
        if ch == '"' {
            in_str = !in_str;
        } else if ch == '\'' && !in_str {
            return (line[..i].to_string(), line[i..].to_string());
        }
    }
    (line.to_string(), String::new())
}

fn flip_case_outside_strings(code: &str, seed: u64) -> String {
    let mut in_str = false;
    let mut in_amp = false;
    let mut out = String::new();
    for (i, ch) in code.chars().enumerate() {
        if ch == '"' {
            in_str = !in_str;
            out.push(ch);
        } else if !in_str && ch == '&' {
            in_amp = true;
            out.push(ch);
        } else if !in_str && in_amp && ch.is_ascii_alphanumeric() {
            // &H.. / &O.. literals are neither keywords nor identifiers: left as written
            out.push(ch);
        } else if !in_str && ch.is_ascii_alphabetic() {
            in_amp = false;
            if hash64(&(seed, i)) % 2 == 0 { out.push(ch.to_ascii_lowercase()) } else { out.push(ch.to_ascii_uppercase()) }
        } else {
            in_amp = false;
            out.push(ch);
        }
    }
    out
}

/// Returns the transformed text and the map old row -> new row.
fn transform_text(text: &str, t: &mut Tape) -> (String, Vec<u32>, Vec<&'static str>) {
    let flip = t.chance(1, 2);
    let blanks = t.chance(1, 2);
    let comments = t.chance(1, 2);
    let eol = *t.pick(&["\r\n", "\n", "\r"]);
    let seed = t.raw() as u64;
    let mut applied = vec![];
    let lines: Vec<&str> = text.split('\n').map(|l| l.strip_suffix('\r').unwrap_or(l)).collect();
    let mut out: Vec<String> = vec![];
    let mut rowmap = vec![];
    for (i, line) in lines.iter().enumerate() {
        if blanks && hash64(&(seed, "b", i)) % 4 == 0 {
            out.push(String::new());
        }
        let (code, comment) = split_comment(line);
        let is_data = code.to_uppercase().contains("DATA");
        let mut c = code.clone();
        if flip && !is_data {
            c = flip_case_outside_strings(&c, seed.wrapping_add(i as u64));
        }
        let mut l = format!("{}{}", c, comment);
        if comments && comment.is_empty() && !is_data && !c.trim().is_empty() && c.matches('"').count() % 2 == 0 && hash64(&(seed, "c", i)) % 3 == 0 {
            l.push_str(" ' c09");
        }
        out.push(l);
        rowmap.push(out.len() as u32);
    }
    if flip {
        applied.push("case");
    }
    if blanks {
        applied.push("blank-lines");
    }
    if comments {
        applied.push("trailing-comments");
    }
    applied.push(match eol {
        "\r\n" => "crlf",
        "\r" => "cr",
        _ => "lf",
    });
    (out.join(eol), rowmap, applied)
}

/// Removes every file the previous run left in the worker's private scratch directory.
fn clean_cwd() {
    if let Ok(rd) = std::fs::read_dir(".") {
        for e in rd.flatten() {
            let p = e.path();
            if p.is_file() {
                let _ = std::fs::remove_file(&p);
            } else if p.is_dir() {
                let _ = std::fs::remove_dir_all(&p);
            }
        }
    }
}

fn corpus_case(sh: &mut Shard, text: &str, tape: &[u32]) -> Result<(), Violation> {
    let mut t = Tape::new(tape);
    let (new_text, rowmap, applied) = transform_text(text, &mut t);
    sh.eval();
    if new_text == text {
        sh.discard("transformation left the text unchanged");
        return Ok(());
    }
    sh.journal(&new_text);
    let what = "corpus";
    let inputs = json!({"kind": "corpus", "text_a": text, "text_b": new_text, "applied": applied});
    // trees
    let ta = ast_of(text);
    let tb = ast_of(&new_text);
    let old_row_of = |r: u32| -> Option<u32> { rowmap.iter().position(|x| *x == r).map(|i| i as u32 + 1) };
    // FIELD and LSET carry their variable names as string payloads in the tree (case kept as written)
    let names_as_strings = applied.contains(&"case") && (text.to_uppercase().contains("FIELD") || text.to_uppercase().contains("LSET"));
    match (&ta, &tb) {
        (Ok(x), Ok(y)) => {
            if x != y && names_as_strings {
                sh.discard("tree of a FIELD/LSET program after a case change (names are string payloads)");
            } else if x != y {
                let k = x.chars().zip(y.chars()).position(|(p, q)| p != q).unwrap_or(x.len().min(y.len()));
                let ctx = |s: &str| s.chars().skip(k.saturating_sub(60)).take(160).collect::<String>();
                return Err(Violation::new(format!("c09-tree:{}", what), "a layout transformation of a repository program changes its parse tree", inputs).exp_obs(ctx(x), ctx(y)));
            }
        }
        (Err(x), Err(y)) => {
            if x.class() != y.class() {
                return Err(Violation::new(format!("c09-parse-verdict:{}", what), "a layout transformation changes the parser's error", inputs).exp_obs(x.to_json(), y.to_json()));
            }
            return Ok(());
        }
        (x, y) => {
            let j = |r: &Result<String, FrontErr>| match r {
                Ok(_) => json!("parsed"),
                Err(e) => e.to_json(),
            };
            return Err(Violation::new(format!("c09-parse-verdict:{}", what), "a layout transformation changes whether a repository program parses", inputs).exp_obs(j(x), j(y)));
        }
    }
    let fa = impl_run::front(text);
    let fb = impl_run::front(&new_text);
    match (&fa, &fb) {
        (Ok(_), Ok(_)) => {}
        (Err(x), Err(y)) => {
            if x.class() != y.class() || x.pos().map(|p| p.0) != y.pos().and_then(|p| old_row_of(p.0)) {
                return Err(Violation::new(format!("c09-check-verdict:{}", what), "a layout transformation changes the checker's error (class or row)", inputs).exp_obs(x.to_json(), y.to_json()));
            }
            return Ok(());
        }
        (x, y) => {
            let j = |r: &Result<_, FrontErr>| match r {
                Ok(_) => json!("accepted"),
                Err(e) => e.to_json(),
            };
            return Err(Violation::new(format!("c09-check-verdict:{}", what), "a layout transformation changes the checker's verdict", inputs).exp_obs(j(x), j(y)));
        }
    }
    if corpus::uses_machine(text) {
        return Ok(());
    }
    let (pa, ca) = fa.unwrap();
    let (pb, cb) = fb.unwrap();
    let (Ok(xa), Ok(xb)) = (impl_run::codegen(pa, ca), impl_run::codegen(pb, cb)) else { return Ok(()) };
    let opts = RunOpts::budget(300_000).with_stdin(b"1\r\n2\r\nabc\r\n3\r\n");
    clean_cwd();
    let oa = impl_run::run(xa, &opts);
    clean_cwd();
    let ob = impl_run::run(xb, &opts);
    clean_cwd();
    if oa.stdout != ob.stdout || oa.lpt1 != ob.lpt1 {
        return Err(Violation::new(format!("c09-output:{}", what), "a layout transformation changes what a repository program prints", inputs).exp_obs(oa.stdout_str(), ob.stdout_str()));
    }
    let same_end = match (&oa.end, &ob.end) {
        (End::Err { code: c1, pos: p1, .. }, End::Err { code: c2, pos: p2, .. }) => c1 == c2 && p1.first().map(|p| p.0) == p2.first().and_then(|p| old_row_of(p.0)),
        (x, y) => x.short() == y.short(),
    };
    if !same_end {
        return Err(Violation::new(format!("c09-end:{}", what), "a layout transformation changes how a repository program ends", inputs).exp_obs(oa.end.to_json(), ob.end.to_json()));
    }
    sh.class("program:corpus");
    for a in &applied {
        sh.class(&format!("corpus-transform:{}", a));
    }
    if text.lines().count() >= 3 {
        sh.nontrivial(hash64(&(text, &new_text)));
    }
    Ok(())
}

impl Prop for C09 {
    fn id(&self) -> &'static str {
        "C09"
    }
    fn rule(&self) -> &'static str {
        "Generated programs (core, calls, control-flow, arrays/records; one third with an injected static fault so that rejected programs are covered too) are rendered twice by the IR printer under two layouts drawn independently (keyword/identifier case per token, blanks/tabs where a blank is legal, optional blanks after , ; and inside parentheses, blank lines, comment lines, trailing comments, newline vs colon between consecutive simple statements, LF/CRLF/CR, with/without final line end), and the repository's own program texts are transformed by a string/comment-aware text transformer (case outside strings/comments/DATA, blank lines, trailing comments, line-ending convention). Required: (1) equal parse trees after erasing positions, dropping comment statements and folding identifier case; (2) same parser/checker verdict (error class, and the error lands in the same statement via the two site maps); (3) same stdout/LPT1, same error code, error position in the same statement. Non-trivial = at least one site changed and >= 3 lines; distinct by the pair of texts."
    }
    fn assumptions(&self) -> Vec<&'static str> {
        vec![
            "a blank between an array name and its opening parenthesis is not treated as 'a place where a blank is allowed' (never generated)",
            "`Name:` at the start of a line is a label: an argument-less call is never followed by a colon join",
            "DATA lines are left untouched by the text transformer",
        ]
    }
    fn run(&self, sh: &mut Shard) {
        let cases = sh.share(sh.tier.pick(12_000, 400_000));
        sh.search(1, cases, 80, 400, |sh, tape| one_case(sh, tape));
        // corpus: every candidate text (accepted or not) under two random transformations
        let all = corpus::candidates();
        let reps = sh.tier.pick(2, 12);
        for (i, text) in all.iter().enumerate() {
            if !sh.mine(i as u64) {
                continue;
            }
            for k in 0..reps {
                let tape: Vec<u32> = (0..6).map(|j| (hash64(&(sh.seed, i, k, j)) >> 16) as u32).collect();
                let r = corpus_case(sh, text, &tape);
                if !sh.report(r) {
                    return;
                }
            }
        }
    }
    fn replay(&self, sh: &mut Shard, inputs: &Value) -> Result<(), Violation> {
        let a = inputs["text_a"].as_str().unwrap_or("");
        let b = inputs["text_b"].as_str().unwrap_or("");
        if inputs["kind"] == "corpus" {
            // re-apply is not possible without the tape: compare the two stored texts with an identity row map by re-running the generic pair check
            let ra = rendered_from(a, &Value::Null);
            let rb = rendered_from(b, &Value::Null);
            let _ = sh;
            let up = a.to_uppercase();
            let names_as_strings = up.contains("FIELD") || up.contains("LSET");
            return run_pair_opt(&ra, &rb, "corpus", inputs.clone(), !names_as_strings).map(|_| ());
        }
        let ra = rendered_from(a, &inputs["sites_a"]);
        let rb = rendered_from(b, &inputs["sites_b"]);
        run_pair(&ra, &rb, inputs["what"].as_str().unwrap_or("replay"), inputs.clone()).map(|_| ())
    }
}

//! C09 — letter case, spacing, comments and line endings never change a program's meaning.

use serde_json::{Value, json};

use crate::corpus;
use crate::engine::{Shard, Tape, Violation, hash64};
use crate::genr::build::{Gen, GenCfg};
use crate::genr::inject::{count_slots, replace_slot};
use crate::genr::ir::*;
use crate::genr::print::{Layout, Rendered, render};
use crate::impl_run::{self, End, FrontErr, RunOpts};
use crate::props::Prop;
use crate::props::c11::random_layout;
use crate::props::common::norm_numbers;

pub struct C09;

/// Normalises the Debug rendering of a parsed program: positions erased, comment statements dropped,
/// identifier payloads case-folded (string literal payloads verbatim).
pub fn normalise_ast(debug: &str) -> String {
    // 1. positions
    let mut s = String::with_capacity(debug.len());
    let b: Vec<char> = debug.chars().collect();
    let pat: Vec<char> = "Position { row: ".chars().collect();
    let mut i = 0;
    while i < b.len() {
        if b[i..].starts_with(&pat) {
            // skip to the closing brace
            let mut j = i;
            while j < b.len() && b[j] != '}' {
                j += 1;
            }
            s.push('P');
            i = j + 1;
        } else if b[i] == '"' {
            // copy a debug string literal verbatim
            s.push('"');
            i += 1;
            while i < b.len() {
                s.push(b[i]);
                if b[i] == '\\' && i + 1 < b.len() {
                    s.push(b[i + 1]);
                    i += 2;
                    continue;
                }
                if b[i] == '"' {
                    i += 1;
                    break;
                }
                i += 1;
            }
        } else {
            s.push(b[i]);
            i += 1;
        }
    }
    // 1b. FIELD keeps the name of each variable a second time as a string literal (`StringLiteral("Name")` right in
    // front of the variable itself): that copy is an identifier, its letter case folds like the variable's
    {
        let head = "StringLiteral(\"";
        let mid = "\"), pos: P }, Positioned { element: Variable(Name { bare_name: CaseInsensitiveString(\"";
        let mut from = 0;
        while let Some(k) = s[from..].find(head) {
            let start = from + k + head.len();
            let Some(len) = s[start..].find('"') else { break };
            let payload = s[start..start + len].to_string();
            let after = start + len;
            if s[after..].starts_with(mid) {
                let q_start = after + mid.len();
                if let Some(q_len) = s[q_start..].find('"') {
                    let q = &s[q_start..q_start + q_len];
                    if q.eq_ignore_ascii_case(&payload) && payload.chars().all(|c| c.is_ascii_alphanumeric() || c == '.') {
                        s.replace_range(start..start + len, &payload.to_ascii_uppercase());
                    }
                }
            }
            from = after;
        }
    }
    // 2. comments
    for head in ["Positioned { element: Statement(Comment(\"", "Positioned { element: Comment(\""] {
        loop {
            let Some(start) = s.find(head) else { break };
            // find the end of the string literal
            let bytes = s.as_bytes();
            let mut j = start + head.len();
            while j < bytes.len() {
                if bytes[j] == b'\\' {
                    j += 2;
                    continue;
                }
                if bytes[j] == b'"' {
                    break;
                }
                j += 1;
            }
            let tail = if head.contains("Statement(") { "\")), pos: P }" } else { "\"), pos: P }" };
            if !s[j..].starts_with(tail) {
                // unexpected shape: leave it (the comparison will then fail loudly)
                break;
            }
            let end = j + tail.len();
            let (mut a, mut z) = (start, end);
            if s[..a].ends_with(", ") {
                a -= 2;
            } else if s[z..].starts_with(", ") {
                z += 2;
            }
            s.replace_range(a..z, "");
        }
    }
    // 2b. comment containers of SELECT CASE and TYPE, and the empty else block a trailing comment leaves behind
    for head in ["inline_comments: [", "comments: ["] {
        let mut from = 0;
        while let Some(k) = s[from..].find(head) {
            let start = from + k + head.len();
            let bytes = s.as_bytes();
            let mut depth = 1;
            let mut j = start;
            while j < bytes.len() && depth > 0 {
                match bytes[j] {
                    b'"' => {
                        j += 1;
                        while j < bytes.len() && bytes[j] != b'"' {
                            if bytes[j] == b'\\' {
                                j += 1;
                            }
                            j += 1;
                        }
                    }
                    b'[' => depth += 1,
                    b']' => depth -= 1,
                    _ => {}
                }
                j += 1;
            }
            // j is one past the closing bracket
            s.replace_range(start..j - 1, "");
            from = start;
        }
    }
    s = s.replace("else_block: Some([])", "else_block: None");
    // letters of DEFtype ranges are characters, not identifiers: fold their case too
    {
        let cs: Vec<char> = s.chars().collect();
        let mut t = String::with_capacity(s.len());
        let mut i = 0;
        while i < cs.len() {
            if cs[i] == '\'' && i + 2 < cs.len() && cs[i + 2] == '\'' && cs[i + 1].is_ascii_alphabetic() {
                t.push('\'');
                t.push(cs[i + 1].to_ascii_uppercase());
                t.push('\'');
                i += 3;
            } else {
                t.push(cs[i]);
                i += 1;
            }
        }
        s = t;
    }
    // 3. identifier case
    let head = "CaseInsensitiveString(\"";
    let mut out = String::with_capacity(s.len());
    let mut rest = s.as_str();
    while let Some(k) = rest.find(head) {
        out.push_str(&rest[..k + head.len()]);
        rest = &rest[k + head.len()..];
        let end = rest.find('"').unwrap_or(rest.len());
        out.push_str(&rest[..end].to_uppercase());
        rest = &rest[end..];
    }
    out.push_str(rest);
    out
}

fn ast_of(text: &str) -> Result<String, FrontErr> {
    impl_run::parse(text).map(|p| normalise_ast(&format!("{:?}", p)))
}

/// innermost site containing (row, col)
fn site_at(r: &Rendered, row: u32, col: u32) -> Option<String> {
    let mut best: Option<(&String, u32)> = None;
    for (p, s) in &r.sites {
        if s.row == row && col >= s.col_start && col <= s.col_end + 1 {
            let span = s.col_end - s.col_start;
            if best.map(|(_, b)| span < b).unwrap_or(true) {
                best = Some((p, span));
            }
        }
    }
    best.map(|(p, _)| p.clone())
}

fn inside(r: &Rendered, path: &str, row: u32, col: u32) -> bool {
    r.sites.get(path).map(|s| s.row == row && col >= s.col_start && col <= s.col_end + 1).unwrap_or(false)
}

fn run_pair(a: &Rendered, b: &Rendered, what: &str, inputs: Value) -> Result<bool, Violation> {
    run_pair_opt(a, b, what, inputs, true)
}

fn run_pair_opt(a: &Rendered, b: &Rendered, what: &str, inputs: Value, compare_trees: bool) -> Result<bool, Violation> {
    run_pair_io(a, b, what, inputs, compare_trees, None)
}

/// `io`: Some(stdin) = the programs may read the keyboard and touch files: both runs get the same stdin bytes and an
/// emptied scratch directory.
fn run_pair_io(a: &Rendered, b: &Rendered, what: &str, inputs: Value, compare_trees: bool, io: Option<&[u8]>) -> Result<bool, Violation> {
    // (1) parse trees
    let ta = ast_of(&a.text);
    let tb = ast_of(&b.text);
    match (&ta, &tb) {
        (Ok(x), Ok(y)) => {
            if x != y && compare_trees {
                // locate the first difference for the report
                let k = x.chars().zip(y.chars()).position(|(p, q)| p != q).unwrap_or(x.len().min(y.len()));
                let ctx = |s: &str| s.chars().skip(k.saturating_sub(60)).take(160).collect::<String>();
                return Err(Violation::new(format!("c09-tree:{}", what), "the two layouts of one program parse to different trees (positions, comments and identifier case aside)", inputs).exp_obs(ctx(x), ctx(y)));
            }
        }
        (Err(FrontErr::Panic { stage, info }), _) | (_, Err(FrontErr::Panic { stage, info })) => {
            return Err(Violation::new(format!("panic:{}:{}", stage, info.sig()), "parser panicked", inputs));
        }
        (Err(x), Err(y)) => {
            if x.class() != y.class() {
                return Err(Violation::new(format!("c09-parse-verdict:{}", what), "the two layouts are rejected by the parser with different errors", inputs).exp_obs(x.to_json(), y.to_json()));
            }
            let (ra, ca) = x.pos().unwrap();
            let (rb, cb) = y.pos().unwrap();
            if let Some(p) = site_at(a, ra, ca) {
                if !inside(b, &p, rb, cb) {
                    return Err(Violation::new(format!("c09-parse-error-site:{}", what), "the parse error moves to another statement under the other layout", inputs).exp_obs(json!({"site": p, "layout_a": x.to_json()}), y.to_json()));
                }
            }
            return Ok(false);
        }
        (x, y) => {
            let j = |r: &Result<String, FrontErr>| match r {
                Ok(_) => json!("parsed"),
                Err(e) => e.to_json(),
            };
            return Err(Violation::new(format!("c09-parse-verdict:{}", what), "one layout of the program parses, the other does not", inputs).exp_obs(j(x), j(y)));
        }
    }
    // (2) checker verdict
    let fa = impl_run::front(&a.text);
    let fb = impl_run::front(&b.text);
    match (&fa, &fb) {
        (Ok(_), Ok(_)) => {}
        (Err(x), Err(y)) => {
            if x.class() != y.class() {
                return Err(Violation::new(format!("c09-check-verdict:{}", what), "the two layouts are rejected by the checker with different errors", inputs).exp_obs(x.to_json(), y.to_json()));
            }
            if let (Some((ra, ca)), Some((rb, cb))) = (x.pos(), y.pos()) {
                if let Some(p) = site_at(a, ra, ca) {
                    if !inside(b, &p, rb, cb) {
                        return Err(Violation::new(format!("c09-check-error-site:{}", what), "the checker error moves to another statement under the other layout", inputs).exp_obs(json!({"site": p, "layout_a": x.to_json()}), y.to_json()));
                    }
                }
            }
            return Ok(false);
        }
        (x, y) => {
            let j = |r: &Result<_, FrontErr>| match r {
                Ok(_) => json!("accepted"),
                Err(e) => e.to_json(),
            };
            return Err(Violation::new(format!("c09-check-verdict:{}", what), "the checker accepts one layout of the program and rejects the other", inputs).exp_obs(j(x), j(y)));
        }
    }
    // (3) behaviour
    let (pa, ca) = fa.unwrap();
    let (pb, cb) = fb.unwrap();
    let (Ok(xa), Ok(xb)) = (impl_run::codegen(pa, ca), impl_run::codegen(pb, cb)) else {
        return Ok(false); // codegen panics are C08's business
    };
    let opts = match io {
        Some(stdin) => RunOpts::budget(1_500_000).with_stdin(stdin),
        None => RunOpts::budget(1_500_000),
    };
    if io.is_some() {
        clean_cwd();
    }
    let oa = impl_run::run(xa, &opts);
    if io.is_some() {
        clean_cwd();
    }
    let ob = impl_run::run(xb, &opts);
    if io.is_some() {
        clean_cwd();
    }
    if matches!(oa.end, End::Budget) && matches!(ob.end, End::Budget) {
        return Ok(false);
    }
    if norm_numbers(&oa.stdout_str()) != norm_numbers(&ob.stdout_str()) || oa.lpt1 != ob.lpt1 {
        return Err(Violation::new(format!("c09-output:{}", what), "the two layouts of one program print different text", inputs).exp_obs(json!({"stdout": oa.stdout_str(), "end": oa.end.to_json()}), json!({"stdout": ob.stdout_str(), "end": ob.end.to_json()})));
    }
    match (&oa.end, &ob.end) {
        (End::Ok, End::Ok) => {}
        (End::Err { code: c1, pos: p1, .. }, End::Err { code: c2, pos: p2, .. }) => {
            if c1 != c2 {
                return Err(Violation::new(format!("c09-error-code:{}", what), "the two layouts end with different run-time errors", inputs).exp_obs(oa.end.to_json(), ob.end.to_json()));
            }
            if let (Some((ra, cca)), Some((rb, ccb))) = (p1.first(), p2.first()) {
                if let Some(p) = site_at(a, *ra, *cca) {
                    if !inside(b, &p, *rb, *ccb) {
                        return Err(Violation::new(format!("c09-runtime-error-site:{}", what), "the run-time error is reported at another statement under the other layout", inputs).exp_obs(json!({"site": p, "layout_a": oa.end.to_json()}), ob.end.to_json()));
                    }
                }
            }
        }
        (x, y) => {
            if x.short() != y.short() {
                return Err(Violation::new(format!("c09-end:{}", what), "the two layouts of one program end differently", inputs).exp_obs(x.to_json(), y.to_json()));
            }
        }
    }
    Ok(true)
}

fn gen_program(t: &mut Tape, rest: &[u32]) -> (Program, &'static str) {
    match t.choose(4) {
        0 => (Gen::new(rest, &GenCfg::core(14, 3)).core_program(), "core"),
        1 => {
            let mut cfg = GenCfg::core(8, 2);
            cfg.procs = true;
            cfg.data = false;
            cfg.deftypes = false;
            (Gen::new(rest, &cfg).calls_program(), "calls")
        }
        2 => (Gen::new(rest, &GenCfg::core(20, 3)).control_program(), "control"),
        _ => (Gen::new(rest, &GenCfg::core(20, 2)).array_program(), "arrays"),
    }
}

fn one_case(sh: &mut Shard, tape: &[u32]) -> Result<(), Violation> {
    let mut t = Tape::new(tape);
    let lay_a = if t.chance(1, 3) { random_layout(&mut t) } else { Layout::plain() };
    let lay_b = random_layout(&mut t);
    let fault = t.choose(6); // 0..=3: accepted program; 4, 5: a rejected one (static fault injected)
    let which = t.raw();
    // one case in four gets additional DEFtype statements, one in three a second, text-level re-casing of layout b
    let more_deftypes = t.chance(1, 4);
    let recase = t.chance(1, 3);
    let recase_seed = t.raw() as u64;
    let dcells: Vec<u32> = (0..16).map(|_| t.raw()).collect();
    let used = t.used();
    let rest = &tape[used.min(tape.len())..];
    let (mut prog, kind) = gen_program(&mut t, rest);
    let mut what = kind.to_string();
    if fault >= 4 {
        let n = count_slots(&prog);
        if n > 0 {
            let target = ((which as u64 * n as u64) >> 32) as usize;
            let text = *Tape::new(&[which]).pick(&["ZQ = = 1", "PRINT )", "ZQ% = \"abc\"", "GOTO ZNoSuchLabel", "ZQ% = LEN(\"a\", \"b\")", "NEXT"]);
            let _ = replace_slot(&mut prog, target, &mut |_, _| Stmt::Raw(text.to_string()));
            what = format!("{}-rejected", kind);
        }
    }
    let mut def_classes: Vec<&'static str> = vec![];
    if more_deftypes {
        def_classes = add_deftypes(&mut Tape::new(&dcells), &mut prog);
    }
    for (_, x, y) in &prog.deftypes {
        if !more_deftypes {
            def_classes.push(if x == y { "deftype-generated:single-letter" } else { "deftype-generated:ascending-range" });
        }
    }
    let a = render(&prog, &lay_a);
    let mut b = render(&prog, &lay_b);
    if recase {
        // every letter of every token outside strings, comments and DATA, independently (columns are unchanged)
        b.text = flip_letters(&b.text, Flip::Random(recase_seed), false);
        b.changed_sites += 1;
    }
    sh.eval();
    if a.text == b.text {
        sh.discard("the two layouts render identically");
        return Ok(());
    }
    sh.journal(&b.text);
    let inputs = json!({"kind": "generated", "layout_a": lay_a.describe(), "layout_b": lay_b.describe(), "text_a": a.text, "text_b": b.text, "sites_a": sites_json(&a), "sites_b": sites_json(&b), "what": what});
    let ran = run_pair(&a, &b, &what, inputs)?;
    sh.class(&format!("program:{}", what));
    sh.class(&format!("eol:{:?}->{:?}", lay_a.eol, lay_b.eol));
    if lay_b.case_mode > 0 || recase {
        sh.class("case-changed");
    }
    if recase {
        sh.class("case-changed-per-letter-on-text");
    }
    for c in &def_classes {
        sh.class(c);
    }
    if !prog.deftypes.is_empty() {
        sh.class("program-with-deftype");
        let (lu_a, ul_a) = mixed_case_ranges(&a.text);
        let (lu_b, ul_b) = mixed_case_ranges(&b.text);
        if lu_a + lu_b > 0 {
            sh.class("deftype-range-written-lower-upper");
        }
        if ul_a + ul_b > 0 {
            sh.class("deftype-range-written-upper-lower");
        }
        if !ran {
            sh.class("program-with-deftype-rejected");
        }
    }
    if lay_b.colons > 0 {
        sh.class("colon-joins");
    }
    if lay_b.comments > 0 || lay_b.blank_lines > 0 {
        sh.class("comments-or-blank-lines");
    }
    if lay_b.space_mode > 0 {
        sh.class("blanks-and-tabs");
    }
    if b.changed_sites >= 1 && a.rows >= 3 {
        sh.nontrivial(hash64(&(&a.text, &b.text)));
    }
    if ran {
        sh.class("ran-both");
    }
    sh.sample_sparse(401, || json!({"layout_b": lay_b.describe(), "text_a": a.text, "text_b": b.text}));
    Ok(())
}

fn sites_json(r: &Rendered) -> Value {
    Value::Object(r.sites.iter().map(|(k, s)| (k.clone(), json!([s.row, s.col_start, s.col_end]))).collect())
}

fn rendered_from(text: &str, sites: &Value) -> Rendered {
    let mut m = std::collections::BTreeMap::new();
    if let Some(o) = sites.as_object() {
        for (k, v) in o {
            m.insert(k.clone(), crate::genr::print::Site { row: v[0].as_u64().unwrap_or(0) as u32, col_start: v[1].as_u64().unwrap_or(0) as u32, col_end: v[2].as_u64().unwrap_or(0) as u32, proc_: None, after_colon: false });
        }
    }
    Rendered { text: text.to_string(), sites: m, rows: 0, changed_sites: 0 }
}

// ---------------------------------------------------------------- corpus texts (text-level transformations)

/// Splits a line into (code, comment) at the first `'` outside a string literal.
fn split_comment(line: &str) -> (String, String) {
    let mut in_str = false;
    for (i, ch) in line.char_indices() {
        if ch == '"' {
            in_str = !in_str;
        } else if ch == '\'' && !in_str {
            return (line[..i].to_string(), line[i..].to_string());
        }
    }
    (line.to_string(), String::new())
}

fn flip_case_outside_strings(code: &str, seed: u64) -> String {
    let mut in_str = false;
    let mut in_amp = false;
    let mut out = String::new();
    for (i, ch) in code.chars().enumerate() {
        if ch == '"' {
            in_str = !in_str;
            out.push(ch);
        } else if !in_str && ch == '&' {
            in_amp = true;
            out.push(ch);
        } else if !in_str && in_amp && ch.is_ascii_alphanumeric() {
            // &H.. / &O.. literals are neither keywords nor identifiers: left as written
            out.push(ch);
        } else if !in_str && ch.is_ascii_alphabetic() {
            in_amp = false;
            if hash64(&(seed, i)) % 2 == 0 { out.push(ch.to_ascii_lowercase()) } else { out.push(ch.to_ascii_uppercase()) }
        } else {
            in_amp = false;
            out.push(ch);
        }
    }
    out
}

/// Returns the transformed text and the map old row -> new row.
fn transform_text(text: &str, t: &mut Tape) -> (String, Vec<u32>, Vec<&'static str>) {
    let flip = t.chance(1, 2);
    let blanks = t.chance(1, 2);
    let comments = t.chance(1, 2);
    let eol = *t.pick(&["\r\n", "\n", "\r"]);
    let seed = t.raw() as u64;
    let mut applied = vec![];
    let lines: Vec<&str> = text.split('\n').map(|l| l.strip_suffix('\r').unwrap_or(l)).collect();
    let mut out: Vec<String> = vec![];
    let mut rowmap = vec![];
    for (i, line) in lines.iter().enumerate() {
        if blanks && hash64(&(seed, "b", i)) % 4 == 0 {
            out.push(String::new());
        }
        let (code, comment) = split_comment(line);
        let is_data = code.to_uppercase().contains("DATA");
        let mut c = code.clone();
        if flip && !is_data {
            c = flip_case_outside_strings(&c, seed.wrapping_add(i as u64));
        }
        let mut l = format!("{}{}", c, comment);
        if comments && comment.is_empty() && !is_data && !c.trim().is_empty() && c.matches('"').count() % 2 == 0 && hash64(&(seed, "c", i)) % 3 == 0 {
            l.push_str(" ' c09");
        }
        out.push(l);
        rowmap.push(out.len() as u32);
    }
    if flip {
        applied.push("case");
    }
    if blanks {
        applied.push("blank-lines");
    }
    if comments {
        applied.push("trailing-comments");
    }
    applied.push(match eol {
        "\r\n" => "crlf",
        "\r" => "cr",
        _ => "lf",
    });
    (out.join(eol), rowmap, applied)
}

/// Removes every file the previous run left in the worker's private scratch directory.
fn clean_cwd() {
    if let Ok(rd) = std::fs::read_dir(".") {
        for e in rd.flatten() {
            let p = e.path();
            if p.is_file() {
                let _ = std::fs::remove_file(&p);
            } else if p.is_dir() {
                let _ = std::fs::remove_dir_all(&p);
            }
        }
    }
}

fn corpus_case(sh: &mut Shard, text: &str, tape: &[u32]) -> Result<(), Violation> {
    let mut t = Tape::new(tape);
    let (new_text, rowmap, applied) = transform_text(text, &mut t);
    sh.eval();
    if new_text == text {
        sh.discard("transformation left the text unchanged");
        return Ok(());
    }
    sh.journal(&new_text);
    let what = "corpus";
    let inputs = json!({"kind": "corpus", "text_a": text, "text_b": new_text, "applied": applied});
    // trees
    let ta = ast_of(text);
    let tb = ast_of(&new_text);
    let old_row_of = |r: u32| -> Option<u32> { rowmap.iter().position(|x| *x == r).map(|i| i as u32 + 1) };
    // FIELD and LSET carry their variable names as string payloads in the tree (case kept as written)
    let names_as_strings = applied.contains(&"case") && (text.to_uppercase().contains("FIELD") || text.to_uppercase().contains("LSET"));
    match (&ta, &tb) {
        (Ok(x), Ok(y)) => {
            if x != y && names_as_strings {
                sh.discard("tree of a FIELD/LSET program after a case change (names are string payloads)");
            } else if x != y {
                let k = x.chars().zip(y.chars()).position(|(p, q)| p != q).unwrap_or(x.len().min(y.len()));
                let ctx = |s: &str| s.chars().skip(k.saturating_sub(60)).take(160).collect::<String>();
                return Err(Violation::new(format!("c09-tree:{}", what), "a layout transformation of a repository program changes its parse tree", inputs).exp_obs(ctx(x), ctx(y)));
            }
        }
        (Err(x), Err(y)) => {
            if x.class() != y.class() {
                return Err(Violation::new(format!("c09-parse-verdict:{}", what), "a layout transformation changes the parser's error", inputs).exp_obs(x.to_json(), y.to_json()));
            }
            return Ok(());
        }
        (x, y) => {
            let j = |r: &Result<String, FrontErr>| match r {
                Ok(_) => json!("parsed"),
                Err(e) => e.to_json(),
            };
            return Err(Violation::new(format!("c09-parse-verdict:{}", what), "a layout transformation changes whether a repository program parses", inputs).exp_obs(j(x), j(y)));
        }
    }
    let fa = impl_run::front(text);
    let fb = impl_run::front(&new_text);
    match (&fa, &fb) {
        (Ok(_), Ok(_)) => {}
        (Err(x), Err(y)) => {
            if x.class() != y.class() || x.pos().map(|p| p.0) != y.pos().and_then(|p| old_row_of(p.0)) {
                return Err(Violation::new(format!("c09-check-verdict:{}", what), "a layout transformation changes the checker's error (class or row)", inputs).exp_obs(x.to_json(), y.to_json()));
            }
            return Ok(());
        }
        (x, y) => {
            let j = |r: &Result<_, FrontErr>| match r {
                Ok(_) => json!("accepted"),
                Err(e) => e.to_json(),
            };
            return Err(Violation::new(format!("c09-check-verdict:{}", what), "a layout transformation changes the checker's verdict", inputs).exp_obs(j(x), j(y)));
        }
    }
    if corpus::uses_machine(text) {
        return Ok(());
    }
    let (pa, ca) = fa.unwrap();
    let (pb, cb) = fb.unwrap();
    let (Ok(xa), Ok(xb)) = (impl_run::codegen(pa, ca), impl_run::codegen(pb, cb)) else { return Ok(()) };
    let opts = RunOpts::budget(300_000).with_stdin(b"1\r\n2\r\nabc\r\n3\r\n");
    clean_cwd();
    let oa = impl_run::run(xa, &opts);
    clean_cwd();
    let ob = impl_run::run(xb, &opts);
    clean_cwd();
    if oa.stdout != ob.stdout || oa.lpt1 != ob.lpt1 {
        return Err(Violation::new(format!("c09-output:{}", what), "a layout transformation changes what a repository program prints", inputs).exp_obs(oa.stdout_str(), ob.stdout_str()));
    }
    let same_end = match (&oa.end, &ob.end) {
        (End::Err { code: c1, pos: p1, .. }, End::Err { code: c2, pos: p2, .. }) => c1 == c2 && p1.first().map(|p| p.0) == p2.first().and_then(|p| old_row_of(p.0)),
        (x, y) => x.short() == y.short(),
    };
    if !same_end {
        return Err(Violation::new(format!("c09-end:{}", what), "a layout transformation changes how a repository program ends", inputs).exp_obs(oa.end.to_json(), ob.end.to_json()));
    }
    sh.class("program:corpus");
    for a in &applied {
        sh.class(&format!("corpus-transform:{}", a));
    }
    if text.lines().count() >= 3 {
        sh.nontrivial(hash64(&(text, &new_text)));
    }
    Ok(())
}


// ---------------------------------------------------------------- per-letter case changes on program text

#[derive(Clone, Copy, Debug, PartialEq)]
enum Flip {
    /// every eligible letter independently
    Random(u64),
    Lower,
    Upper,
    /// alternate lower/upper over the eligible letters, starting with lower (false) or upper (true)
    Alternate(bool),
}

impl Flip {
    fn name(&self) -> &'static str {
        match self {
            Flip::Random(_) => "random",
            Flip::Lower => "lower",
            Flip::Upper => "upper",
            Flip::Alternate(false) => "alternate-lower-first",
            Flip::Alternate(true) => "alternate-upper-first",
        }
    }
}

/// Changes the case of every letter that belongs to a keyword, an identifier (variable, array, label, procedure,
/// parameter, TYPE, member, constant name; with or without a type suffix), a type name after AS, a file-mode word
/// or a DEFtype range letter — each letter independently. Untouched: string literals, comments (`'` and REM),
/// everything after DATA on its line, the radix letter of `&H..` / `&O..` literals and (unless `hex`) their digits A-F.
/// Line structure and columns are preserved exactly.
fn flip_letters(text: &str, flip: Flip, hex: bool) -> String {
    let cs: Vec<char> = text.chars().collect();
    let mut out = String::with_capacity(text.len());
    let mut n_letter: u64 = 0;
    let mut put = |out: &mut String, ch: char| {
        if !ch.is_ascii_alphabetic() {
            out.push(ch);
            return;
        }
        n_letter += 1;
        let upper = match flip {
            Flip::Random(seed) => hash64(&(seed, n_letter)) % 2 == 1,
            Flip::Lower => false,
            Flip::Upper => true,
            Flip::Alternate(first_upper) => (n_letter % 2 == 1) == first_upper,
        };
        out.push(if upper { ch.to_ascii_uppercase() } else { ch.to_ascii_lowercase() });
    };
    let mut i = 0;
    let eol = |c: char| c == '\n' || c == '\r';
    while i < cs.len() {
        let ch = cs[i];
        if ch == '"' {
            // string literal: verbatim up to the closing quote or the end of the line
            out.push(ch);
            i += 1;
            while i < cs.len() && !eol(cs[i]) {
                out.push(cs[i]);
                i += 1;
                if cs[i - 1] == '"' {
                    break;
                }
            }
        } else if ch == '\'' {
            while i < cs.len() && !eol(cs[i]) {
                out.push(cs[i]);
                i += 1;
            }
        } else if ch == '&' && i + 1 < cs.len() && matches!(cs[i + 1], 'H' | 'h' | 'O' | 'o') {
            // the radix letter stays as written (the property speaks of keywords and identifiers; a lower-case
            // `&h` / `&o` is not accepted by this parser at all); with `hex` the digits A-F are re-cased
            out.push(ch);
            out.push(cs[i + 1]);
            i += 2;
            while i < cs.len() && cs[i].is_ascii_alphanumeric() {
                if hex {
                    put(&mut out, cs[i]);
                } else {
                    out.push(cs[i]);
                }
                i += 1;
            }
        } else if ch.is_ascii_alphabetic() {
            let mut j = i;
            while j < cs.len() && (cs[j].is_ascii_alphanumeric() || cs[j] == '.') {
                j += 1;
            }
            let word: String = cs[i..j].iter().collect::<String>().to_ascii_uppercase();
            let suffixed = j < cs.len() && matches!(cs[j], '$' | '%' | '!' | '#' | '&');
            for k in i..j {
                put(&mut out, cs[k]);
            }
            i = j;
            if !suffixed && (word == "REM" || word == "DATA") {
                while i < cs.len() && !eol(cs[i]) {
                    out.push(cs[i]);
                    i += 1;
                }
            }
        } else {
            out.push(ch);
            i += 1;
        }
    }
    out
}

/// A site map with one site per source line (case changes never move a token).
fn rendered_by_rows(text: &str) -> Rendered {
    let mut m = std::collections::BTreeMap::new();
    let norm = text.replace("\r\n", "\n").replace('\r', "\n");
    for (i, l) in norm.split('\n').enumerate() {
        m.insert(format!("row/{}", i + 1), crate::genr::print::Site { row: i as u32 + 1, col_start: 1, col_end: l.chars().count() as u32 + 1, proc_: None, after_colon: false });
    }
    Rendered { text: text.to_string(), sites: m, rows: 0, changed_sites: 0 }
}

fn names_as_strings(text: &str) -> bool {
    let up = text.to_uppercase();
    up.contains("FIELD") || up.contains("LSET")
}

const FAMILY_STDIN: &[u8] = b"alpha\r\n12\r\nbeta, gamma\r\n7\r\n";

/// Verdict classes of one text (for the histogram only; never an oracle).
fn verdict_of(text: &str) -> &'static str {
    match impl_run::front(text) {
        Ok(_) => "accepted",
        Err(FrontErr::Parse { .. }) => "rejected-by-parser",
        Err(FrontErr::Lint { .. }) => "rejected-by-checker",
        Err(FrontErr::Panic { .. }) => "panic",
    }
}

/// One pair (text, the same text with letters re-cased).
fn letters_case(sh: &mut Shard, family: &str, class: &str, a_text: &str, b_text: &str, flip_name: &str, hex: bool) -> Result<(), Violation> {
    sh.eval();
    if a_text == b_text {
        sh.discard("the case change left the text unchanged");
        return Ok(());
    }
    sh.journal(b_text);
    // signature: the family and the token-class group (one root cause shows under one group, not one per template)
    let what = if family == "deftype" { "deftype".to_string() } else { format!("{}:{}", family, class.split('-').next().unwrap_or(class)) };
    let inputs = json!({"kind": "letters", "text_a": a_text, "text_b": b_text, "what": what, "class": class, "flip": flip_name, "hex_letters_changed": hex});
    let a = rendered_by_rows(a_text);
    let b = rendered_by_rows(b_text);
    let ran = run_pair_io(&a, &b, &what, inputs, !names_as_strings(a_text), Some(FAMILY_STDIN))?;
    let verdict = if ran { "ran-both" } else { verdict_of(a_text) };
    sh.class(&format!("{}:{}:{}", family, class, verdict));
    sh.class(&format!("{}-verdict:{}", family, verdict));
    sh.class(&format!("{}-flip:{}", family, flip_name));
    sh.nontrivial(hash64(&(a_text, b_text)));
    Ok(())
}

// ---------------------------------------------------------------- family 1: every letter-carrying token class, both verdicts

/// (token class, program). Written in one spelling; every occurrence of a name is re-cased independently by the
/// flips, so that a definition and its uses differ in case. Rejected programs are members on purpose: the property
/// demands the same rejection for every spelling.
fn token_class_family() -> Vec<(&'static str, &'static str)> {
    vec![
        ("keywords-blocks", "FOR I = 1 TO 5 STEP 2\n  IF I = 1 THEN\n    PRINT \"One\"\n  ELSEIF I = 3 THEN\n    PRINT \"Three\"\n  ELSE\n    PRINT \"Other\"\n  END IF\nNEXT I\nJ = 0\nWHILE J < 2\n  J = J + 1\nWEND\nDO\n  J = J + 1\nLOOP UNTIL J > 4\nDO WHILE J < 7\n  J = J + 1\nLOOP\nDO UNTIL J > 8\n  J = J + 1\nLOOP\nDO\n  J = J + 1\nLOOP WHILE J < 3\nSELECT CASE J\nCASE 1 TO 3\n  PRINT \"low\"\nCASE IS > 8\n  PRINT \"high\"\nCASE 4, 5\n  PRINT \"four-five\"\nCASE ELSE\n  PRINT \"mid\"\nEND SELECT\nIF J > 1 THEN PRINT \"a\" ELSE PRINT \"b\"\nEND\n"),
        ("keywords-operators", "A = 7\nB = 3\nPRINT A MOD B; A AND B; A OR B; NOT A\nIF A > B AND NOT (A = B) OR B = 0 THEN PRINT \"yes\"\nPRINT NOT(A) + 1\nC = A MOD B MOD 2\nPRINT C\n"),
        ("builtin-functions", "S$ = \"Hello, World\"\nPRINT LEN(S$); UCASE$(S$); LCASE$(S$)\nPRINT MID$(S$, 2, 3); LEFT$(S$, 2); RIGHT$(S$, 2)\nPRINT INSTR(S$, \"World\"); INSTR(3, S$, \"l\")\nPRINT CHR$(65); STR$(5); VAL(\"12\")\nPRINT LTRIM$(\"  x\"); RTRIM$(\"x  \"); SPACE$(2); STRING$(3, \"x\"); STRING$(2, 65)\nD$ = MKD$(1.5)\nPRINT CVD(D$)\nPRINT ERR\n"),
        ("builtin-rejected", "S$ = \"Hello\"\nPRINT LEN(S$); UCASE$(S$, 1)\n"),
        ("builtin-rejected-type", "PRINT LCASE$(5)\n"),
        ("print-forms", "X = 3.14159\nPRINT USING \"##.##\"; X\nPRINT USING \"###\"; 12\nLPRINT \"to printer\"; X\nLPRINT USING \"#.#\"; X\nPRINT \"a\", \"b\"; \"c\"\nPRINT\n"),
        ("labels", "GOSUB Work\nGOTO Finish\nWork:\nPRINT \"working\"\nRETURN\nFinish:\nPRINT \"done\"\n"),
        ("labels-jumps", "N = 0\nAgain:\nN = N + 1\nIF N < 3 THEN GOTO Again\nIF N = 3 THEN GOTO Again2\nPRINT \"not here\"\nAgain2:\nPRINT N\nGOSUB Inner\nEND\nInner:\nPRINT \"inner\"\nRETURN\n"),
        ("labels-error-handler", "ON ERROR GOTO Handler\nX% = 32767\nX% = X% + 1\nPRINT \"after\"\nON ERROR GOTO 0\nEND\nHandler:\nPRINT \"error\"; ERR\nRESUME NEXT\n"),
        ("labels-resume-label", "ON ERROR GOTO Trap\nOPEN \"c09-none.txt\" FOR INPUT AS #1\nPRINT \"not reached\"\nOut1:\nPRINT \"out\"\nEND\nTrap:\nPRINT ERR\nRESUME Out1\n"),
        ("labels-duplicate", "Again:\nPRINT 1\nAgain:\nPRINT 2\n"),
        ("labels-undefined", "Start:\nPRINT 1\nGOTO Strat\n"),
        ("labels-undefined-gosub", "GOSUB Missing\nEND\nPresent:\nRETURN\n"),
        ("names-suffixes", "Total = 1\nTotal! = Total! + 1\nPRINT Total; Total!\nName$ = \"s\"\nPRINT Name$; LEN(Name$)\nCount% = 3\nBig& = 100000\nRatio# = 1 / 3\nPRINT Count%; Big&; Ratio#\nTotal% = 9\nPRINT Total; Total%\n"),
        ("names-dim-as", "DIM Total AS LONG, Title AS STRING, Ratio AS DOUBLE\nDIM Flag AS INTEGER\nDIM Small AS SINGLE\nDIM Fixed AS STRING * 4\nTotal = 70000\nTitle = \"t\"\nRatio = 1 / 3\nFlag = 7 / 2\nSmall = 1 / 3\nFixed = \"abcdefg\"\nPRINT Total; Title; Ratio; Flag; Small; Fixed\n"),
        ("names-duplicate-dim", "DIM Counter AS INTEGER\nDIM Counter AS INTEGER\nPRINT Counter\n"),
        ("names-duplicate-dim-types", "DIM Counter AS INTEGER\nDIM Counter AS STRING\n"),
        ("names-dim-then-suffix", "DIM Counter AS INTEGER\nCounter$ = \"x\"\n"),
        ("names-type-mismatch", "Title$ = \"a\"\nTitle$ = 5\n"),
        ("constants", "CONST Limit = 10\nCONST Greeting$ = \"hi\"\nCONST Twice = Limit * 2\nPRINT Limit + 1; Greeting$; Twice\nFOR I = 1 TO Limit\nNEXT\nPRINT I\n"),
        ("constants-assigned", "CONST Limit = 10\nLimit = 11\n"),
        ("constants-duplicate", "CONST Limit = 10\nCONST Limit = 11\n"),
        ("constants-then-dim", "CONST Limit = 10\nDIM Limit AS INTEGER\n"),
        ("arrays", "DIM Grid(1 TO 3, 2) AS INTEGER\nDIM Names$(4)\nGrid(1, 0) = 5\nNames$(2) = \"two\"\nPRINT Grid(1, 0); LBOUND(Grid); UBOUND(Grid, 2); Names$(2)\nREDIM Flex(5) AS LONG\nFlex(5) = 9\nREDIM Flex(7) AS LONG\nPRINT Flex(5); UBOUND(Flex)\nFOR I = LBOUND(Names$) TO UBOUND(Names$)\n  Names$(I) = STR$(I)\nNEXT I\nPRINT Names$(4)\n"),
        ("arrays-duplicate", "DIM Grid(3) AS INTEGER\nDIM Grid(4) AS INTEGER\n"),
        ("arrays-wrong-dimensions", "DIM Grid(3) AS INTEGER\nGrid(1, 2) = 4\n"),
        ("arrays-out-of-range", "DIM Grid(3) AS INTEGER\nIdx = 4\nGrid(Idx) = 4\nPRINT \"no\"\n"),
        ("types", "TYPE Card\n  Suit AS STRING * 5\n  Value AS INTEGER\n  Weight AS DOUBLE\nEND TYPE\nTYPE Hand\n  First AS Card\n  Size AS LONG\nEND TYPE\nDIM C AS Card\nDIM H AS Hand\nDIM Deck(2) AS Card\nC.Value = 3\nC.Suit = \"heart\"\nH.First = C\nH.First.Weight = 1 / 3\nH.Size = 70000\nDeck(1) = C\nDeck(1).Value = Deck(1).Value + 1\nPRINT C.Value; C.Suit; H.First.Value; H.First.Weight; H.Size; Deck(1).Value\n"),
        ("types-duplicate-member", "TYPE Card\n  Value AS INTEGER\n  Value AS LONG\nEND TYPE\n"),
        ("types-duplicate-type", "TYPE Card\n  Value AS INTEGER\nEND TYPE\nTYPE Card\n  Other AS INTEGER\nEND TYPE\n"),
        ("types-undefined-type", "TYPE Card\n  Value AS INTEGER\nEND TYPE\nDIM C AS Kard\n"),
        ("types-undefined-member", "TYPE Card\n  Value AS INTEGER\nEND TYPE\nDIM C AS Card\nC.Valve = 1\n"),
        ("types-member-type-mismatch", "TYPE Card\n  Value AS INTEGER\nEND TYPE\nDIM C AS Card\nC.Value = \"x\"\n"),
        ("procedures", "DECLARE SUB Show (N AS INTEGER, Msg$)\nDECLARE FUNCTION Twice% (N%)\nDECLARE FUNCTION Join$ (A$, B AS STRING)\nShow 2, \"hi\"\nCALL Show(3, \"yo\")\nPRINT Twice%(4); Twice(5)\nPRINT Join$(\"a\", \"b\")\nSUB Show (N AS INTEGER, Msg$)\n  PRINT N; Msg$\n  IF N > 2 THEN EXIT SUB\n  PRINT \"small\"\nEND SUB\nFUNCTION Twice% (N%)\n  Twice% = N% * 2\n  IF N% > 4 THEN EXIT FUNCTION\nEND FUNCTION\nFUNCTION Join$ (A$, B AS STRING)\n  Join$ = A$ + B\nEND FUNCTION\n"),
        ("procedures-shared-static", "DIM SHARED Total AS INTEGER\nDIM SHARED Log$(3)\nTotal = 1\nBump\nBump\nPRINT Total; Log$(1)\nKeep\nKeep\nSUB Bump\n  Total = Total + 1\n  Log$(1) = Log$(1) + \"b\"\nEND SUB\nSUB Keep STATIC\n  Calls = Calls + 1\n  PRINT Calls\nEND SUB\n"),
        ("procedures-byref", "Value% = 1\nRaise Value%\nRaise (Value%)\nPRINT Value%\nDIM Arr(2) AS INTEGER\nFill Arr()\nPRINT Arr(2)\nSUB Raise (V%)\n  V% = V% + 10\nEND SUB\nSUB Fill (A() AS INTEGER)\n  A(2) = 5\nEND SUB\n"),
        ("procedures-duplicate", "SUB Show\n  PRINT 1\nEND SUB\nSUB Show\n  PRINT 2\nEND SUB\n"),
        ("procedures-duplicate-function-sub", "SUB Show\n  PRINT 1\nEND SUB\nFUNCTION Show\n  Show = 2\nEND FUNCTION\n"),
        ("procedures-undefined", "Show 1\nSUB Shaw (N)\nEND SUB\n"),
        ("procedures-argument-count", "Show 1, 2\nSUB Show (N)\nEND SUB\n"),
        ("procedures-declare-mismatch", "DECLARE SUB Show (N AS INTEGER)\nShow 1\nSUB Show (N AS LONG)\nEND SUB\n"),
        ("procedures-name-clash", "DIM Show AS INTEGER\nSUB Show\nEND SUB\n"),
        ("procedures-duplicate-parameter", "SUB Show (N, N)\nEND SUB\n"),
        ("for-next-counter", "FOR Index = 1 TO 2\n  FOR Inner% = 1 TO 2\n    PRINT Index; Inner%\n  NEXT Inner%\nNEXT Index\n"),
        ("for-next-mismatch", "FOR Index = 1 TO 2\n  PRINT Index\nNEXT Indez\n"),
        ("files-sequential", "OPEN \"c09-a.txt\" FOR OUTPUT AS #1\nPRINT #1, \"first\"; 5\nPRINT #1, \"x, y\"\nCLOSE #1\nOPEN \"c09-a.txt\" FOR APPEND AS #2\nPRINT #2, \"more\"\nCLOSE\nOPEN \"c09-a.txt\" FOR INPUT AS #1\nLINE INPUT #1, L$\nINPUT #1, P$, Q$\nPRINT L$; P$; Q$; EOF(1)\nWHILE NOT EOF(1)\n  LINE INPUT #1, L$\n  PRINT L$\nWEND\nCLOSE #1\nNAME \"c09-a.txt\" AS \"c09-b.txt\"\nKILL \"c09-b.txt\"\n"),
        ("files-access-modes", "OPEN \"c09-c.txt\" FOR OUTPUT AS #1\nPRINT #1, \"w\"\nCLOSE #1\nOPEN \"c09-c.txt\" FOR INPUT ACCESS READ AS #1\nLINE INPUT #1, L$\nCLOSE #1\nPRINT L$\n"),
        ("files-random", "OPEN \"c09-r.dat\" FOR RANDOM AS #1 LEN = 12\nFIELD #1, 8 AS Rec$, 4 AS Tail$\nLSET Rec$ = \"ab\"\nLSET Tail$ = \"zz\"\nPUT #1, 1\nLSET Rec$ = \"cd\"\nPUT #1, 2\nGET #1, 1\nPRINT Rec$; Tail$\nCLOSE #1\n"),
        ("files-wrong-mode", "OPEN \"c09-d.txt\" FOR OUTPUT AS #1\nLINE INPUT #1, L$\nPRINT \"no\"\n"),
        ("files-bad-mode-word", "OPEN \"c09-d.txt\" FOR OUTPUTS AS #1\n"),
        ("console-input", "INPUT First$\nINPUT N\nLINE INPUT Whole$\nINPUT Last%\nPRINT First$; N; Whole$; Last%\n"),
        ("data-read", "READ A, B$\nREAD C\nDATA 1, \"Two\"\nPRINT A; B$; C\nREAD D, E$\nPRINT D; E$\nDATA 5\nDATA 6, \"Seven\"\n"),
        ("screen-and-environment", "CLS\nLOCATE 2, 3\nCOLOR 7, 0\nVIEW PRINT 1 TO 10\nPRINT \"x\"\nVIEW PRINT\nENVIRON \"C09VAR=abc\"\nPRINT ENVIRON$(\"C09VAR\")\nDEF SEG = 100\nDEF SEG\n"),
        ("hex-octal-literals", "PRINT &HFF; &H1A; &O17; &HABC; &HFFFF; &H7FFF\nX& = &HABCDE\nPRINT X&\n"),
        ("comments", "' Leading Remark with Keywords PRINT GOTO\nPRINT 1 ' Trailing Comment DIM X\nPRINT \"REM inside string ' stays\"\nRemark = 2 : ' After Colon\nPRINT Remark\n"),
        ("colon-statements", "A = 1: B = 2: PRINT A; B: IF A < B THEN PRINT \"lt\": PRINT \"also\"\nFOR I = 1 TO 2: PRINT I: NEXT I\n"),
        ("end-system", "PRINT 1\nSYSTEM\nPRINT 2\n"),
        ("syntax-errors", "PRINT 1\nIF X THEN\nPRINT 2\nEND IFF\n"),
        ("syntax-errors-keyword-as-name", "Dim = 1\n"),
        ("syntax-errors-unclosed-block", "WHILE X < 1\nX = X + 1\n"),
        ("syntax-errors-else-without-if", "PRINT 1\nELSE\n"),
        ("deftype-and-names", "DEFINT A-C, X\nDEFSTR S-U\nDEFDBL D\nApple = 7 / 2\nCount = 7 / 2\nXray = 7 / 2\nYak = 7 / 2\nTitle = \"t\"\nDelta = 1 / 3\nPRINT Apple; Count; Xray; Yak; Title; Delta\nPRINT Apple%; Yak!; Title$; Delta#; Area(3)\nShow 1\nSUB Show (Arg)\n  Blob = 5 / 2\n  PRINT Arg; Blob\nEND SUB\nFUNCTION Area (Edge)\n  Area = Edge * Edge / 2\nEND FUNCTION\n"),
    ]
}

fn family_flips(seed: u64, i: usize, random_reps: u64) -> Vec<Flip> {
    let mut v = vec![Flip::Lower, Flip::Upper, Flip::Alternate(false), Flip::Alternate(true)];
    for k in 0..random_reps {
        v.push(Flip::Random(hash64(&(seed, "family", i, k))));
    }
    v
}

// ---------------------------------------------------------------- family 2: DEFtype statements, enumerated

const DEF_KEYWORDS: [(&str, Ty); 5] = [("DEFINT", Ty::Int), ("DEFLNG", Ty::Long), ("DEFSNG", Ty::Single), ("DEFDBL", Ty::Double), ("DEFSTR", Ty::Str)];
/// (first, last) with first < last alphabetically; a letter strictly between them exists except for the adjacent pair
const DEF_LETTER_PAIRS: [(char, char); 5] = [('A', 'Z'), ('C', 'M'), ('I', 'N'), ('X', 'Y'), ('B', 'T')];
const DEF_SHAPES: [&str; 9] = ["single", "ascending", "reversed", "same-letter", "two-ranges", "letter-and-range", "range-and-reversed", "two-statements", "range-then-override"];

fn with_case(c: char, upper: bool) -> char {
    if upper { c.to_ascii_uppercase() } else { c.to_ascii_lowercase() }
}

/// The DEFtype program of one point of the enumeration. `cl`/`cr`: is the first/second letter of the main range
/// written in upper case. `other`: bit mask for the case of the remaining letters and of the probe names.
fn deftype_program(kw: &str, ty: Ty, shape: &str, l: char, r: char, cl: bool, cr: bool, other: u64) -> String {
    let bit = |k: u32| (other >> k) & 1 == 1;
    // a second, disjoint range for the list shapes
    let (p, q) = if l == 'A' { ('N', 'P') } else { ('A', 'B') };
    let (kw_other, ty_other) = if ty == Ty::Str { ("DEFINT", Ty::Int) } else { ("DEFSTR", Ty::Str) };
    // statements as data: (keyword, type, ranges as written (first, last, first upper?, last upper?))
    let main = (l, r, cl, cr);
    let rev = (r, l, cr, cl);
    let second = (p, q, bit(0), bit(1));
    let stmts: Vec<(&str, Ty, Vec<(char, char, bool, bool)>)> = match shape {
        "single" => vec![(kw, ty, vec![(l, l, cl, cl)])],
        "ascending" => vec![(kw, ty, vec![main])],
        "reversed" => vec![(kw, ty, vec![rev])],
        "same-letter" => vec![(kw, ty, vec![(l, l, cl, cr)])],
        "two-ranges" => vec![(kw, ty, vec![second, main])],
        "letter-and-range" => vec![(kw, ty, vec![(p, p, bit(0), bit(0)), main])],
        "range-and-reversed" => vec![(kw, ty, vec![second, rev])],
        "two-statements" => vec![(kw, ty, vec![main]), (kw_other, ty_other, vec![second])],
        _ => vec![(kw, ty, vec![main]), (kw_other, ty_other, vec![(r, r, bit(2), bit(2))])],
    };
    let mut lines: Vec<String> = vec![];
    for (k, _, ranges) in &stmts {
        let mut items = vec![];
        for (a, b, ca, cb) in ranges {
            let single = a == b && shape != "same-letter";
            items.push(if single { format!("{}", with_case(*a, *ca)) } else { format!("{}-{}", with_case(*a, *ca), with_case(*b, *cb)) });
        }
        lines.push(format!("{} {}", k, items.join(", ")));
    }
    // Which kind of probe suits a letter (string or numeric) follows from the statement text read without regard
    // to case; it only keeps the accepted programs accepted and is the same for every spelling of one program.
    let is_string = |c: char| -> bool {
        let mut t = Ty::Single;
        for (_, ty, ranges) in &stmts {
            for (a, b, _, _) in ranges {
                if *a <= c && c <= *b {
                    t = *ty;
                }
            }
        }
        t == Ty::Str
    };
    // probes: a bare name for both ends of the range, a letter inside, one outside, one of the second range
    let mid = ((l as u8 + r as u8) / 2) as char;
    let outside = if r == 'Z' { 'Z' } else { (r as u8 + 1) as char };
    let mut probes = vec![l, r, mid, p];
    if outside != r {
        probes.push(outside);
    }
    let mut names = vec![];
    for (k, c) in probes.iter().enumerate() {
        // definition and use of the probe are spelled independently
        let def = format!("{}{}v", with_case(*c, bit(3 + k as u32)), with_case('q', bit(8 + k as u32)));
        let use_ = format!("{}{}V", with_case(*c, bit(13 + k as u32)), with_case('q', bit(18 + k as u32)));
        if is_string(*c) {
            lines.push(format!("{} = \"ab\" + \"c\"", def));
            lines.push(format!("PRINT {}; LEN({})", use_, def));
        } else {
            lines.push(format!("{} = 10 / 4", def));
            lines.push(format!("PRINT {}; {} / 3", use_, def));
            names.push(use_);
        }
    }
    // INTEGER against LONG: the first numeric probe gets a value beyond 16 bits
    if let Some(n) = names.first() {
        lines.push(format!("{} = 40000", n));
        lines.push(format!("PRINT {}", n));
    }
    let mut s = lines.join("\n");
    s.push('\n');
    s
}

fn deftype_family(sh: &mut Shard) -> bool {
    let mut idx: u64 = 0;
    for (kw, ty) in DEF_KEYWORDS.iter() {
        for shape in DEF_SHAPES.iter() {
            for (l, r) in DEF_LETTER_PAIRS.iter() {
                for combo in 0..4u32 {
                    idx += 1;
                    if !sh.mine(idx) {
                        continue;
                    }
                    let (cl, cr) = (combo & 1 == 1, combo & 2 == 2);
                    let other = hash64(&(sh.seed, "deftype", idx));
                    let upper = deftype_program(kw, *ty, shape, *l, *r, true, true, u64::MAX);
                    let variant = deftype_program(kw, *ty, shape, *l, *r, cl, cr, other);
                    // keyword spelling: as written (upper), all lower, or per letter
                    let variant = match other >> 60 & 3 {
                        0 => variant,
                        1 => {
                            // only the statement keywords, the letters keep the enumerated case: lower-case the first word of each line
                            variant.lines().map(|ln| match ln.split_once(' ') { Some((h, t)) if h.starts_with("DEF") || h == "PRINT" => format!("{} {}", h.to_ascii_lowercase(), t), _ => ln.to_string() }).collect::<Vec<_>>().join("\n") + "\n"
                        }
                        _ => {
                            let kw_flipped = flip_letters(kw, Flip::Random(other), false);
                            variant.replacen(kw, &kw_flipped, 1)
                        }
                    };
                    let case_name = match (cl, cr) {
                        (true, true) => "upper-upper",
                        (false, false) => "lower-lower",
                        (false, true) => "lower-upper",
                        (true, false) => "upper-lower",
                    };
                    let r = letters_case(sh, "deftype", &format!("{}:{}", shape, case_name), &upper, &variant, case_name, false);
                    if !sh.report(r) {
                        return false;
                    }
                }
            }
        }
    }
    sh.exhaustive("DEFtype statements: 5 keywords x 9 statement shapes (single letter, ascending, reversed, same letter, lists, two statements) x 5 letter pairs x the 4 case combinations of the two range letters, each against its all-upper-case spelling");
    true
}

// ---------------------------------------------------------------- generated programs: more DEFtype statements

/// Adds 1..=3 DEFtype statements to a generated program (single letters, ascending and — one in six — reversed
/// ranges, letters written in either case). The generator's own typing knowledge becomes stale, which is
/// irrelevant here: the oracle only compares two spellings of the same program.
fn add_deftypes(t: &mut Tape, prog: &mut Program) -> Vec<&'static str> {
    let mut classes = vec![];
    let n = 1 + t.choose(3);
    for _ in 0..n {
        let ty = *t.pick(&[Ty::Int, Ty::Long, Ty::Single, Ty::Double, Ty::Str]);
        // letters the generated names start with (I L S D T K) are over-represented so that the statement matters
        let pool = ['Q', 'I', 'L', 'S', 'D', 'T', 'K', 'A', 'Z', 'M', 'X', 'B'];
        let x = *t.pick(&pool);
        let y = *t.pick(&pool);
        let shape = t.choose(6);
        let (lo, hi) = if x <= y { (x, y) } else { (y, x) };
        let (mut a, mut b, class) = match shape {
            0 | 1 => (x, x, "deftype-added:single-letter"),
            5 if lo != hi => (hi, lo, "deftype-added:reversed-range"),
            _ if lo != hi => (lo, hi, "deftype-added:ascending-range"),
            _ => (x, x, "deftype-added:single-letter"),
        };
        let single = a == b;
        if t.chance(1, 2) {
            a = a.to_ascii_lowercase();
        }
        if t.chance(1, 2) {
            b = b.to_ascii_lowercase();
        }
        if single {
            b = a; // the printer writes one letter when both are equal
        }
        prog.deftypes.push((ty, a, b));
        classes.push(class);
    }
    classes
}

/// Does the text contain a DEFtype range whose two letters differ in case? Returns (lower-upper, upper-lower) counts.
fn mixed_case_ranges(text: &str) -> (u32, u32) {
    let (mut lu, mut ul) = (0, 0);
    let norm = text.replace('\r', "\n");
    for line in norm.split('\n') {
        let (code, _) = split_comment(line);
        let up = code.trim_start().to_ascii_uppercase();
        if !(up.starts_with("DEFINT") || up.starts_with("DEFLNG") || up.starts_with("DEFSNG") || up.starts_with("DEFDBL") || up.starts_with("DEFSTR")) {
            continue;
        }
        let cs: Vec<char> = code.trim_start().chars().skip(6).filter(|c| !c.is_whitespace()).collect();
        for w in cs.windows(3) {
            if w[1] == '-' && w[0].is_ascii_alphabetic() && w[2].is_ascii_alphabetic() {
                if w[0].is_ascii_lowercase() && w[2].is_ascii_uppercase() {
                    lu += 1;
                } else if w[0].is_ascii_uppercase() && w[2].is_ascii_lowercase() {
                    ul += 1;
                }
            }
        }
    }
    (lu, ul)
}

impl Prop for C09 {
    fn id(&self) -> &'static str {
        "C09"
    }
    fn rule(&self) -> &'static str {
        "Generated programs (core, calls, control-flow, arrays/records; one third with an injected static fault so that rejected programs are covered too) are rendered twice by the IR printer under two layouts drawn independently (keyword/identifier case per token, blanks/tabs where a blank is legal, optional blanks after , ; and inside parentheses, blank lines, comment lines, trailing comments, newline vs colon between consecutive simple statements, LF/CRLF/CR, with/without final line end), and the repository's own program texts are transformed by a string/comment-aware text transformer (case outside strings/comments/DATA, blank lines, trailing comments, line-ending convention). Required: (1) equal parse trees after erasing positions, dropping comment statements and folding identifier case; (2) same parser/checker verdict (error class, and the error lands in the same statement via the two site maps); (3) same stdout/LPT1, same error code, error position in the same statement. Non-trivial = at least one site changed and >= 3 lines; distinct by the pair of texts. Letter case per token class: (a) one generated case in four gets 1-3 additional DEFtype statements (single letters, ascending and reversed ranges, letters in either case) and one in three has layout b re-cased once more on the text, every letter independently; (b) a family of ~60 small programs, accepted and rejected ones, one per letter-carrying token class (block and operator keywords, built-in names, PRINT forms, labels and jumps, bare/suffixed names, DIM ... AS type names, constants, arrays, TYPE and member names, procedure names/parameters/DECLARE, FOR/NEXT counters, file-mode words, console input, DATA/READ, screen statements, digits of &H literals, DEFtype lists; rejections by duplicate/undefined/mismatching names that differ from their definition only by case) is compared with its all-lower, all-upper, alternating and random per-letter spellings; (c) DEFtype statements are enumerated: 5 keywords x 9 statement shapes x 5 letter pairs x the 4 case combinations of the two range letters, each compared with its all-upper-case spelling (probe variables on both ends, inside and outside of the range show the resulting types in the output). For (b) and (c) the error must stay in the same source line."
    }
    fn assumptions(&self) -> Vec<&'static str> {
        vec![
            "a blank between an array name and its opening parenthesis is not treated as 'a place where a blank is allowed' (never generated)",
            "`Name:` at the start of a line is a label: an argument-less call is never followed by a colon join",
            "DATA lines are left untouched by the text transformer",
            "the radix letter of &H / &O literals is not a keyword or identifier letter: left as written (a lower-case &h is a syntax error in this parser); the digits A-F are re-cased in one family member only",
            "FIELD/LSET programs: trees are not compared after a case change (the variable names are string payloads), verdict and behaviour are",
        ]
    }
    fn run(&self, sh: &mut Shard) {
        let cases = sh.share(sh.tier.pick(12_000, 400_000));
        sh.search(1, cases, 80, 400, |sh, tape| one_case(sh, tape));
        // corpus: every candidate text (accepted or not) under two random transformations
        let all = corpus::candidates();
        let reps = sh.tier.pick(2, 12);
        for (i, text) in all.iter().enumerate() {
            if !sh.mine(i as u64) {
                continue;
            }
            for k in 0..reps {
                let tape: Vec<u32> = (0..6).map(|j| (hash64(&(sh.seed, i, k, j)) >> 16) as u32).collect();
                let r = corpus_case(sh, text, &tape);
                if !sh.report(r) {
                    return;
                }
            }
        }
        // every letter-carrying token class, accepted and rejected programs, under fixed and random per-letter re-casings
        let fam = token_class_family();
        let reps = sh.tier.pick(4, 60);
        let mut idx: u64 = 0;
        for (i, (class, text)) in fam.iter().enumerate() {
            for flip in family_flips(sh.seed, i, reps) {
                idx += 1;
                if !sh.mine(idx) {
                    continue;
                }
                let hex = *class == "hex-octal-literals";
                let b = flip_letters(text, flip, hex);
                let r = letters_case(sh, "token-class", class, text, &b, flip.name(), hex);
                if !sh.report(r) {
                    return;
                }
            }
        }
        // DEFtype statements, enumerated
        if !deftype_family(sh) {
            return;
        }
    }
    fn replay(&self, sh: &mut Shard, inputs: &Value) -> Result<(), Violation> {
        let a = inputs["text_a"].as_str().unwrap_or("");
        let b = inputs["text_b"].as_str().unwrap_or("");
        if inputs["kind"] == "corpus" {
            // re-apply is not possible without the tape: compare the two stored texts with an identity row map by re-running the generic pair check
            let ra = rendered_from(a, &Value::Null);
            let rb = rendered_from(b, &Value::Null);
            let _ = sh;
            let up = a.to_uppercase();
            let names_as_strings = up.contains("FIELD") || up.contains("LSET");
            return run_pair_opt(&ra, &rb, "corpus", inputs.clone(), !names_as_strings).map(|_| ());
        }
        if inputs["kind"] == "letters" {
            let ra = rendered_by_rows(a);
            let rb = rendered_by_rows(b);
            return run_pair_io(&ra, &rb, inputs["what"].as_str().unwrap_or("replay"), inputs.clone(), !names_as_strings(a), Some(FAMILY_STDIN)).map(|_| ());
        }
        let ra = rendered_from(a, &inputs["sites_a"]);
        let rb = rendered_from(b, &inputs["sites_b"]);
        run_pair(&ra, &rb, inputs["what"].as_str().unwrap_or("replay"), inputs.clone()).map(|_| ())
    }
}

//! C14 — a CONST has the value and type its expression would have at run time.
//! Differential + metamorphic, implementation against itself.

use serde_json::{Value, json};

use crate::engine::{Shard, Tape, Violation, hash64};
use crate::impl_run::{self, End, FrontErr, RunOpts};
use crate::props::Prop;
use crate::props::common::norm_numbers;

pub struct C14;

const LITS: [&str; 26] = [
    "0", "1", "2", "3", "-1", "7", "10", "255", "256", "32766", "32767", "32768", "65535", "65536", "100000", "2147483647", "2147483648", "0.5", "1.5", "2.25", "0.25", "3.0#", "1.5#", "2147483647.0#", "40000", "-32768",
];
const SLITS: [&str; 5] = ["\"a\"", "\"\"", "\"Hello\"", "\"b c\"", "\"A\""];

struct G<'t> {
    t: Tape<'t>,
    /// earlier constants: (reference text, is_string)
    consts: Vec<(String, bool)>,
    ops: usize,
}

impl<'t> G<'t> {
    fn num(&mut self, d: usize) -> String {
        if d == 0 || self.t.chance(2, 5) {
            let nc: Vec<String> = self.consts.iter().filter(|c| !c.1).map(|c| c.0.clone()).collect();
            if !nc.is_empty() && self.t.chance(1, 3) {
                return nc[self.t.choose(nc.len())].clone();
            }
            return self.t.pick(&LITS).to_string();
        }
        self.ops += 1;
        match self.t.choose(14) {
            0 | 1 => format!("({} + {})", self.num(d - 1), self.num(d - 1)),
            2 | 3 => format!("({} - {})", self.num(d - 1), self.num(d - 1)),
            4 | 5 => format!("({} * {})", self.num(d - 1), self.num(d - 1)),
            6 => format!("({} / {})", self.num(d - 1), self.num(d - 1)),
            7 => format!("({} MOD {})", self.num(d - 1), self.num(d - 1)),
            8 => format!("({} {} {})", self.num(d - 1), self.t.pick(&["=", "<>", "<", "<=", ">", ">="]), self.num(d - 1)),
            9 => format!("({} AND {})", self.num(d - 1), self.num(d - 1)),
            10 => format!("({} OR {})", self.num(d - 1), self.num(d - 1)),
            11 => format!("(NOT {})", self.num(d - 1)),
            12 => format!("(-{})", self.num(d - 1)),
            _ => format!("({} {} {})", self.str(d - 1), self.t.pick(&["=", "<", ">"]), self.str(d - 1)),
        }
    }
    fn str(&mut self, d: usize) -> String {
        if d == 0 || self.t.chance(1, 2) {
            let sc: Vec<String> = self.consts.iter().filter(|c| c.1).map(|c| c.0.clone()).collect();
            if !sc.is_empty() && self.t.chance(1, 3) {
                return sc[self.t.choose(sc.len())].clone();
            }
            return self.t.pick(&SLITS).to_string();
        }
        self.ops += 1;
        format!("({} + {})", self.str(d - 1), self.str(d - 1))
    }
}

#[derive(Debug, Clone, PartialEq)]
enum Obs {
    /// rejected before running: error class (e.g. "lint:Overflow")
    Rejected(String),
    /// ran: stdout + error code if any
    Ran { stdout: String, code: Option<i32>, ok: bool },
    Other(String),
}

fn observe(src: &str) -> Obs {
    match impl_run::run_src(src, &RunOpts::budget(200_000)) {
        Err(FrontErr::Panic { stage, info }) => Obs::Other(format!("panic:{}:{}", stage, info.sig())),
        Err(e) => Obs::Rejected(e.class()),
        Ok(o) => match &o.end {
            End::Ok => Obs::Ran { stdout: norm_numbers(&o.stdout_str()), code: None, ok: true },
            End::Err { code, .. } => Obs::Ran { stdout: norm_numbers(&o.stdout_str()), code: *code, ok: false },
            End::Panic(p) => Obs::Other(format!("panic:run:{}", p.sig())),
            End::Budget => Obs::Other("budget".into()),
        },
    }
}

fn obs_json(o: &Obs) -> Value {
    match o {
        Obs::Rejected(c) => json!({"rejected": c}),
        Obs::Ran { stdout, code, ok } => json!({"stdout": stdout, "error_code": code, "ok": ok}),
        Obs::Other(s) => json!({"other": s}),
    }
}

/// The relation between `CONST c = e : PRINT c` (p1) and `PRINT e` (p2).
fn related(p1: &Obs, p2: &Obs) -> Result<(), &'static str> {
    match (p1, p2) {
        (Obs::Rejected(c), Obs::Ran { code: Some(6), .. }) if c == "lint:Overflow" => Ok(()),
        (Obs::Rejected(c), Obs::Ran { code: Some(11), .. }) if c == "lint:DivisionByZero" => Ok(()),
        // the expression fails the same way at run time (whether it should is another property's business)
        (Obs::Rejected(c), Obs::Ran { code: Some(13), .. }) if c == "lint:TypeMismatch" => Ok(()),
        (Obs::Rejected(c), _) if c == "lint:Overflow" || c == "lint:DivisionByZero" => Err("constant rejected for overflow / division by zero although evaluating the expression at run time does not raise that error"),
        (Obs::Rejected(_), Obs::Rejected(_)) => Ok(()), // the expression itself is not accepted: outside the property
        (Obs::Rejected(_), _) => Err("constant definition rejected although the checker accepts the expression and it evaluates at run time"),
        (Obs::Ran { stdout: a, ok: true, .. }, Obs::Ran { stdout: b, ok: true, .. }) => {
            if a == b { Ok(()) } else { Err("PRINT c prints something else than PRINT e") }
        }
        (Obs::Ran { ok: true, .. }, Obs::Ran { code: Some(c), .. }) if *c == 6 || *c == 11 => Err("constant accepted although evaluating the expression at run time raises overflow / division by zero"),
        (Obs::Ran { .. }, Obs::Rejected(_)) => Err("constant accepted although the checker rejects the bare expression"),
        (a, b) if a == b => Ok(()),
        _ => Err("constant program and expression program behave differently"),
    }
}

struct Case {
    /// definitions of earlier constants (may be empty)
    prelude: String,
    name: String,
    expr: String,
    in_sub: bool,
    is_string: bool,
    /// in the SUB variant: the earlier constants are defined inside the SUB and shadow global constants of the same names
    shadow: bool,
    /// where and how the substitution program uses the constant (None: the four fixed uses of the first version; replay files of that version)
    plan: Option<UsePlan>,
}

impl Case {
    fn wrap(&self, body: &str) -> String {
        if self.in_sub {
            format!("{}Probe\nSUB Probe\n{}END SUB\n", self.prelude_global(), indent(&format!("{}{}", self.prelude_local(), body)))
        } else {
            format!("{}{}", self.prelude, body)
        }
    }
    fn prelude_global(&self) -> String {
        if !self.shadow {
            // in the sub variant the earlier constants stay global, the constant under test is local
            return self.prelude.clone();
        }
        // global constants of the same names with other values: the SUB's own definitions must win
        self.prelude
            .lines()
            .filter_map(|l| l.strip_prefix("CONST ").and_then(|r| r.split_once(" = ")).map(|(n, _)| n.to_string()))
            .map(|n| if n.ends_with('$') { format!("CONST {} = \"zz\"\n", n) } else { format!("CONST {} = 77\n", n) })
            .collect()
    }
    fn prelude_local(&self) -> String {
        if self.shadow { self.prelude.clone() } else { String::new() }
    }
    fn p1(&self) -> String {
        self.wrap(&format!("CONST {} = {}\nPRINT {}\n", self.name, self.expr, self.name))
    }
    fn p2(&self) -> String {
        // a suffixed constant is e converted to the suffix type: the run-time counterpart is a variable of that type
        match self.name.chars().last() {
            Some(q @ ('%' | '&' | '!' | '#')) if !self.is_string => self.wrap(&format!("ZV{} = {}\nPRINT ZV{}\n", q, self.expr, q)),
            _ => self.wrap(&format!("PRINT {}\n", self.expr)),
        }
    }
    /// a program using the constant several times / the same with every use replaced by (e)
    fn p3(&self, substituted: bool) -> String {
        let c = if substituted { format!("({})", self.expr) } else { self.name.clone() };
        let def = if substituted { String::new() } else { format!("CONST {} = {}\n", self.name, self.expr) };
        let body = if self.is_string {
            format!("{}A$ = {} + \"x\"\nPRINT A$; LEN({})\nIF {} = \"a\" THEN PRINT \"is a\" ELSE PRINT \"not a\"\n", def, c, c, c)
        } else {
            format!("{}X# = {} * 2\nPRINT X#; {} + 1\nIF {} > 0 THEN PRINT \"pos\" ELSE PRINT \"nonpos\"\nSELECT CASE 1\nCASE {}\nPRINT \"one\"\nCASE ELSE\nPRINT \"other\"\nEND SELECT\n", def, c, c, c, c)
        };
        self.wrap(&body)
    }
    fn inputs(&self) -> Value {
        let mut v = json!({"prelude": self.prelude, "name": self.name, "expr": self.expr, "in_sub": self.in_sub, "is_string": self.is_string, "shadow": self.shadow});
        if let Some(p) = &self.plan {
            v["plan"] = p.to_json();
        }
        v
    }
    fn from_inputs(v: &Value) -> Case {
        Case {
            prelude: v["prelude"].as_str().unwrap_or("").to_string(),
            name: v["name"].as_str().unwrap_or("C").to_string(),
            expr: v["expr"].as_str().unwrap_or("1").to_string(),
            in_sub: v["in_sub"].as_bool().unwrap_or(false),
            is_string: v["is_string"].as_bool().unwrap_or(false),
            shadow: v["shadow"].as_bool().unwrap_or(false),
            plan: UsePlan::from_json(&v["plan"]),
        }
    }
}

fn indent(s: &str) -> String {
    s.lines().map(|l| format!("  {}\n", l)).collect()
}

fn op_class(expr: &str) -> &'static str {
    if expr.contains(" AND ") || expr.contains(" OR ") || expr.contains("NOT ") {
        "logical"
    } else if expr.contains(" MOD ") {
        "mod"
    } else if expr.contains(" / ") {
        "division"
    } else if expr.contains('<') || expr.contains('>') || expr.contains(" = ") {
        "relational"
    } else {
        "arith"
    }
}

fn check(case: &Case) -> Result<(Obs, Obs, Option<UseReport>), Violation> {
    let p1 = observe(&case.p1());
    let p2 = observe(&case.p2());
    let sig_tail = op_class(&case.expr);
    if let Obs::Other(s) = &p1 {
        if s.starts_with("panic") {
            return Err(Violation::new(format!("c14-{}", s), "constant definition made the implementation panic", case.inputs()).exp_obs(obs_json(&p2), obs_json(&p1)));
        }
    }
    if let Err(why) = related(&p1, &p2) {
        let kind = match (&p1, &p2) {
            (Obs::Rejected(c), _) => format!("rejected-{}", c.replace("lint:", "")),
            (Obs::Ran { ok: true, .. }, Obs::Ran { ok: true, .. }) => "value".to_string(),
            (Obs::Ran { ok: true, .. }, _) => "accepted".to_string(),
            _ => "other".to_string(),
        };
        return Err(Violation::new(format!("c14-p1p2:{}:{}", kind, sig_tail), why, case.inputs()).exp_obs(json!({"PRINT e": obs_json(&p2), "program": case.p2()}), json!({"CONST c = e : PRINT c": obs_json(&p1), "program": case.p1()})));
    }
    // substitution
    let mut uses = None;
    let suffixed = !case.is_string && case.name.ends_with(['%', '&', '!', '#']);
    if matches!(p1, Obs::Ran { ok: true, .. }) && !suffixed {
        if case.plan.is_none() {
            let a = observe(&case.p3(false));
            let b = observe(&case.p3(true));
            if a != b {
                return Err(Violation::new(format!("c14-substitution:{}", sig_tail), "replacing every use of the constant by its defining expression in parentheses changes the program's behaviour", case.inputs()).exp_obs(json!({"with (e)": obs_json(&b), "program": case.p3(true)}), json!({"with c": obs_json(&a), "program": case.p3(false)})));
            }
        }
        // type: exactly the suffix of the constant's type is accepted; converting e to that type loses nothing
        let mut natural = None;
        if !case.is_string && !case.name.ends_with(['%', '&', '!', '#']) {
            let mut accepted = vec![];
            for q in ['%', '&', '!', '#'] {
                let src = case.wrap(&format!("CONST {} = {}\nPRINT {}{}\n", case.name, case.expr, case.name, q));
                if let Obs::Ran { stdout, ok: true, .. } = observe(&src) {
                    accepted.push((q, stdout));
                }
            }
            if accepted.len() != 1 {
                return Err(Violation::new(format!("c14-type-suffixes:{}", sig_tail), "a bare constant must be referable through exactly one type suffix (its own type)", case.inputs()).exp_obs("exactly one of c%, c&, c!, c# accepted", json!(accepted)));
            }
            let (q, out) = &accepted[0];
            natural = Some(*q);
            if let Obs::Ran { stdout, .. } = &p1 {
                if out != stdout {
                    return Err(Violation::new(format!("c14-type-suffix-value:{}", sig_tail), "the constant prints differently through its type suffix", case.inputs()).exp_obs(stdout.clone(), out.clone()));
                }
            }
            // a variable of that type holds the same value: e has a value of c's type
            let v = observe(&case.wrap(&format!("V{} = {}\nPRINT V{}\n", q, case.expr, q)));
            if let (Obs::Ran { stdout: a, ok: true, .. }, Obs::Ran { stdout: b, .. }) = (&v, &p1) {
                if a != b {
                    return Err(Violation::new(format!("c14-type-of-constant:{}:{}", q, sig_tail), format!("the constant has type {} but a variable of that type receives a different value from the same expression", q), case.inputs()).exp_obs(json!({"V = e : PRINT V": a}), json!({"PRINT c": b})));
                }
            }
        }
        // the constant used in several expression positions, at the planned scope, under the planned spelling
        if let Some(plan) = &case.plan {
            uses = Some(check_uses(case, plan, &p1, natural)?);
        }
    }
    Ok((p1, p2, uses))
}

fn one_case(sh: &mut Shard, tape: &[u32]) -> Result<(), Violation> {
    let mut g = G { t: Tape::new(tape), consts: vec![], ops: 0 };
    let mut prelude = String::new();
    let nprev = g.t.choose(3);
    for k in 0..nprev {
        let is_s = g.t.chance(1, 4);
        let (name, e) = if is_s { (format!("PS{}$", k + 1), g.str(1)) } else { (format!("PC{}{}{}", k + 1, g.t.pick(&["", "", ".x"]), g.t.pick(&["", "", "%", "&", "!", "#"])), g.num(1)) };
        // earlier constants must be valid themselves: only keep accepted ones
        let def = format!("CONST {} = {}\n", name, e);
        if matches!(impl_run::front(&format!("{}{}", prelude, def)), Ok(_)) {
            prelude.push_str(&def);
            g.consts.push((name, is_s));
        }
    }
    g.ops = 0;
    let is_string = g.t.chance(1, 8);
    let depth = 1 + g.t.choose(4);
    let expr = if is_string { g.str(depth.min(3)) } else { g.num(depth) };
    let suffix = if is_string { "$" } else { *g.t.pick(&["", "", "", "%", "&", "!", "#"]) };
    let name = format!("{}{}", g.t.pick(&["CX", "Limit", "k", "Rate.Max"]), suffix);
    let in_sub = g.t.chance(1, 4);
    let shadow = in_sub && !prelude.is_empty() && g.t.chance(1, 2);
    let plan = UsePlan { place: g.t.choose(4) as u8, spell: g.t.choose(4) as u8, param: *g.t.pick(&['#', '!']), picks: (0..g.t.choose(4)).map(|_| g.t.raw()).collect() };
    let case = Case { prelude, name, expr, in_sub, is_string, shadow, plan: Some(plan) };
    sh.eval();
    sh.journal(&case.p1());
    let (p1, _p2, uses) = check(&case)?;
    if let Some(r) = &uses {
        for g in &r.groups {
            sh.class(&format!("use:position:{}", g));
        }
        sh.class(&format!("use:scope:{}", r.scope.class()));
        sh.class(&format!("use:spelling:{}", r.spelled));
        sh.class(&format!("use:name:{}", name_class(&case.name)));
        sh.class(if r.expected_ok { "use:substituted-program:runs-to-the-end" } else { "use:substituted-program:fails (same failure required)" });
        for p in &r.positions {
            sh.nontrivial(hash64(&("use", p, r.scope.class(), &case.name, &case.expr, r.spelled)));
        }
    }
    sh.class(match &p1 {
        Obs::Rejected(c) if c == "lint:Overflow" => "constant:rejected-overflow",
        Obs::Rejected(c) if c == "lint:DivisionByZero" => "constant:rejected-division-by-zero",
        Obs::Rejected(_) => "constant:rejected-other (expression not accepted either)",
        Obs::Ran { .. } => "constant:accepted",
        Obs::Other(_) => "constant:other",
    });
    sh.class(&format!("ops:{}", op_class(&case.expr)));
    sh.class(if case.shadow { "scope:sub-shadowing-global-constants" } else if case.in_sub { "scope:sub" } else { "scope:module" });
    sh.class(&format!("name-suffix:{}", if suffix.is_empty() { "bare" } else { suffix }));
    if g.ops >= 1 {
        sh.nontrivial(hash64(&(&case.prelude, &case.name, &case.expr, case.in_sub)));
    }
    sh.sample_sparse(503, || json!({"p1": case.p1(), "p2": case.p2()}));
    Ok(())
}

impl Prop for C14 {
    fn id(&self) -> &'static str {
        "C14"
    }
    fn rule(&self) -> &'static str {
        "Constant expressions over literals of all five types (incl. values at and around the INTEGER/LONG boundaries) and 0-2 earlier constants (bare and suffixed), with + - * / MOD, the six relational operators, AND OR NOT, unary minus and string concatenation/comparison, depth <= 5, defined at module level or inside a SUB, under a bare or suffixed name. For each: P1 = `CONST c = e : PRINT c`, P2 = `PRINT e`; P1 must be rejected for Overflow / Division by zero exactly when P2 raises 6 / 11 at run time, otherwise both print the same; a bare constant is referable through exactly one type suffix and a variable of that type receives the same value from e. Substitution: a program that uses c behaves (screen, printer, error) like the same program with every use replaced by (e). The uses are drawn from a table of 81 fragments (expression positions) (plain / parenthesised / unary / binary operand, argument of a user SUB with and without CALL incl. one that assigns to its parameter, of a user FUNCTION, of built-in functions and built-in subs incl. file numbers and names, nested arguments, array subscripts incl. READ targets, DIM / REDIM bounds, FOR from / to / step, SELECT CASE expression and CASE value / IS / range ends / list, PRINT, PRINT USING, LPRINT, PRINT # lists, IF / ELSEIF / WHILE / DO conditions, right side of another CONST at the same and at module level, record field, function result; STRING * n in DIM and TYPE is compared with the literal of the value, INTEGER constants only; plus a boundary family: lengths 0, 1, 2, 32766, 32767, 32768, 70000 in DIM / TYPE / REDIM / array declarations, constant bare or %, at module level or in a SUB), at 8 scopes (module; module-level constant used in a SUB / in a FUNCTION / in a SUB while another SUB has a local constant of that name; constant local to a SUB / FUNCTION, alone or shadowing a module-level constant of another value), under 16 spellings (bare, each type suffix, dotted, dotted with suffix, two dots, defined bare and referenced with the suffix and vice versa, other letter case). Enumerated part: every position x scope x spelling with type-exact expressions of value 5 (quick: string and one rotating numeric type per cell; thorough: every type, two value sets); several positions share one program, positions whose substituted side fails are compared on their own. Random part: every generated bare or string constant is used in its 3 original positions plus 0-3 drawn ones (sizes, bounds, counts, file numbers only for printed values 1..20; file names only for letters) at a drawn scope and spelling. The implementation is compared with itself. Non-trivial = the expression has >= 1 operator (distinct by earlier constants, name, expression, scope), plus every distinct (position, scope, spelling, type or expression) cell."
    }
    fn assumptions(&self) -> Vec<&'static str> {
        vec!["expressions the checker rejects on their own (PRINT e rejected) are outside the property and only counted", "printed numbers are compared modulo an optional 0 before the decimal point", "STRING * n admits no expression: there the counterpart of the constant is the literal of its value (INTEGER constants 1..20 only)", "a substituted program that fails (rejected / run-time error / budget) must fail the same way with the constant; positions after the failure are then not observed in that program (counted: use:substituted-program:fails)", "once the enumerated part has reported a violation on a shard, that shard skips the random search"]
    }
    fn run(&self, sh: &mut Shard) {
        use_grid(sh);
        if sh.shard == 0 {
            for (sig, with_c, with_e) in WITNESSES {
                sh.eval();
                sh.journal(with_c);
                sh.class("use-witness");
                sh.report(check_pair(sig, with_c, with_e, &json!({"sig": sig, "with_c": with_c, "with_e": with_e})));
            }
        }
        string_length_boundaries(sh);
        if !sh.stats.violations.is_empty() {
            // the enumerated part already failed on this shard: no search (and no long shrinking) on top of it
            sh.note("random_search_skipped_after_grid_violations", json!(true));
            return;
        }
        let cases = sh.share(sh.tier.pick(10_000, 300_000));
        sh.search(1, cases, 20, 132, |sh, tape| one_case(sh, tape));
    }
    fn replay(&self, _sh: &mut Shard, inputs: &Value) -> Result<(), Violation> {
        if let (Some(with_c), Some(with_e)) = (inputs["with_c"].as_str(), inputs["with_e"].as_str()) {
            return check_pair(inputs["sig"].as_str().unwrap_or("c14-use:replayed-pair"), with_c, with_e, inputs);
        }
        check(&Case::from_inputs(inputs)).map(|_| ())
    }
}

// ======================================================================================================
// Uses of a constant in every expression position, at every scope, under every spelling of its name.
//
// Relation (property statement): a program that uses the constant c behaves like the same program with
// every use replaced by `(e)`. The positions below are the places of the grammar that take an expression;
// each is a small self-contained fragment (`{c}` = the use, `{k}` = a number that keeps the names of the
// fragment's own variables apart), so that many of them can be put into one program.
// ======================================================================================================

/// applies to numeric constants
const NUM: u16 = 1;
/// applies to string constants
const STR: u16 = 2;
/// the value is used as a size, count, bound, position or file number: only for whole values 1..=20
const SMALL: u16 = 4;
/// only inside a FUNCTION (assignment to the function's result)
const FNONLY: u16 = 8;
/// the fragment's module-level part uses the constant: only for constants defined at module level
const GLOBALDEF: u16 = 16;
/// the (string) value is used as a file name: only for names made of letters
const FILES: u16 = 32;
/// the position takes a literal or a constant name only (no expression): the counterpart is the literal of
/// the constant's value; INTEGER constants only
const LITERAL: u16 = 64;
/// the four uses of the first version of the substitution program (always part of a random selection)
const CORE: u16 = 128;

struct UseCtx {
    id: &'static str,
    group: &'static str,
    flags: u16,
    /// module-level part (TYPE definitions, DATA, global constants derived from c)
    top: &'static str,
    body: &'static str,
}

const fn u(id: &'static str, group: &'static str, flags: u16, top: &'static str, body: &'static str) -> UseCtx {
    UseCtx { id, group, flags, top, body }
}

const USES: &[UseCtx] = &[
    // ---- the original four ----
    u("core-assign-product", "expr", NUM | CORE, "", "QX{k}# = {c} * 2\nPRINT QX{k}#\n"),
    u("core-if-positive", "condition", NUM | CORE, "", "IF {c} > 0 THEN PRINT \"pos\" ELSE PRINT \"nonpos\"\n"),
    u("core-case-value", "case-item", NUM | CORE, "", "SELECT CASE 1\nCASE {c}\nPRINT \"one\"\nCASE ELSE\nPRINT \"other\"\nEND SELECT\n"),
    u("core-str-concat", "expr", STR | CORE, "", "QS{k}$ = {c} + \"x\"\nPRINT QS{k}$; LEN({c})\n"),
    u("core-str-if", "condition", STR | CORE, "", "IF {c} = \"a\" THEN PRINT \"is a\" ELSE PRINT \"not a\"\n"),
    // ---- plain expressions ----
    u("print", "expr", NUM | STR, "", "PRINT {c}\n"),
    u("assign", "expr", NUM, "", "QX{k}# = {c}\nQY{k} = {c}\nPRINT QX{k}#; QY{k}\n"),
    u("paren-unary", "expr-paren-unary", NUM, "", "PRINT ({c}); -{c}; (-({c}))\n"),
    u("arith", "expr", NUM, "", "PRINT ({c} * 2) - {c}; 1 + {c}; {c} / 4\n"),
    u("logical", "expr-paren-unary", NUM, "", "PRINT NOT {c}; {c} AND 3; 1 OR {c}\n"),
    u("compare", "expr", NUM, "", "PRINT {c} > 0; {c} = {c}; 2 <= {c}\n"),
    u("str-expr", "expr", STR, "", "PRINT ({c}); ({c} + {c}); {c} + \"x\" + {c}\n"),
    u("str-compare", "expr", STR, "", "PRINT {c} = \"abc\"; {c} < \"b\"; {c} <> {c}; ({c}) >= \"A\"\n"),
    // ---- arguments of user SUBs ----
    u("sub-arg", "arg-user-sub", NUM, "", "Rep1 {c}\n"),
    u("call-sub-arg", "arg-user-sub", NUM, "", "CALL Rep1({c})\n"),
    u("sub-args-2", "arg-user-sub", NUM, "", "Rep2 1, {c}\nRep2 {c}, {c}\nCALL Rep2({c}, 2)\n"),
    u("sub-arg-modified", "arg-user-sub", NUM, "", "Bump {c}\nPRINT {c}\nCALL Bump({c})\nPRINT {c}\n"),
    u("sub-arg-expr", "arg-user-sub-nested", NUM, "", "Rep1 -{c}\nRep1 {c} * 2\nRep1 ({c})\nRep1 {c} - 1\n"),
    u("str-sub-arg", "arg-user-sub", STR, "", "ShowS {c}\nCALL ShowS({c})\n"),
    u("str-sub-arg-modified", "arg-user-sub", STR, "", "BumpS {c}\nPRINT {c}\n"),
    u("str-sub-arg-expr", "arg-user-sub-nested", STR, "", "ShowS {c} + \"!\"\nShowS ({c})\nShowS2 \"q\", {c}\n"),
    // ---- arguments of user FUNCTIONs ----
    u("fn-arg", "arg-user-function", NUM, "", "PRINT Twice#({c})\n"),
    u("fn-arg-assign", "arg-user-function", NUM, "", "QY{k}# = Twice#({c}) + Add2#(1, {c})\nPRINT QY{k}#; Add2#({c}, {c})\n"),
    u("fn-arg-nested", "arg-user-function-nested", NUM, "", "PRINT Twice#(Twice#({c})); STR$(Twice#({c})); Twice#({c} * 3); Twice#(-{c})\nRep1 Twice#({c})\n"),
    u("str-fn-arg", "arg-user-function", STR, "", "PRINT Dup$({c}); LEN(Dup$({c}))\nQS{k}$ = Dup$({c})\nPRINT QS{k}$\n"),
    u("str-fn-arg-nested", "arg-user-function-nested", STR, "", "PRINT Dup$(Dup$({c})); Dup$({c} + \"-\"); UCASE$(Dup$({c}))\nShowS Dup$({c})\n"),
    // ---- arguments of built-in functions ----
    u("builtin-fn-str", "arg-builtin-function", NUM, "", "PRINT STR$({c}); LEN(STR$({c})); VAL(STR$({c})); LTRIM$(STR$({c}))\n"),
    u("builtin-fn-chr", "arg-builtin-function-nested", NUM | SMALL, "", "PRINT CHR$(60 + {c}); STRING$(2, 60 + {c})\n"),
    u("builtin-fn-count", "arg-builtin-function", NUM | SMALL, "", "PRINT SPACE$({c}); \"|\"; STRING$({c}, \"x\"); STRING$({c}, 65)\n"),
    u("builtin-fn-substring", "arg-builtin-function", NUM | SMALL, "", "PRINT LEFT$(\"abcdefgh\", {c}); RIGHT$(\"abcdefgh\", {c}); MID$(\"abcdefgh\", {c}); MID$(\"abcdefgh\", 2, {c}); INSTR({c}, \"abcabcabc\", \"a\")\n"),
    u("str-builtin-fn", "arg-builtin-function", STR, "", "PRINT LEN({c}); UCASE$({c}); LCASE$({c}); LTRIM$({c}); RTRIM$({c}); VAL({c})\n"),
    u("str-builtin-fn-substring", "arg-builtin-function", STR, "", "PRINT LEFT$({c}, 2); RIGHT$({c}, 1); MID$({c}, 2); MID$({c}, 2, 1); INSTR({c}, \"b\"); INSTR(\"xxabc\", {c}); INSTR(2, {c}, {c})\n"),
    u("str-builtin-fn-string", "arg-builtin-function", STR, "", "PRINT STRING$(3, {c})\n"),
    // ---- arguments of built-in subs ----
    u("builtin-sub-screen", "arg-builtin-sub", NUM | SMALL, "", "LOCATE {c}, {c}\nPRINT \"at\"\nCOLOR {c}\nVIEW PRINT 1 TO {c}\nVIEW PRINT\nDEF SEG = {c}\nDEF SEG\nPRINT \"screen\"\n"),
    u("builtin-sub-file-number", "arg-builtin-sub", NUM | SMALL, "", "OPEN \"QF{k}.TMP\" FOR OUTPUT AS {c}\nCLOSE {c}\nOPEN \"QF{k}.TMP\" FOR INPUT AS {c}\nPRINT EOF({c})\nCLOSE {c}\nKILL \"QF{k}.TMP\"\n"),
    u("builtin-sub-random-file", "arg-builtin-sub", NUM | SMALL, "", "OPEN \"QG{k}.TMP\" FOR RANDOM AS #1 LEN = {c}\nFIELD #1, {c} AS QB{k}$\nLSET QB{k}$ = \"xy\"\nPUT #1, {c}\nLSET QB{k}$ = \"zzzzzzzzzzzzzzzzzzzzzzzz\"\nGET #1, {c}\nPRINT \"[\"; QB{k}$; \"]\"; LEN(QB{k}$)\nCLOSE #1\nKILL \"QG{k}.TMP\"\n"),
    u("str-builtin-sub-environ", "arg-builtin-sub-nested", STR, "", "ENVIRON \"QK{k}=\" + {c}\nPRINT ENVIRON$(\"QK{k}\")\n"),
    u("str-builtin-sub-file-name", "arg-builtin-sub", STR | FILES, "", "OPEN {c} FOR OUTPUT AS #1\nPRINT #1, \"in file\"\nCLOSE #1\nOPEN {c} FOR INPUT AS #1\nLINE INPUT #1, QL{k}$\nCLOSE #1\nKILL {c}\nPRINT QL{k}$\n"),
    u("str-builtin-sub-lset", "arg-builtin-sub", STR, "", "OPEN \"QG{k}.TMP\" FOR RANDOM AS #1 LEN = 8\nFIELD #1, 8 AS QB{k}$\nLSET QB{k}$ = {c}\nPRINT \"[\"; QB{k}$; \"]\"\nCLOSE #1\nKILL \"QG{k}.TMP\"\n"),
    // ---- array subscripts ----
    u("subscript", "subscript", NUM | SMALL, "", "DIM QA{k}#(30)\nQA{k}#({c}) = 4\nPRINT QA{k}#({c}); QA{k}#({c} + 1); QA{k}#(({c}))\n"),
    u("subscript-2d", "subscript", NUM | SMALL, "", "DIM QE{k}(3, 30)\nQE{k}(1, {c}) = 6\nPRINT QE{k}(1, {c}); QE{k}(1, {c} - 1)\n"),
    u("subscript-in-argument", "subscript-nested", NUM | SMALL, "", "DIM QA{k}#(30)\nQA{k}#({c}) = 4\nRep1 QA{k}#({c})\nPRINT Twice#(QA{k}#({c})); QA{k}#(QA{k}#({c}) + 1); STR$(QA{k}#({c}))\n"),
    u("subscript-read-target", "subscript", NUM | SMALL, "DATA 7{k}\n", "DIM QD{k}(30)\nREAD QD{k}({c})\nPRINT QD{k}({c})\n"),
    u("str-array-element", "expr", STR, "", "DIM QT{k}$(3)\nQT{k}$(1) = {c}\nPRINT QT{k}$(1)\nShowS QT{k}$(1) + {c}\n"),
    // ---- DIM / REDIM bounds ----
    u("dim-upper", "dim-bound", NUM | SMALL, "", "DIM QB{k}({c}), QC{k}(1 TO {c}), QD{k}(0 TO {c}, {c})\nPRINT UBOUND(QB{k}); UBOUND(QC{k}); UBOUND(QD{k}); UBOUND(QD{k}, 2)\n"),
    u("dim-lower", "dim-bound", NUM | SMALL, "", "DIM QL{k}({c} TO 30)\nPRINT LBOUND(QL{k})\n"),
    u("redim", "dim-bound", NUM | SMALL, "", "REDIM QR{k}({c})\nPRINT UBOUND(QR{k})\nREDIM QR{k}({c} TO {c} + 1)\nPRINT LBOUND(QR{k}); UBOUND(QR{k})\n"),
    // ---- FOR ----
    u("for-from", "for", NUM | SMALL, "", "FOR QI{k} = {c} TO 22\nQN{k} = QN{k} + 1\nNEXT\nPRINT QN{k}; QI{k}\n"),
    u("for-to", "for", NUM | SMALL, "", "FOR QI{k} = 1 TO {c}\nQN{k} = QN{k} + 1\nNEXT\nPRINT QN{k}; QI{k}\n"),
    u("for-step", "for", NUM | SMALL, "", "FOR QI{k} = 1 TO 40 STEP {c}\nPRINT QI{k};\nNEXT\nFOR QI{k} = 40 TO 1 STEP -{c}\nPRINT QI{k};\nNEXT\nPRINT\n"),
    // ---- SELECT CASE ----
    u("select-expr", "case-item", NUM, "", "SELECT CASE {c}\nCASE 5\nPRINT \"five\"\nCASE 2\nPRINT \"two\"\nCASE ELSE\nPRINT \"else\"\nEND SELECT\n"),
    u("case-value", "case-item", NUM, "", "SELECT CASE 5\nCASE {c}\nPRINT \"hit\"\nCASE ELSE\nPRINT \"miss\"\nEND SELECT\n"),
    u("case-is", "case-item", NUM, "", "SELECT CASE 4\nCASE IS < {c}\nPRINT \"less\"\nCASE IS >= {c}\nPRINT \"ge\"\nEND SELECT\n"),
    u("case-range-from", "case-item", NUM, "", "SELECT CASE 6\nCASE {c} TO 10\nPRINT \"in\"\nCASE ELSE\nPRINT \"out\"\nEND SELECT\n"),
    u("case-range-to", "case-item", NUM, "", "SELECT CASE 3\nCASE 0 TO {c}\nPRINT \"in\"\nCASE ELSE\nPRINT \"out\"\nEND SELECT\n"),
    u("case-list", "case-item", NUM, "", "SELECT CASE 5\nCASE 1, {c}, 9\nPRINT \"listed\"\nCASE ELSE\nPRINT \"unlisted\"\nEND SELECT\n"),
    u("str-select-expr", "case-item", STR, "", "SELECT CASE {c}\nCASE \"abc\"\nPRINT \"sel\"\nCASE ELSE\nPRINT \"else\"\nEND SELECT\n"),
    u("str-case-items", "case-item", STR, "", "SELECT CASE \"abd\"\nCASE {c}\nPRINT \"eq\"\nCASE IS < {c}\nPRINT \"lt\"\nCASE {c} TO \"zz\"\nPRINT \"range\"\nCASE ELSE\nPRINT \"else\"\nEND SELECT\nSELECT CASE \"B\"\nCASE \"A\" TO {c}\nPRINT \"range2\"\nCASE \"x\", {c}\nPRINT \"list\"\nCASE ELSE\nPRINT \"else\"\nEND SELECT\n"),
    // ---- PRINT lists ----
    u("print-list", "print-list", NUM, "", "PRINT 1; {c}; 2, {c}\nPRINT {c},\nPRINT {c};\nPRINT\n"),
    u("print-using", "print-list", NUM, "", "PRINT USING \"###.##\"; {c}\nPRINT USING \"## ##\"; 1; {c}\nPRINT USING \"#### \"; {c}; {c}\n"),
    u("lprint", "print-list", NUM, "", "LPRINT {c}; \"lp\"; {c}\nLPRINT USING \"##.#\"; {c}\n"),
    u("print-file", "print-list", NUM, "", "OPEN \"QP{k}.TMP\" FOR OUTPUT AS #1\nPRINT #1, {c}; {c}\nPRINT #1, USING \"##.#\"; {c}\nCLOSE #1\nOPEN \"QP{k}.TMP\" FOR INPUT AS #1\nLINE INPUT #1, QL{k}$\nPRINT QL{k}$\nLINE INPUT #1, QL{k}$\nPRINT QL{k}$\nCLOSE #1\nKILL \"QP{k}.TMP\"\n"),
    u("str-print-list", "print-list", STR, "", "PRINT {c}; \"|\"; {c}, {c}\nPRINT {c},\nPRINT {c};\nPRINT\nLPRINT {c}; \"|\"\n"),
    u("str-print-using-value", "print-list", STR, "", "PRINT USING \"\\  \\|\"; {c}\nPRINT USING \"!|\"; {c}; {c}\n"),
    u("str-print-using-format", "print-list", STR, "", "PRINT USING {c}; 1\n"),
    u("str-print-using-format-expr", "print-list", STR, "", "PRINT USING {c} + \" ##\"; 7\n"),
    // ---- conditions ----
    u("if-single-line", "condition", NUM, "", "IF {c} THEN PRINT \"t\" ELSE PRINT \"f\"\n"),
    u("if-block-elseif", "condition", NUM, "", "IF {c} > 3 THEN\nPRINT \"gt\"\nELSEIF {c} THEN\nPRINT \"ei\"\nELSE\nPRINT \"el\"\nEND IF\nIF 0 THEN\nELSEIF {c} = 5 THEN\nPRINT \"elseif\"\nEND IF\n"),
    u("while", "condition", NUM | SMALL, "", "QW{k} = 0\nWHILE QW{k} < {c}\nQW{k} = QW{k} + 1\nWEND\nPRINT QW{k}\n"),
    u("do-loops", "condition", NUM | SMALL, "", "QW{k} = 0\nDO WHILE QW{k} < {c}\nQW{k} = QW{k} + 1\nLOOP\nDO\nQW{k} = QW{k} + 1\nLOOP UNTIL QW{k} >= {c} * 2\nPRINT QW{k}\nDO UNTIL QW{k} > {c} * 2\nQW{k} = QW{k} + 1\nLOOP\nDO\nQW{k} = QW{k} - 1\nLOOP WHILE QW{k} > {c}\nPRINT QW{k}\n"),
    u("str-conditions", "condition", STR, "", "IF {c} = \"abc\" THEN PRINT \"is\" ELSE PRINT \"isnt\"\nIF {c} > \"B\" THEN\nPRINT \"gt\"\nELSEIF {c} <> \"\" THEN\nPRINT \"ne\"\nEND IF\nQW{k} = 0\nWHILE {c} <> \"\" AND QW{k} < 2\nQW{k} = QW{k} + 1\nWEND\nPRINT QW{k}\n"),
    // ---- right side of another CONST ----
    u("const-rhs", "const-rhs", NUM, "", "CONST QD{k} = {c}\nCONST QH{k} = ({c})\nPRINT QD{k}; QH{k}\n"),
    u("const-rhs-expr", "const-rhs", NUM | SMALL, "", "CONST QE{k} = {c} + 1\nCONST QF{k}# = {c} * 2\nCONST QJ{k} = -{c}\nPRINT QE{k}; QF{k}#; QJ{k}\nRep1 QE{k}\n"),
    u("const-rhs-global-chain", "const-rhs", NUM | GLOBALDEF, "CONST QG{k} = ({c})\nCONST QM{k} = QG{k}\n", "PRINT QG{k}; QM{k}\nRep1 QM{k}\n"),
    u("str-const-rhs", "const-rhs", STR, "", "CONST QD{k}$ = {c} + \"!\"\nCONST QE{k} = {c}\nPRINT QD{k}$; QE{k}\n"),
    u("str-const-rhs-global-chain", "const-rhs", STR | GLOBALDEF, "CONST QG{k}$ = {c}\n", "PRINT QG{k}$\nShowS QG{k}$\n"),
    // ---- record fields, function result ----
    u("record-field", "expr", NUM, "TYPE QT{k}\nfld AS INTEGER\ndbl AS DOUBLE\nEND TYPE\n", "DIM QR{k} AS QT{k}\nQR{k}.dbl = {c}\nPRINT QR{k}.dbl\nRep1 QR{k}.dbl + {c}\n"),
    u("function-result", "expr", NUM | FNONLY, "", "ProbeF# = {c}\n"),
    u("str-function-result", "arg-builtin-function", STR | FNONLY, "", "ProbeF# = LEN({c})\n"),
    // ---- STRING * n (a literal or a constant name; no expression) ----
    u("string-length-dim", "string-length", NUM | SMALL | LITERAL, "", "DIM QS{k} AS STRING * {c}\nPRINT LEN(QS{k})\n"),
    u("string-length-type", "string-length", NUM | SMALL | LITERAL | GLOBALDEF, "TYPE QU{k}\nnm AS STRING * {c}\nEND TYPE\n", "DIM QV{k} AS QU{k}\nPRINT LEN(QV{k}.nm)\n"),
];

#[derive(Clone, Copy, PartialEq, Debug)]
enum Scope {
    /// defined and used at module level
    Module,
    /// defined at module level, used inside a SUB / a FUNCTION
    SubGlobal,
    FnGlobal,
    /// defined and used inside a SUB / a FUNCTION
    SubLocal,
    FnLocal,
    /// the same, while a module-level constant of the same name holds another value
    SubShadow,
    FnShadow,
    /// defined at module level, used inside a SUB, while ANOTHER SUB has a local constant of the same name
    SubGlobalOther,
}

const SCOPES: [Scope; 8] = [Scope::Module, Scope::SubGlobal, Scope::FnGlobal, Scope::SubLocal, Scope::FnLocal, Scope::SubShadow, Scope::FnShadow, Scope::SubGlobalOther];

impl Scope {
    fn class(self) -> &'static str {
        match self {
            Scope::Module => "module",
            Scope::SubGlobal => "global-constant-in-sub",
            Scope::FnGlobal => "global-constant-in-function",
            Scope::SubLocal => "local-constant-in-sub",
            Scope::FnLocal => "local-constant-in-function",
            Scope::SubShadow => "local-constant-in-sub-shadowing-global",
            Scope::FnShadow => "local-constant-in-function-shadowing-global",
            Scope::SubGlobalOther => "global-constant-in-sub-other-sub-has-local",
        }
    }
    fn in_function(self) -> bool {
        matches!(self, Scope::FnGlobal | Scope::FnLocal | Scope::FnShadow)
    }
    fn at_module(self) -> bool {
        self == Scope::Module
    }
    fn global_def(self) -> bool {
        matches!(self, Scope::Module | Scope::SubGlobal | Scope::FnGlobal | Scope::SubGlobalOther)
    }
}

/// The helper procedures the text refers to (parsing is the dominant cost: unused ones are left out).
fn helpers(param: char, text: &str) -> String {
    let p = param;
    let all: [(&str, String); 9] = [
        ("Rep1 ", format!("SUB Rep1 (n{p})\n  PRINT \"rep1\"; n{p}\nEND SUB\n")),
        ("Rep2 ", format!("SUB Rep2 (a{p}, b{p})\n  PRINT \"rep2\"; a{p}; b{p}\nEND SUB\n")),
        ("Bump ", format!("SUB Bump (n{p})\n  n{p} = n{p} + 1\n  PRINT \"bump\"; n{p}\nEND SUB\n")),
        ("Twice#(", format!("FUNCTION Twice# (n{p})\n  Twice# = n{p} * 2\nEND FUNCTION\n")),
        ("Add2#(", format!("FUNCTION Add2# (a{p}, b{p})\n  Add2# = a{p} + b{p}\nEND FUNCTION\n")),
        ("ShowS ", "SUB ShowS (s$)\n  PRINT \"<\"; s$; \">\"\nEND SUB\n".to_string()),
        ("ShowS2 ", "SUB ShowS2 (a$, b$)\n  PRINT \"<\"; a$; \"|\"; b$; \">\"\nEND SUB\n".to_string()),
        ("BumpS ", "SUB BumpS (s$)\n  s$ = s$ + \"+\"\n  PRINT s$\nEND SUB\n".to_string()),
        ("Dup$(", "FUNCTION Dup$ (s$)\n  Dup$ = s$ + s$\nEND FUNCTION\n".to_string()),
    ];
    // `CALL Rep1(` etc. count as well
    all.iter().filter(|(needle, _)| text.contains(needle) || text.contains(&format!("CALL {}(", needle.trim_end()))).map(|(_, t)| t.as_str()).collect()
}

/// One side of a substitution pair.
struct UseProg<'a> {
    scope: Scope,
    /// CONST definitions at module level / inside the subprogram (earlier constants, the constant under test, decoys)
    globals: &'a str,
    locals: &'a str,
    /// body of the other SUB of `Scope::SubGlobalOther`
    other: &'a str,
    /// the text put at every use, and at the uses that admit no expression
    use_text: &'a str,
    lit_text: &'a str,
    /// (index into USES, number for the fragment's own names)
    items: &'a [(usize, usize)],
    /// type of the helper procedures' numeric parameters
    param: char,
}

impl UseProg<'_> {
    fn render(&self) -> String {
        let mut tops = String::new();
        let mut body = String::new();
        for (ci, k) in self.items {
            let ctx = &USES[*ci];
            let text = if ctx.flags & LITERAL != 0 { self.lit_text } else { self.use_text };
            let ks = k.to_string();
            tops.push_str(&ctx.top.replace("{c}", text).replace("{k}", &ks));
            body.push_str(&ctx.body.replace("{c}", text).replace("{k}", &ks));
        }
        let inner = indent(&format!("{}{}", self.locals, body));
        let mut out = format!("{}{}", self.globals, tops);
        if self.scope.at_module() {
            out.push_str(self.locals);
            out.push_str(&body);
        } else if self.scope.in_function() {
            out.push_str(&format!("QZ# = ProbeF#\nPRINT QZ#\nFUNCTION ProbeF#\n  ProbeF# = 1\n{}END FUNCTION\n", inner));
        } else if self.scope == Scope::SubGlobalOther {
            out.push_str(&format!("Other\nProbe\nOther\nSUB Other\n{}END SUB\nSUB Probe\n{}END SUB\n", indent(self.other), inner));
        } else {
            out.push_str(&format!("Probe\nSUB Probe\n{}END SUB\n", inner));
        }
        let h = helpers(self.param, &out);
        out.push_str(&h);
        out
    }
}

/// Observation of a program with everything it writes (screen and printer).
fn observe_all(src: &str) -> Obs {
    match impl_run::run_src(src, &RunOpts::budget(200_000)) {
        Err(FrontErr::Panic { stage, info }) => Obs::Other(format!("panic:{}:{}", stage, info.sig())),
        Err(e) => Obs::Rejected(e.class()),
        Ok(o) => {
            let mut text = norm_numbers(&o.stdout_str());
            if !o.lpt1.is_empty() {
                text.push_str("\u{1}LPT1:");
                text.push_str(&norm_numbers(&String::from_utf8_lossy(&o.lpt1)));
            }
            match &o.end {
                End::Ok => Obs::Ran { stdout: text, code: None, ok: true },
                End::Err { code, .. } => Obs::Ran { stdout: text, code: *code, ok: false },
                End::Panic(p) => Obs::Other(format!("panic:run:{}", p.sig())),
                End::Budget => Obs::Other("budget".into()),
            }
        }
    }
}

fn ran_ok(o: &Obs) -> bool {
    matches!(o, Obs::Ran { ok: true, .. })
}

fn name_class(name: &str) -> String {
    let dotted = name.contains('.');
    let suffixed = name.ends_with(['%', '&', '!', '#', '$']);
    format!("{}{}", if dotted { "dotted" } else { "plain" }, if suffixed { "-suffixed" } else { "" })
}

fn decoy_for(name: &str, is_string: bool) -> String {
    if is_string { format!("CONST {} = \"zz\"\n", name) } else { format!("CONST {} = 77\n", name) }
}

/// Everything needed to build both sides of a substitution pair for any selection of positions.
struct UsePair {
    scope: Scope,
    /// the with-c side: definitions incl. the constant under test; the with-(e) side: the same without it
    globals_c: String,
    locals_c: String,
    globals_e: String,
    locals_e: String,
    other: String,
    /// reference to the constant as spelled at the uses
    reference: String,
    /// `(e)`
    substitute: String,
    /// literal of the value, for INTEGER constants whose value is known ("" otherwise)
    literal: String,
    param: char,
    /// name as defined (reporting only)
    def_name: String,
}

impl UsePair {
    fn with_c(&self, items: &[(usize, usize)]) -> String {
        UseProg { scope: self.scope, globals: &self.globals_c, locals: &self.locals_c, other: &self.other, use_text: &self.reference, lit_text: &self.reference, items, param: self.param }.render()
    }
    fn with_e(&self, items: &[(usize, usize)]) -> String {
        UseProg { scope: self.scope, globals: &self.globals_e, locals: &self.locals_e, other: &self.other, use_text: &self.substitute, lit_text: &self.literal, items, param: self.param }.render()
    }
    fn violation(&self, ctx: Option<&UseCtx>, items: &[(usize, usize)], a: &Obs, b: &Obs, extra: &Value) -> Violation {
        let (group, id) = match ctx {
            Some(c) => (c.group, c.id),
            None => ("several-uses-together", "batch"),
        };
        let mut inputs = json!({"with_c": self.with_c(items), "with_e": self.with_e(items), "position": id, "scope": self.scope.class(), "defined_as": self.def_name, "referenced_as": self.reference, "substitute": self.substitute});
        if let (Value::Object(m), Value::Object(x)) = (&mut inputs, extra) {
            for (k, v) in x {
                m.insert(k.clone(), v.clone());
            }
        }
        let what = if ctx.map(|c| c.flags & LITERAL != 0).unwrap_or(false) {
            "a position that takes a literal or a constant: using the constant behaves differently from using the literal of its value"
        } else {
            "replacing every use of the constant by its defining expression in parentheses changes the program's behaviour"
        };
        let sig = if ctx.map(|c| c.flags & LITERAL != 0).unwrap_or(false) {
            format!("c14-use-literal:{}:{}", group, if self.reference.contains('.') { "dotted" } else { "plain" })
        } else {
            format!("c14-use:{}:{}:{}", group, self.scope.class(), name_class(&self.reference))
        };
        inputs["sig"] = json!(sig);
        Violation::new(sig, what, inputs).exp_obs(json!({"with (e)": obs_json(b)}), json!({"with c": obs_json(a)}))
    }
    /// The batch differs: find the first single position that differs on its own (None: only together).
    fn narrow(&self, items: &[(usize, usize)], a: &Obs, b: &Obs, extra: &Value) -> Violation {
        if items.len() > 1 {
            for it in items {
                let one = [*it];
                let a1 = observe_all(&self.with_c(&one));
                let b1 = observe_all(&self.with_e(&one));
                if a1 != b1 {
                    return self.violation(Some(&USES[it.0]), &one, &a1, &b1, extra);
                }
            }
            return self.violation(None, items, a, b, extra);
        }
        self.violation(items.first().map(|it| &USES[it.0]), items, a, b, extra)
    }
}

/// Is the position usable for this constant at this scope?
fn applicable(ctx: &UseCtx, is_string: bool, scope: Scope, small: bool, file_name: bool, literal: bool) -> bool {
    let f = ctx.flags;
    (if is_string { f & STR != 0 } else { f & NUM != 0 })
        && (f & SMALL == 0 || small)
        && (f & FNONLY == 0 || scope.in_function())
        && (f & GLOBALDEF == 0 || scope.global_def())
        && (f & FILES == 0 || file_name)
        && (f & LITERAL == 0 || literal)
}

// ------------------------------------------------------------------------------------------------------
// the random part: where and how the substitution program of a generated constant uses it
// ------------------------------------------------------------------------------------------------------

#[derive(Clone, Debug)]
struct UsePlan {
    /// 0 module level, 1 SUB, 2 FUNCTION, 3 SUB while another SUB has a local constant of the same name
    /// (a constant defined inside a subprogram is used there: 2 = FUNCTION, anything else = SUB)
    place: u8,
    /// 0 as defined, 1 upper case, 2 lower case, 3 bare constant through its type suffix / string constant without `$`
    spell: u8,
    /// type of the helper procedures' parameters
    param: char,
    /// raw choices of positions (reduced modulo the number of applicable ones)
    picks: Vec<u32>,
}

impl UsePlan {
    fn to_json(&self) -> Value {
        json!({"place": self.place, "spell": self.spell, "param": self.param.to_string(), "picks": self.picks})
    }
    fn from_json(v: &Value) -> Option<UsePlan> {
        if !v.is_object() {
            return None;
        }
        Some(UsePlan {
            place: v["place"].as_u64().unwrap_or(0) as u8,
            spell: v["spell"].as_u64().unwrap_or(0) as u8,
            param: v["param"].as_str().and_then(|s| s.chars().next()).filter(|c| ['#', '!'].contains(c)).unwrap_or('#'),
            picks: v["picks"].as_array().map(|a| a.iter().map(|x| x.as_u64().unwrap_or(0) as u32).collect()).unwrap_or_default(),
        })
    }
}

struct UseReport {
    scope: Scope,
    positions: Vec<&'static str>,
    groups: Vec<&'static str>,
    expected_ok: bool,
    spelled: &'static str,
}

/// The substitution program of a generated constant: the constant's own `PRINT c` output tells which positions are safe.
fn check_uses(case: &Case, plan: &UsePlan, p1: &Obs, natural: Option<char>) -> Result<UseReport, Violation> {
    let printed = match p1 {
        Obs::Ran { stdout, .. } => stdout.trim_end_matches(['\r', '\n']).to_string(),
        _ => String::new(),
    };
    let value: Option<f64> = if case.is_string { None } else { printed.trim().parse::<f64>().ok() };
    let small = value.map(|v| v.fract() == 0.0 && (1.0..=20.0).contains(&v)).unwrap_or(false);
    let file_name = case.is_string && !printed.is_empty() && printed.len() <= 8 && printed.chars().all(|c| c.is_ascii_alphabetic());
    let literal = small && natural == Some('%');
    let scope = if case.in_sub {
        match (plan.place == 2, case.shadow) {
            (false, false) => Scope::SubLocal,
            (true, false) => Scope::FnLocal,
            (false, true) => Scope::SubShadow,
            (true, true) => Scope::FnShadow,
        }
    } else {
        [Scope::Module, Scope::SubGlobal, Scope::FnGlobal, Scope::SubGlobalOther][(plan.place % 4) as usize]
    };
    let (reference, spelled) = match plan.spell {
        1 => (case.name.to_uppercase(), "upper-case"),
        2 => (case.name.to_lowercase(), "lower-case"),
        3 if case.is_string => (case.name.trim_end_matches('$').to_string(), "string-constant-without-suffix"),
        3 if natural.is_some() && !case.name.ends_with(['%', '&', '!', '#']) => (format!("{}{}", case.name, natural.unwrap()), "bare-constant-through-its-type-suffix"),
        _ => (case.name.clone(), "as-defined"),
    };
    let def = format!("CONST {} = {}\n", case.name, case.expr);
    let decoys = format!("{}{}", case.prelude_global(), decoy_for(&case.name, case.is_string));
    let (globals_c, locals_c, globals_e, locals_e) = if !case.in_sub {
        (format!("{}{}", case.prelude, def), String::new(), case.prelude.clone(), String::new())
    } else if case.shadow {
        (decoys.clone(), format!("{}{}", case.prelude, def), decoys.clone(), case.prelude.clone())
    } else {
        (case.prelude.clone(), def.clone(), case.prelude.clone(), String::new())
    };
    let other = format!("{}PRINT {}\n", decoy_for(&case.name, case.is_string), case.name);
    let pair = UsePair { scope, globals_c, locals_c, globals_e, locals_e, other, reference, substitute: format!("({})", case.expr), literal: if literal { format!("{}", value.unwrap_or(1.0) as i64) } else { String::new() }, param: plan.param, def_name: case.name.clone() };
    // the original uses first, then the chosen positions in the order chosen
    let mut chosen: Vec<usize> = (0..USES.len()).filter(|i| USES[*i].flags & CORE != 0 && applicable(&USES[*i], case.is_string, scope, small, file_name, literal)).collect();
    let pool: Vec<usize> = (0..USES.len()).filter(|i| USES[*i].flags & CORE == 0 && applicable(&USES[*i], case.is_string, scope, small, file_name, literal)).collect();
    for p in &plan.picks {
        if pool.is_empty() {
            break;
        }
        let i = pool[*p as usize % pool.len()];
        if !chosen.contains(&i) {
            chosen.push(i);
        }
    }
    let items: Vec<(usize, usize)> = chosen.iter().enumerate().map(|(k, i)| (*i, k + 1)).collect();
    let b = observe_all(&pair.with_e(&items));
    let a = observe_all(&pair.with_c(&items));
    if a != b {
        return Err(pair.narrow(&items, &a, &b, &case.inputs()));
    }
    Ok(UseReport { scope, positions: items.iter().map(|it| USES[it.0].id).collect(), groups: items.iter().map(|it| USES[it.0].group).collect(), expected_ok: ran_ok(&b), spelled })
}

// ------------------------------------------------------------------------------------------------------
// the enumerated part: every position x every scope x every spelling x every type, with values for which
// every position is meaningful
// ------------------------------------------------------------------------------------------------------

struct Style {
    id: &'static str,
    def: &'static str,
    def_suffixed: bool,
    reference: &'static str,
    ref_suffixed: bool,
}

const fn st(id: &'static str, def: &'static str, def_suffixed: bool, reference: &'static str, ref_suffixed: bool) -> Style {
    Style { id, def, def_suffixed, reference, ref_suffixed }
}

const STYLES: [Style; 16] = [
    st("bare", "Limit", false, "Limit", false),
    st("bare-upper-case", "Limit", false, "LIMIT", false),
    st("bare-lower-case", "Limit", false, "limit", false),
    st("bare-referenced-with-suffix", "Limit", false, "Limit", true),
    st("suffixed", "Limit", true, "Limit", true),
    st("suffixed-referenced-bare", "Limit", true, "Limit", false),
    st("suffixed-upper-case", "Limit", true, "LIMIT", true),
    st("dotted", "Max.Items", false, "Max.Items", false),
    st("dotted-upper-case", "Max.Items", false, "MAX.ITEMS", false),
    st("dotted-lower-case", "Max.Items", false, "max.items", false),
    st("dotted-referenced-with-suffix", "Max.Items", false, "Max.Items", true),
    st("dotted-suffixed", "Max.Items", true, "Max.Items", true),
    st("dotted-suffixed-referenced-bare", "Max.Items", true, "Max.Items", false),
    st("dotted-suffixed-lower-case", "Max.Items", true, "max.items", true),
    st("two-dots-mixed-case", "A.B.C", false, "a.b.C", false),
    st("one-letter-other-case", "k", false, "K", false),
];

const GRID_TYPES: [char; 5] = ['%', '&', '!', '#', '$'];
/// (defining expression whose own type is the column's type, literal of its value) per value set and type
const GRID_VALUES: [[(&str, &str); 5]; 2] = [
    [("(2 + 3)", "5"), ("(70000 - 69995)", ""), ("(2.5 * 2)", ""), ("(2.5# * 2)", ""), ("(\"ab\" + \"c\")", "")],
    [("(9 - 7)", "2"), ("(65538 - 65536)", ""), ("(1.25 * 2)", ""), ("(1.25# * 2)", ""), ("(\"Q z #\" + \"#.#\")", "")],
];

fn grid_pair(scope: Scope, style: &Style, q: char, expr: &str, literal: &str) -> UsePair {
    let is_string = q == '$';
    let def_name = format!("{}{}", style.def, if style.def_suffixed { q.to_string() } else { String::new() });
    let reference = format!("{}{}", style.reference, if style.ref_suffixed { q.to_string() } else { String::new() });
    let def = format!("CONST {} = {}\n", def_name, expr);
    let decoy = decoy_for(&def_name, is_string);
    let (globals_c, locals_c, globals_e, locals_e) = match scope {
        Scope::Module | Scope::SubGlobal | Scope::FnGlobal | Scope::SubGlobalOther => (def.clone(), String::new(), String::new(), String::new()),
        Scope::SubLocal | Scope::FnLocal => (String::new(), def.clone(), String::new(), String::new()),
        Scope::SubShadow | Scope::FnShadow => (decoy.clone(), def.clone(), decoy.clone(), String::new()),
    };
    let other = format!("{}PRINT {}\n", decoy, def_name);
    UsePair { scope, globals_c, locals_c, globals_e, locals_e, other, reference, substitute: expr.to_string(), literal: literal.to_string(), param: '#', def_name }
}

/// One unit of the grid: a value set, a type and a scope; all spellings, all positions.
/// Quick tier: at every scope every spelling meets the string type and one numeric type (rotating, so that every
/// spelling meets every numeric type at two scopes); the thorough tier crosses everything.
fn grid_unit(sh: &mut Shard, vs: usize, ti: usize, scope: Scope, full: bool) -> bool {
    let q = GRID_TYPES[ti];
    let is_string = q == '$';
    let (expr, literal) = GRID_VALUES[vs][ti];
    let ctxs: Vec<usize> = (0..USES.len()).filter(|i| applicable(&USES[*i], is_string, scope, !is_string, is_string, !literal.is_empty())).collect();
    let items: Vec<(usize, usize)> = ctxs.iter().enumerate().map(|(k, i)| (*i, k + 1)).collect();
    // the expected side does not depend on the spelling of the name
    let base = grid_pair(scope, &STYLES[0], q, expr, literal);
    sh.journal(&base.with_e(&items));
    let b_all = observe_all(&base.with_e(&items));
    let mut together: Vec<(usize, usize)> = vec![];
    let mut alone: Vec<((usize, usize), Obs)> = vec![];
    let b_together;
    if ran_ok(&b_all) {
        together = items.clone();
        b_together = b_all;
    } else {
        // some position fails with this value: such positions are compared on their own
        for it in &items {
            let b1 = observe_all(&base.with_e(&[*it]));
            if ran_ok(&b1) { together.push(*it) } else { alone.push((*it, b1)) }
        }
        let b2 = observe_all(&base.with_e(&together));
        if ran_ok(&b2) {
            b_together = b2;
        } else {
            // fragments disturb each other: everything on its own
            alone = items.iter().map(|it| (*it, observe_all(&base.with_e(&[*it])))).collect();
            together.clear();
            b_together = b2;
            sh.class("use-grid:unit-without-batch");
        }
    }
    let si = SCOPES.iter().position(|s| *s == scope).unwrap_or(0);
    for (sti, style) in STYLES.iter().enumerate() {
        if !full && !is_string && (sti + si) % 4 != ti {
            continue;
        }
        let pair = grid_pair(scope, style, q, expr, literal);
        let extra = json!({"type": q.to_string(), "style": style.id});
        sh.eval();
        let mut verdict: Result<(), Violation> = Ok(());
        if !together.is_empty() {
            let src = pair.with_c(&together);
            sh.journal(&src);
            let a = observe_all(&src);
            if a != b_together {
                verdict = Err(pair.narrow(&together, &a, &b_together, &extra));
            }
        }
        if verdict.is_ok() {
            for (it, b1) in &alone {
                let src = pair.with_c(&[*it]);
                sh.journal(&src);
                let a1 = observe_all(&src);
                if &a1 != b1 {
                    verdict = Err(pair.violation(Some(&USES[it.0]), &[*it], &a1, b1, &extra));
                    break;
                }
            }
        }
        for it in &together {
            sh.class(&format!("use-grid:position:{}", USES[it.0].group));
            sh.nontrivial(hash64(&("grid", USES[it.0].id, scope.class(), style.id, q, vs)));
        }
        for (it, _) in &alone {
            sh.class(&format!("use-grid:position:{}", USES[it.0].group));
            sh.class(&format!("use-grid:expected-side-fails:{}", USES[it.0].id));
            sh.nontrivial(hash64(&("grid", USES[it.0].id, scope.class(), style.id, q, vs)));
        }
        sh.class(&format!("use-grid:scope:{}", scope.class()));
        sh.class(&format!("use-grid:name:{}", style.id));
        sh.class(&format!("use-grid:type:{}", q));
        if scope == Scope::SubGlobal && style.id == "dotted" && vs == 0 && (q == '%' || q == '$') {
            sh.sample(|| json!({"use_grid_with_c": pair.with_c(&together), "use_grid_with_e": pair.with_e(&together)}));
        }
        if !sh.report(verdict) {
            return false;
        }
    }
    true
}

fn use_grid(sh: &mut Shard) {
    let full = sh.tier == crate::engine::Tier::Thorough;
    let mut idx = 0u64;
    'all: for vs in 0..(if full { GRID_VALUES.len() } else { 1 }) {
        for scope in SCOPES {
            for ti in 0..GRID_TYPES.len() {
                idx += 1;
                if !sh.mine(idx) {
                    continue;
                }
                if !grid_unit(sh, vs, ti, scope, full) {
                    break 'all;
                }
            }
        }
    }
    sh.exhaustive(if full { "use-position x scope x name-spelling x type grid, two value sets" } else { "use-position x scope x name-spelling grid (each cell with the string type and one numeric type, rotating over % & ! #), one value set" });
}

/// Fixed witnesses (shard 0): pairs (program with c, program with (e)) that once differed.
const WITNESSES: [(&str, &str, &str); 1] = [(
    "c14-use:arg-user-sub:global-constant-in-sub:dotted",
    "CONST MAX.ITEMS = 5\nDECLARE SUB Show\nDECLARE SUB Report (n)\n\nReport MAX.ITEMS\nShow\n\nSUB Show\n    Report MAX.ITEMS\n    Report (5)\nEND SUB\n\nSUB Report (n)\n    PRINT n\nEND SUB\n",
    "DECLARE SUB Show\nDECLARE SUB Report (n)\n\nReport (5)\nShow\n\nSUB Show\n    Report (5)\n    Report (5)\nEND SUB\n\nSUB Report (n)\n    PRINT n\nEND SUB\n",
)];

/// STRING * n at the edges of what a length may be (0, 1, 2, 32766, 32767, 32768, 70000): the constant form and the literal
/// form of the same declaration (DIM, TYPE element, REDIM, array of fixed-length strings; constant defined bare / with %,
/// at module level or inside a SUB) must get the same verdict and print the same length.
fn string_length_boundaries(sh: &mut Shard) {
    const VALUES: [i64; 7] = [0, 1, 2, 32766, 32767, 32768, 70000];
    const FORMS: [(&str, &str); 4] = [
        ("dim", "DIM QS AS STRING * {n}\nPRINT LEN(QS)\n"),
        ("type", "TYPE QU\nnm AS STRING * {n}\nEND TYPE\nDIM QV AS QU\nPRINT LEN(QV.nm)\n"),
        ("redim", "REDIM QR(1 TO 2) AS STRING * {n}\nPRINT LEN(QR(1))\n"),
        ("dim-array", "DIM QA(2) AS STRING * {n}\nQA(1) = \"abc\"\nPRINT LEN(QA(1)); LEN(QA(2))\n"),
    ];
    let mut index = 0u64;
    for v in VALUES {
        for (fname, form) in FORMS {
            // (a LONG-typed constant has no literal counterpart of its type in this position: INTEGER-typed spellings only;
            // values beyond INTEGER make the bare constant a LONG, as they make the literal)
            for sfx in ["", "%"] {
                for in_sub in [false, true] {
                    index += 1;
                    if sh.shard as u64 != index % sh.nshards as u64 {
                        continue;
                    }
                    if (sfx == "%" && v > 32767) || (in_sub && fname == "type") {
                        continue;
                    }
                    let name = format!("ZL{}", sfx);
                    let (with_c, with_e) = if in_sub {
                        let wrap = |first: &str, n: &str| format!("ZP\nSUB ZP\n{}\n{}END SUB\n", first, form.replace("{n}", n));
                        (wrap(&format!("CONST {} = {}", name, v), &name), wrap("' the literal", &v.to_string()))
                    } else {
                        (format!("CONST {} = {}\n{}", name, v, form.replace("{n}", &name)), format!("' the literal\n{}", form.replace("{n}", &v.to_string())))
                    };
                    sh.eval();
                    sh.journal(&with_c);
                    sh.class(&format!("string-length-boundary:{}:{}", fname, v));
                    sh.nontrivial(hash64(&with_c));
                    let sig = format!("c14-use:string-length-boundary:{}", fname);
                    let r = check_pair(&sig, &with_c, &with_e, &json!({"sig": sig, "with_c": with_c, "with_e": with_e}));
                    if !sh.report(r) {
                        return;
                    }
                }
            }
        }
    }
    sh.exhaustive("STRING * n boundary lengths: 7 values x 4 declaration forms x 2 constant spellings x module / SUB");
}

fn check_pair(sig: &str, with_c: &str, with_e: &str, inputs: &Value) -> Result<(), Violation> {
    let a = observe_all(with_c);
    let b = observe_all(with_e);
    if a != b {
        return Err(Violation::new(sig, "replacing every use of the constant by its defining expression in parentheses changes the program's behaviour", inputs.clone()).exp_obs(json!({"with (e)": obs_json(&b)}), json!({"with c": obs_json(&a)})));
    }
    Ok(())
}

//! C14 — a CONST has the value and type its expression would have at run time.
//! Differential + metamorphic, implementation against itself.

use serde_json::{Value, json};

use crate::engine::{Shard, Tape, Violation, hash64};
use crate::impl_run::{self, End, FrontErr, RunOpts};
use crate::props::Prop;
use crate::props::common::norm_numbers;

pub struct C14;

const LITS: [&str; 26] = [
    "0", "1", "2", "3", "-1", "7", "10", "255", "256", "32766", "32767", "32768", "65535", "65536", "100000", "2147483647", "2147483648", "0.5", "1.5", "2.25", "0.25", "3.0#", "1.5#", "2147483647.0#", "40000", "-32768",
];
const SLITS: [&str; 5] = ["\"a\"", "\"\"", "\"Hello\"", "\"b c\"", "\"A\""];

struct G<'t> {
    t: Tape<'t>,
    /// earlier constants: (reference text, is_string)
    consts: Vec<(String, bool)>,
    ops: usize,
}

impl<'t> G<'t> {
    fn num(&mut self, d: usize) -> String {
        if d == 0 || self.t.chance(2, 5) {
            let nc: Vec<String> = self.consts.iter().filter(|c| !c.1).map(|c| c.0.clone()).collect();
            if !nc.is_empty() && self.t.chance(1, 3) {
                return nc[self.t.choose(nc.len())].clone();
            }
            return self.t.pick(&LITS).to_string();
        }
        self.ops += 1;
        match self.t.choose(14) {
            0 | 1 => format!("({} + {})", self.num(d - 1), self.num(d - 1)),
            2 | 3 => format!("({} - {})", self.num(d - 1), self.num(d - 1)),
            4 | 5 => format!("({} * {})", self.num(d - 1), self.num(d - 1)),
            6 => format!("({} / {})", self.num(d - 1), self.num(d - 1)),
            7 => format!("({} MOD {})", self.num(d - 1), self.num(d - 1)),
            8 => format!("({} {} {})", self.num(d - 1), self.t.pick(&["=", "<>", "<", "<=", ">", ">="]), self.num(d - 1)),
            9 => format!("({} AND {})", self.num(d - 1), self.num(d - 1)),
            10 => format!("({} OR {})", self.num(d - 1), self.num(d - 1)),
            11 => format!("(NOT {})", self.num(d - 1)),
            12 => format!("(-{})", self.num(d - 1)),
            _ => format!("({} {} {})", self.str(d - 1), self.t.pick(&["=", "<", ">"]), self.str(d - 1)),
        }
    }
    fn str(&mut self, d: usize) -> String {
        if d == 0 || self.t.chance(1, 2) {
            let sc: Vec<String> = self.consts.iter().filter(|c| c.1).map(|c| c.0.clone()).collect();
            if !sc.is_empty() && self.t.chance(1, 3) {
                return sc[self.t.choose(sc.len())].clone();
            }
            return self.t.pick(&SLITS).to_string();
        }
        self.ops += 1;
        format!("({} + {})", self.str(d - 1), self.str(d - 1))
    }
}

#[derive(Debug, Clone, PartialEq)]
enum Obs {
    /// rejected before running: error class (e.g. "lint:Overflow")
    Rejected(String),
    /// ran: stdout + error code if any
    Ran { stdout: String, code: Option<i32>, ok: bool },
    Other(String),
}

fn observe(src: &str) -> Obs {
    match impl_run::run_src(src, &RunOpts::budget(200_000)) {
        Err(FrontErr::Panic { stage, info }) => Obs::Other(format!("panic:{}:{}", stage, info.sig())),
        Err(e) => Obs::Rejected(e.class()),
        Ok(o) => match &o.end {
            End::Ok => Obs::Ran { stdout: norm_numbers(&o.stdout_str()), code: None, ok: true },
            End::Err { code, .. } => Obs::Ran { stdout: norm_numbers(&o.stdout_str()), code: *code, ok: false },
            End::Panic(p) => Obs::Other(format!("panic:run:{}", p.sig())),
            End::Budget => Obs::Other("budget".into()),
        },
    }
}

fn obs_json(o: &Obs) -> Value {
    match o {
        Obs::Rejected(c) => json!({"rejected": c}),
        Obs::Ran { stdout, code, ok } => json!({"stdout": stdout, "error_code": code, "ok": ok}),
        Obs::Other(s) => json!({"other": s}),
    }
}

/// The relation between `CONST c = e : PRINT c` (p1) and `PRINT e` (p2).
fn related(p1: &Obs, p2: &Obs) -> Result<(), &'static str> {
    match (p1, p2) {
        (Obs::Rejected(c), Obs::Ran { code: Some(6), .. }) if c == "lint:Overflow" => Ok(()),
        (Obs::Rejected(c), Obs::Ran { code: Some(11), .. }) if c == "lint:DivisionByZero" => Ok(()),
        // the expression fails the same way at run time (whether it should is another property's business)
        (Obs::Rejected(c), Obs::Ran { code: Some(13), .. }) if c == "lint:TypeMismatch" => Ok(()),
        (Obs::Rejected(c), _) if c == "lint:Overflow" || c == "lint:DivisionByZero" => Err("constant rejected for overflow / division by zero although evaluating the expression at run time does not raise that error"),
        (Obs::Rejected(_), Obs::Rejected(_)) => Ok(()), // the expression itself is not accepted: outside the property
        (Obs::Rejected(_), _) => Err("constant definition rejected although the checker accepts the expression and it evaluates at run time"),
        (Obs::Ran { stdout: a, ok: true, .. }, Obs::Ran { stdout: b, ok: true, .. }) => {
            if a == b { Ok(()) } else { Err("PRINT c prints something else than PRINT e") }
        }
        (Obs::Ran { ok: true, .. }, Obs::Ran { code: Some(c), .. }) if *c == 6 || *c == 11 => Err("constant accepted although evaluating the expression at run time raises overflow / division by zero"),
        (Obs::Ran { .. }, Obs::Rejected(_)) => Err("constant accepted although the checker rejects the bare expression"),
        (a, b) if a == b => Ok(()),
        _ => Err("constant program and expression program behave differently"),
    }
}

struct Case {
    /// definitions of earlier constants (may be empty)
    prelude: String,
    name: String,
    expr: String,
    in_sub: bool,
    is_string: bool,
    /// in the SUB variant: the earlier constants are defined inside the SUB and shadow global constants of the same names
    shadow: bool,
}

impl Case {
    fn wrap(&self, body: &str) -> String {
        if self.in_sub {
            format!("{}Probe\nSUB Probe\n{}END SUB\n", self.prelude_global(), indent(&format!("{}{}", self.prelude_local(), body)))
        } else {
            format!("{}{}", self.prelude, body)
        }
    }
    fn prelude_global(&self) -> String {
        if !self.shadow {
            // in the sub variant the earlier constants stay global, the constant under test is local
            return self.prelude.clone();
        }
        // global constants of the same names with other values: the SUB's own definitions must win
        self.prelude
            .lines()
            .filter_map(|l| l.strip_prefix("CONST ").and_then(|r| r.split_once(" = ")).map(|(n, _)| n.to_string()))
            .map(|n| if n.ends_with('$') { format!("CONST {} = \"zz\"\n", n) } else { format!("CONST {} = 77\n", n) })
            .collect()
    }
    fn prelude_local(&self) -> String {
        if self.shadow { self.prelude.clone() } else { String::new() }
    }
    fn p1(&self) -> String {
        self.wrap(&format!("CONST {} = {}\nPRINT {}\n", self.name, self.expr, self.name))
    }
    fn p2(&self) -> String {
        // a suffixed constant is e converted to the suffix type: the run-time counterpart is a variable of that type
        match self.name.chars().last() {
            Some(q @ ('%' | '&' | '!' | '#')) if !self.is_string => self.wrap(&format!("ZV{} = {}\nPRINT ZV{}\n", q, self.expr, q)),
            _ => self.wrap(&format!("PRINT {}\n", self.expr)),
        }
    }
    /// a program using the constant several times / the same with every use replaced by (e)
    fn p3(&self, substituted: bool) -> String {
        let c = if substituted { format!("({})", self.expr) } else { self.name.clone() };
        let def = if substituted { String::new() } else { format!("CONST {} = {}\n", self.name, self.expr) };
        let body = if self.is_string {
            format!("{}A$ = {} + \"x\"\nPRINT A$; LEN({})\nIF {} = \"a\" THEN PRINT \"is a\" ELSE PRINT \"not a\"\n", def, c, c, c)
        } else {
            format!("{}X# = {} * 2\nPRINT X#; {} + 1\nIF {} > 0 THEN PRINT \"pos\" ELSE PRINT \"nonpos\"\nSELECT CASE 1\nCASE {}\nPRINT \"one\"\nCASE ELSE\nPRINT \"other\"\nEND SELECT\n", def, c, c, c, c)
        };
        self.wrap(&body)
    }
    fn inputs(&self) -> Value {
        json!({"prelude": self.prelude, "name": self.name, "expr": self.expr, "in_sub": self.in_sub, "is_string": self.is_string, "shadow": self.shadow})
    }
    fn from_inputs(v: &Value) -> Case {
        Case {
            prelude: v["prelude"].as_str().unwrap_or("").to_string(),
            name: v["name"].as_str().unwrap_or("C").to_string(),
            expr: v["expr"].as_str().unwrap_or("1").to_string(),
            in_sub: v["in_sub"].as_bool().unwrap_or(false),
            is_string: v["is_string"].as_bool().unwrap_or(false),
            shadow: v["shadow"].as_bool().unwrap_or(false),
        }
    }
}

fn indent(s: &str) -> String {
    s.lines().map(|l| format!("  {}\n", l)).collect()
}

fn op_class(expr: &str) -> &'static str {
    if expr.contains(" AND ") || expr.contains(" OR ") || expr.contains("NOT ") {
        "logical"
    } else if expr.contains(" MOD ") {
        "mod"
    } else if expr.contains(" / ") {
        "division"
    } else if expr.contains('<') || expr.contains('>') || expr.contains(" = ") {
        "relational"
    } else {
        "arith"
    }
}

fn check(case: &Case) -> Result<(Obs, Obs), Violation> {
    let p1 = observe(&case.p1());
    let p2 = observe(&case.p2());
    let sig_tail = op_class(&case.expr);
    if let Obs::Other(s) = &p1 {
        if s.starts_with("panic") {
            return Err(Violation::new(format!("c14-{}", s), "constant definition made the implementation panic", case.inputs()).exp_obs(obs_json(&p2), obs_json(&p1)));
        }
    }
    if let Err(why) = related(&p1, &p2) {
        let kind = match (&p1, &p2) {
            (Obs::Rejected(c), _) => format!("rejected-{}", c.replace("lint:", "")),
            (Obs::Ran { ok: true, .. }, Obs::Ran { ok: true, .. }) => "value".to_string(),
            (Obs::Ran { ok: true, .. }, _) => "accepted".to_string(),
            _ => "other".to_string(),
        };
        return Err(Violation::new(format!("c14-p1p2:{}:{}", kind, sig_tail), why, case.inputs()).exp_obs(json!({"PRINT e": obs_json(&p2), "program": case.p2()}), json!({"CONST c = e : PRINT c": obs_json(&p1), "program": case.p1()})));
    }
    // substitution
    let suffixed = !case.is_string && case.name.ends_with(['%', '&', '!', '#']);
    if matches!(p1, Obs::Ran { ok: true, .. }) && !suffixed {
        let a = observe(&case.p3(false));
        let b = observe(&case.p3(true));
        if a != b {
            return Err(Violation::new(format!("c14-substitution:{}", sig_tail), "replacing every use of the constant by its defining expression in parentheses changes the program's behaviour", case.inputs()).exp_obs(json!({"with (e)": obs_json(&b), "program": case.p3(true)}), json!({"with c": obs_json(&a), "program": case.p3(false)})));
        }
        // type: exactly the suffix of the constant's type is accepted; converting e to that type loses nothing
        if !case.is_string && !case.name.ends_with(['%', '&', '!', '#']) {
            let mut accepted = vec![];
            for q in ['%', '&', '!', '#'] {
                let src = case.wrap(&format!("CONST {} = {}\nPRINT {}{}\n", case.name, case.expr, case.name, q));
                if let Obs::Ran { stdout, ok: true, .. } = observe(&src) {
                    accepted.push((q, stdout));
                }
            }
            if accepted.len() != 1 {
                return Err(Violation::new(format!("c14-type-suffixes:{}", sig_tail), "a bare constant must be referable through exactly one type suffix (its own type)", case.inputs()).exp_obs("exactly one of c%, c&, c!, c# accepted", json!(accepted)));
            }
            let (q, out) = &accepted[0];
            if let Obs::Ran { stdout, .. } = &p1 {
                if out != stdout {
                    return Err(Violation::new(format!("c14-type-suffix-value:{}", sig_tail), "the constant prints differently through its type suffix", case.inputs()).exp_obs(stdout.clone(), out.clone()));
                }
            }
            // a variable of that type holds the same value: e has a value of c's type
            let v = observe(&case.wrap(&format!("V{} = {}\nPRINT V{}\n", q, case.expr, q)));
            if let (Obs::Ran { stdout: a, ok: true, .. }, Obs::Ran { stdout: b, .. }) = (&v, &p1) {
                if a != b {
                    return Err(Violation::new(format!("c14-type-of-constant:{}:{}", q, sig_tail), format!("the constant has type {} but a variable of that type receives a different value from the same expression", q), case.inputs()).exp_obs(json!({"V = e : PRINT V": a}), json!({"PRINT c": b})));
                }
            }
        }
    }
    // a suffixed constant holds e converted to the suffix type, or is rejected exactly when that conversion overflows
    Ok((p1, p2))
}

fn one_case(sh: &mut Shard, tape: &[u32]) -> Result<(), Violation> {
    let mut g = G { t: Tape::new(tape), consts: vec![], ops: 0 };
    let mut prelude = String::new();
    let nprev = g.t.choose(3);
    for k in 0..nprev {
        let is_s = g.t.chance(1, 4);
        let (name, e) = if is_s { (format!("PS{}$", k + 1), g.str(1)) } else { (format!("PC{}{}{}", k + 1, g.t.pick(&["", "", ".x"]), g.t.pick(&["", "", "%", "&", "!", "#"])), g.num(1)) };
        // earlier constants must be valid themselves: only keep accepted ones
        let def = format!("CONST {} = {}\n", name, e);
        if matches!(impl_run::front(&format!("{}{}", prelude, def)), Ok(_)) {
            prelude.push_str(&def);
            g.consts.push((name, is_s));
        }
    }
    g.ops = 0;
    let is_string = g.t.chance(1, 8);
    let depth = 1 + g.t.choose(4);
    let expr = if is_string { g.str(depth.min(3)) } else { g.num(depth) };
    let suffix = if is_string { "$" } else { *g.t.pick(&["", "", "", "%", "&", "!", "#"]) };
    let name = format!("{}{}", g.t.pick(&["CX", "Limit", "k", "Rate.Max"]), suffix);
    let in_sub = g.t.chance(1, 4);
    let shadow = in_sub && !prelude.is_empty() && g.t.chance(1, 2);
    let case = Case { prelude, name, expr, in_sub, is_string, shadow };
    sh.eval();
    sh.journal(&case.p1());
    let (p1, _p2) = check(&case)?;
    sh.class(match &p1 {
        Obs::Rejected(c) if c == "lint:Overflow" => "constant:rejected-overflow",
        Obs::Rejected(c) if c == "lint:DivisionByZero" => "constant:rejected-division-by-zero",
        Obs::Rejected(_) => "constant:rejected-other (expression not accepted either)",
        Obs::Ran { .. } => "constant:accepted",
        Obs::Other(_) => "constant:other",
    });
    sh.class(&format!("ops:{}", op_class(&case.expr)));
    sh.class(if case.shadow { "scope:sub-shadowing-global-constants" } else if case.in_sub { "scope:sub" } else { "scope:module" });
    sh.class(&format!("name-suffix:{}", if suffix.is_empty() { "bare" } else { suffix }));
    if g.ops >= 1 {
        sh.nontrivial(hash64(&(&case.prelude, &case.name, &case.expr, case.in_sub)));
    }
    sh.sample_sparse(503, || json!({"p1": case.p1(), "p2": case.p2()}));
    Ok(())
}

impl Prop for C14 {
    fn id(&self) -> &'static str {
        "C14"
    }
    fn rule(&self) -> &'static str {
        "Constant expressions over literals of all five types (incl. values at and around the INTEGER/LONG boundaries) and 0-2 earlier constants (bare and suffixed), with + - * / MOD, the six relational operators, AND OR NOT, unary minus and string concatenation/comparison, depth <= 5, defined at module level or inside a SUB, under a bare or suffixed name. For each: P1 = `CONST c = e : PRINT c`, P2 = `PRINT e`; P1 must be rejected for Overflow / Division by zero exactly when P2 raises 6 / 11 at run time, otherwise both print the same; a program using c four times behaves like the same program with (e) substituted; a bare constant is referable through exactly one type suffix and a variable of that type receives the same value from e. The implementation is compared with itself. Non-trivial = the expression has >= 1 operator; distinct by (earlier constants, name, expression, scope)."
    }
    fn assumptions(&self) -> Vec<&'static str> {
        vec!["expressions the checker rejects on their own (PRINT e rejected) are outside the property and only counted", "printed numbers are compared modulo an optional 0 before the decimal point"]
    }
    fn run(&self, sh: &mut Shard) {
        let cases = sh.share(sh.tier.pick(10_000, 300_000));
        sh.search(1, cases, 20, 120, |sh, tape| one_case(sh, tape));
    }
    fn replay(&self, _sh: &mut Shard, inputs: &Value) -> Result<(), Violation> {
        check(&Case::from_inputs(inputs)).map(|_| ())
    }
}

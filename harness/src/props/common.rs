//! Helpers shared by the pipeline-level properties.

use serde_json::{Value, json};

use crate::genr::print::Rendered;
use crate::impl_run::End;
use crate::refsem::{RefEnd, RefErr};

/// Normalises printed numbers: an optional `0` before the decimal point is ignored
/// (`0.5` vs `.5` is not pinned by the property statements).
pub fn norm_numbers(s: &str) -> String {
    let b: Vec<char> = s.chars().collect();
    let mut out = String::with_capacity(s.len());
    let mut i = 0;
    while i < b.len() {
        if b[i] == '0' && i + 2 < b.len() && b[i + 1] == '.' && b[i + 2].is_ascii_digit() && (i == 0 || b[i - 1] == ' ' || b[i - 1] == '-') {
            i += 1;
            continue;
        }
        out.push(b[i]);
        i += 1;
    }
    out
}

pub fn ref_end_json(e: &RefEnd) -> Value {
    match e {
        RefEnd::Ok => json!("ok"),
        RefEnd::Err(RefErr { code, paths, call_sites }) => json!({"code":code,"at":paths,"call_sites":call_sites}),
    }
}

/// Compares the implementation's ending with the reference's. Returns a description of the mismatch.
pub fn compare_end(exp: &RefEnd, obs: &End, r: &Rendered, check_pos: bool) -> Option<String> {
    match (exp, obs) {
        (RefEnd::Ok, End::Ok) => None,
        (RefEnd::Err(e), End::Err { code, pos, .. }) => {
            if *code != Some(e.code) {
                return Some(format!("error code: expected {}, observed {:?}", e.code, code));
            }
            if !check_pos {
                return None;
            }
            let Some((row, col)) = pos.first().copied() else { return Some("error without position".into()) };
            let mut ok = false;
            let mut want = vec![];
            for p in &e.paths {
                if let Some(site) = r.sites.get(p) {
                    want.push(format!("row {} cols {}..{}", site.row, site.col_start, site.col_end));
                    if site.row == row && col >= site.col_start && col <= site.col_end + 1 {
                        ok = true;
                    }
                }
            }
            if ok { None } else { Some(format!("error position: expected one of [{}], observed row {} col {}", want.join("; "), row, col)) }
        }
        (RefEnd::Ok, o) => Some(format!("expected normal end, observed {}", o.short())),
        (RefEnd::Err(e), o) => Some(format!("expected error {}, observed {}", e.code, o.short())),
    }
}

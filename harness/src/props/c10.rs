//! C10 — expressions group by standard precedence; literals keep exact value and type.
//!
//! Part (a): operator chains.  A chain is rendered to text; the ORACLE works from the text alone:
//! it re-tokenises the text, builds the expected tree with a precedence-climbing parser whose rank
//! table is copied from the property statement, and compares it node for node with the tree the
//! implementation's parser built (oracle 1) and the printed value with the value of the expected
//! tree (oracle 2).  Part (b): numeric literals, expected `Expression` variant and exact value.

use std::collections::BTreeMap;

use rusty_parser::{Expression, GlobalStatement, Operator, PrintArg, Program, Statement, UnaryOperator};
use serde_json::{Value, json};

use crate::engine::{Shard, Tape, Tier, Violation, hash64};
use crate::impl_run::{self, End, FrontErr, RunOpts};
use crate::props::Prop;

pub struct C10;

// ---------------------------------------------------------------------------------------------
// operators and ranks (from the property statement)
// ---------------------------------------------------------------------------------------------

#[derive(Clone, Copy, PartialEq, Eq, Debug, Hash)]
enum B {
    Mul,
    Div,
    Mod,
    Add,
    Sub,
    Eq,
    Ne,
    Lt,
    Le,
    Gt,
    Ge,
    And,
    Or,
}

const BINOPS: [B; 13] = [B::Mul, B::Div, B::Mod, B::Add, B::Sub, B::Eq, B::Ne, B::Lt, B::Le, B::Gt, B::Ge, B::And, B::Or];

#[derive(Clone, Copy, PartialEq, Eq, Debug, Hash)]
enum U {
    Neg,
    Not,
}

const RANK_NOT: u8 = 3;
const RANK_NEG: u8 = 8;

impl B {
    fn text(self) -> &'static str {
        match self {
            B::Mul => "*",
            B::Div => "/",
            B::Mod => "MOD",
            B::Add => "+",
            B::Sub => "-",
            B::Eq => "=",
            B::Ne => "<>",
            B::Lt => "<",
            B::Le => "<=",
            B::Gt => ">",
            B::Ge => ">=",
            B::And => "AND",
            B::Or => "OR",
        }
    }
    /// unary minus 8 > `* /` 7 > MOD 6 > `+ -` 5 > relational 4 > NOT 3 > AND 2 > OR 1
    fn rank(self) -> u8 {
        match self {
            B::Mul | B::Div => 7,
            B::Mod => 6,
            B::Add | B::Sub => 5,
            B::Eq | B::Ne | B::Lt | B::Le | B::Gt | B::Ge => 4,
            B::And => 2,
            B::Or => 1,
        }
    }
    fn cls(self) -> &'static str {
        match self.rank() {
            7 => "muldiv",
            6 => "mod",
            5 => "addsub",
            4 => "rel",
            2 => "and",
            _ => "or",
        }
    }
    fn from_impl(op: &Operator) -> B {
        match op {
            Operator::Less => B::Lt,
            Operator::LessOrEqual => B::Le,
            Operator::Equal => B::Eq,
            Operator::GreaterOrEqual => B::Ge,
            Operator::Greater => B::Gt,
            Operator::NotEqual => B::Ne,
            Operator::Plus => B::Add,
            Operator::Minus => B::Sub,
            Operator::Multiply => B::Mul,
            Operator::Divide => B::Div,
            Operator::Modulo => B::Mod,
            Operator::And => B::And,
            Operator::Or => B::Or,
        }
    }
}

impl U {
    fn rank(self) -> u8 {
        match self {
            U::Neg => RANK_NEG,
            U::Not => RANK_NOT,
        }
    }
    fn cls(self) -> &'static str {
        match self {
            U::Neg => "neg",
            U::Not => "not",
        }
    }
}

// ---------------------------------------------------------------------------------------------
// tokens, trees
// ---------------------------------------------------------------------------------------------

#[derive(Clone, Copy, PartialEq, Eq, Debug)]
enum Tok {
    Leaf(usize),
    Bin(B),
    Un(U),
    LP,
    RP,
}

#[derive(Clone, PartialEq, Eq, Debug, Hash)]
enum T {
    /// operand number k of a chain (generator side only)
    Leaf(usize),
    /// integer literal
    Lit(i64),
    /// variable `Q<v>%`, which holds the value v
    Var(i64),
    Un(U, Box<T>),
    Bin(B, Box<T>, Box<T>),
    Par(Box<T>),
    /// anything else the implementation produced
    Other(String),
}

/// Is a unary operator at this place determined by the statement's ranks?
/// chain start / after `(` / after a binary operator of lower rank / after a unary operator of rank <= its own
fn unary_legal(prev: Option<Tok>, u: U) -> bool {
    match prev {
        None | Some(Tok::LP) => true,
        Some(Tok::Bin(b)) => b.rank() < u.rank(),
        Some(Tok::Un(p)) => u.rank() >= p.rank(),
        Some(Tok::Leaf(_)) | Some(Tok::RP) => false,
    }
}

fn tokens_legal(toks: &[Tok]) -> bool {
    let mut prev: Option<Tok> = None;
    for t in toks {
        if let Tok::Un(u) = t {
            if !unary_legal(prev, *u) {
                return false;
            }
        }
        prev = Some(*t);
    }
    true
}

/// Reference parser: precedence climbing, ranks from the statement, equal ranks group left.
struct RefParser<'a> {
    toks: &'a [Tok],
    pos: usize,
}

impl<'a> RefParser<'a> {
    fn parse(toks: &'a [Tok]) -> Result<T, String> {
        let mut p = RefParser { toks, pos: 0 };
        let t = p.expr(0)?;
        if p.pos != toks.len() {
            return Err(format!("trailing tokens at {}", p.pos));
        }
        Ok(t)
    }
    fn expr(&mut self, min_rank: u8) -> Result<T, String> {
        let mut lhs = self.prefix()?;
        while let Some(Tok::Bin(op)) = self.toks.get(self.pos).copied() {
            if op.rank() < min_rank {
                break;
            }
            self.pos += 1;
            let rhs = self.expr(op.rank() + 1)?;
            lhs = T::Bin(op, Box::new(lhs), Box::new(rhs));
        }
        Ok(lhs)
    }
    fn prefix(&mut self) -> Result<T, String> {
        match self.toks.get(self.pos).copied() {
            Some(Tok::Un(u)) => {
                self.pos += 1;
                let operand = self.expr(u.rank() + 1)?;
                Ok(T::Un(u, Box::new(operand)))
            }
            Some(Tok::LP) => {
                self.pos += 1;
                let e = self.expr(0)?;
                if self.toks.get(self.pos) != Some(&Tok::RP) {
                    return Err("missing )".into());
                }
                self.pos += 1;
                Ok(T::Par(Box::new(e)))
            }
            Some(Tok::Leaf(k)) => {
                self.pos += 1;
                Ok(T::Leaf(k))
            }
            other => Err(format!("unexpected token {:?} at {}", other, self.pos)),
        }
    }
}

fn concretise(t: &T, leaves: &[T]) -> T {
    match t {
        T::Leaf(k) => leaves[*k].clone(),
        T::Un(u, c) => T::Un(*u, Box::new(concretise(c, leaves))),
        T::Bin(b, l, r) => T::Bin(*b, Box::new(concretise(l, leaves)), Box::new(concretise(r, leaves))),
        T::Par(c) => T::Par(Box::new(concretise(c, leaves))),
        x => x.clone(),
    }
}

/// `-` applied to a literal is the negative literal (the implementation folds it at parse time; the
/// mapping is applied to both trees so that it does not matter who folds).
fn fold_neg(t: T) -> T {
    match t {
        T::Un(u, c) => {
            let c = fold_neg(*c);
            match (u, c) {
                (U::Neg, T::Lit(v)) => T::Lit(-v),
                (u, c) => T::Un(u, Box::new(c)),
            }
        }
        T::Bin(b, l, r) => T::Bin(b, Box::new(fold_neg(*l)), Box::new(fold_neg(*r))),
        T::Par(c) => T::Par(Box::new(fold_neg(*c))),
        x => x,
    }
}

fn norm_assoc(op: B, l: T, r: T) -> T {
    match r {
        T::Bin(q, rl, rr) if q == op => {
            let inner = norm_assoc(op, l, *rl);
            norm_assoc(op, inner, *rr)
        }
        r => T::Bin(op, Box::new(l), Box::new(r)),
    }
}

fn push_neg(t: T) -> T {
    match t {
        T::Bin(q, l, r) if matches!(q, B::Mul | B::Div | B::Mod) => T::Bin(q, Box::new(push_neg(*l)), r),
        T::Lit(v) => T::Lit(-v),
        x => T::Un(U::Neg, Box::new(x)),
    }
}

/// Regroupings that cannot change any value: x AND (y AND z) = (x AND y) AND z, same for OR (bitwise
/// operators are associative and operands are still evaluated left to right); -(x*y) = (-x)*y,
/// -(x/y) = (-x)/y, -(x MOD y) = (-x) MOD y (truncating remainder takes the sign of the dividend).
/// The statement speaks of evaluation "as if" parenthesised, so these differences are not failures.
fn benign_norm(t: T) -> T {
    match t {
        T::Un(u, c) => {
            let c = benign_norm(*c);
            if u == U::Neg {
                if let T::Bin(q, _, _) = &c {
                    if matches!(q, B::Mul | B::Div | B::Mod) {
                        return push_neg(c);
                    }
                }
            }
            T::Un(u, Box::new(c))
        }
        T::Bin(b, l, r) => {
            let l = benign_norm(*l);
            let r = benign_norm(*r);
            if matches!(b, B::And | B::Or) { norm_assoc(b, l, r) } else { T::Bin(b, Box::new(l), Box::new(r)) }
        }
        T::Par(c) => T::Par(Box::new(benign_norm(*c))),
        x => x,
    }
}

/// Local rank inversions of a tree (each names one operator-pair pattern that is grouped against the ranks).
/// A tree over a given token sequence has no inversion iff it is the reference tree.
fn inversions(t: &T, out: &mut Vec<String>) {
    match t {
        T::Bin(p, l, r) => {
            if let T::Bin(q, _, _) = &**r {
                if q.rank() <= p.rank() {
                    out.push(format!("grouping:{}-then-{}:right-grouped", p.cls(), q.cls()));
                }
            }
            if let T::Bin(q, _, _) = &**l {
                if q.rank() < p.rank() {
                    out.push(format!("grouping:{}-then-{}:left-grouped", q.cls(), p.cls()));
                }
            }
            if let T::Un(u, _) = &**l {
                if u.rank() < p.rank() {
                    out.push(format!("grouping:{}-then-{}:unary-released", u.cls(), p.cls()));
                }
            }
            if let T::Un(u, _) = &**r {
                if u.rank() < p.rank() {
                    out.push(format!("grouping:{}-after-{}:unary-operand", u.cls(), p.cls()));
                }
            }
            inversions(l, out);
            inversions(r, out);
        }
        T::Un(u, c) => {
            if let T::Bin(q, _, _) = &**c {
                if q.rank() < u.rank() {
                    out.push(format!("grouping:{}-then-{}:unary-captures", u.cls(), q.cls()));
                }
            }
            if let T::Un(v, _) = &**c {
                if v.rank() < u.rank() {
                    out.push(format!("grouping:{}-then-{}:unary-captures", u.cls(), v.cls()));
                }
            }
            inversions(c, out);
        }
        T::Par(c) => inversions(c, out),
        _ => {}
    }
}

fn show(t: &T) -> String {
    match t {
        T::Leaf(k) => format!("x{}", k),
        T::Lit(v) => v.to_string(),
        T::Var(v) => format!("Q{}%", v),
        T::Un(U::Neg, c) => format!("[-{}]", show(c)),
        T::Un(U::Not, c) => format!("[NOT {}]", show(c)),
        T::Bin(b, l, r) => format!("[{} {} {}]", show(l), b.text(), show(r)),
        T::Par(c) => format!("({})", show(c)),
        T::Other(s) => format!("<{}>", s),
    }
}

// ---------------------------------------------------------------------------------------------
// evaluation of a tree (integers only; every intermediate must stay inside INTEGER)
// ---------------------------------------------------------------------------------------------

#[derive(Clone, Copy, PartialEq, Eq, Debug)]
enum EvalErr {
    DivZero,
    Inexact,
    Range,
    Other,
}

fn in_i16(v: i64) -> Result<i64, EvalErr> {
    if (-32768..=32767).contains(&v) { Ok(v) } else { Err(EvalErr::Range) }
}

fn apply_bin(b: B, x: i64, y: i64) -> Result<i64, EvalErr> {
    let tf = |c: bool| if c { -1 } else { 0 };
    let v = match b {
        B::Mul => x * y,
        B::Div => {
            if y == 0 {
                return Err(EvalErr::DivZero);
            }
            if x % y != 0 {
                return Err(EvalErr::Inexact);
            }
            x / y
        }
        B::Mod => {
            if y == 0 {
                return Err(EvalErr::DivZero);
            }
            x % y
        }
        B::Add => x + y,
        B::Sub => x - y,
        B::Eq => tf(x == y),
        B::Ne => tf(x != y),
        B::Lt => tf(x < y),
        B::Le => tf(x <= y),
        B::Gt => tf(x > y),
        B::Ge => tf(x >= y),
        B::And => ((x as i16) & (y as i16)) as i64,
        B::Or => ((x as i16) | (y as i16)) as i64,
    };
    in_i16(v)
}

fn eval(t: &T, vals: &[i64]) -> Result<i64, EvalErr> {
    match t {
        T::Leaf(k) => Ok(vals[*k]),
        T::Lit(v) | T::Var(v) => in_i16(*v),
        T::Un(U::Neg, c) => in_i16(-eval(c, vals)?),
        T::Un(U::Not, c) => Ok(!(eval(c, vals)? as i16) as i64),
        T::Bin(b, l, r) => {
            let x = eval(l, vals)?;
            let y = eval(r, vals)?;
            apply_bin(*b, x, y)
        }
        T::Par(c) => eval(c, vals),
        T::Other(_) => Err(EvalErr::Other),
    }
}

struct Rng(u64);

impl Rng {
    fn next(&mut self) -> u64 {
        self.0 = self.0.wrapping_add(0x9E3779B97F4A7C15);
        let mut z = self.0;
        z = (z ^ (z >> 30)).wrapping_mul(0xBF58476D1CE4E5B9);
        z = (z ^ (z >> 27)).wrapping_mul(0x94D049BB133111EB);
        z ^ (z >> 31)
    }
    fn below(&mut self, n: u64) -> u64 {
        (self.next() >> 20) % n
    }
}

/// Evaluates like `eval`, but repairs an inexact division whose divisor is a single operand by
/// replacing that operand with a divisor of the dividend (operands are used once, left to right).
fn eval_fix(t: &T, vals: &mut [i64], rng: &mut Rng) -> Result<i64, EvalErr> {
    match t {
        T::Bin(B::Div, l, r) => {
            let x = eval_fix(l, vals, rng)?;
            if let T::Leaf(k) = &**r {
                if x != 0 && x % vals[*k] != 0 {
                    let divs: Vec<i64> = (2..=12).filter(|d| x % d == 0).collect();
                    vals[*k] = if divs.is_empty() { 1 } else { divs[rng.below(divs.len() as u64) as usize] };
                }
            }
            let y = eval_fix(r, vals, rng)?;
            apply_bin(B::Div, x, y)
        }
        T::Bin(b, l, r) => {
            let x = eval_fix(l, vals, rng)?;
            let y = eval_fix(r, vals, rng)?;
            apply_bin(*b, x, y)
        }
        T::Un(U::Neg, c) => in_i16(-eval_fix(c, vals, rng)?),
        T::Un(U::Not, c) => Ok(!(eval_fix(c, vals, rng)? as i16) as i64),
        T::Par(c) => eval_fix(c, vals, rng),
        other => eval(other, vals),
    }
}

/// All trees one local regrouping away from `t` (used only to pick operand values that tell groupings apart).
fn neighbours(t: &T) -> Vec<T> {
    let mut out = vec![];
    match t {
        T::Bin(p, l, r) => {
            if let T::Bin(q, rl, rr) = &**r {
                out.push(T::Bin(*q, Box::new(T::Bin(*p, l.clone(), rl.clone())), rr.clone()));
            }
            if let T::Bin(q, ll, lr) = &**l {
                out.push(T::Bin(*q, ll.clone(), Box::new(T::Bin(*p, lr.clone(), r.clone()))));
            }
            if let T::Un(u, x) = &**l {
                out.push(T::Un(*u, Box::new(T::Bin(*p, x.clone(), r.clone()))));
            }
            for v in neighbours(l) {
                out.push(T::Bin(*p, Box::new(v), r.clone()));
            }
            for v in neighbours(r) {
                out.push(T::Bin(*p, l.clone(), Box::new(v)));
            }
        }
        T::Un(u, c) => {
            if let T::Bin(p, l, r) = &**c {
                out.push(T::Bin(*p, Box::new(T::Un(*u, l.clone())), r.clone()));
            }
            for v in neighbours(c) {
                out.push(T::Un(*u, Box::new(v)));
            }
        }
        T::Par(c) => {
            for v in neighbours(c) {
                out.push(T::Par(Box::new(v)));
            }
        }
        _ => {}
    }
    out
}

/// Operand values in 1..=12 for which the reference tree evaluates inside INTEGER with whole quotients and
/// differs from as many neighbouring groupings as possible. None: no admissible values found.
fn choose_values(rt: &T, nleaf: usize, seed: u64, tries: u32) -> Option<(Vec<i64>, usize, usize)> {
    let alts = neighbours(rt);
    let mut best: Option<(Vec<i64>, usize)> = None;
    for t in 0..tries {
        let mut rng = Rng(seed ^ (t as u64).wrapping_mul(0xD6E8FEB86659FD93));
        let mut vals: Vec<i64> = (0..nleaf).map(|_| 1 + rng.below(12) as i64).collect();
        let Ok(v) = eval_fix(rt, &mut vals, &mut rng) else { continue };
        let score = alts.iter().filter(|a| eval(a, &vals) != Ok(v)).count();
        if score == alts.len() {
            return Some((vals, score, alts.len()));
        }
        if best.as_ref().map(|b| score > b.1).unwrap_or(true) {
            best = Some((vals, score));
        }
    }
    best.map(|(v, s)| (v, s, alts.len()))
}

// ---------------------------------------------------------------------------------------------
// oracle side: from the rendered text of a chain to the expected tree and value
// ---------------------------------------------------------------------------------------------

/// Tokenises the text of a chain (as rendered by this module or written by hand for a replay).
fn tokenise(text: &str) -> Result<(Vec<Tok>, Vec<T>), String> {
    let b = text.as_bytes();
    let mut i = 0;
    let mut toks: Vec<Tok> = vec![];
    let mut leaves: Vec<T> = vec![];
    while i < b.len() {
        let c = b[i] as char;
        if c == ' ' {
            i += 1;
            continue;
        }
        let operand_before = matches!(toks.last(), Some(Tok::Leaf(_)) | Some(Tok::RP));
        if c.is_ascii_digit() {
            let s = i;
            while i < b.len() && (b[i] as char).is_ascii_digit() {
                i += 1;
            }
            let v: i64 = text[s..i].parse().map_err(|_| "number".to_string())?;
            toks.push(Tok::Leaf(leaves.len()));
            leaves.push(T::Lit(v));
            continue;
        }
        if c.is_ascii_alphabetic() {
            let s = i;
            while i < b.len() && ((b[i] as char).is_ascii_alphanumeric() || b[i] == b'%') {
                i += 1;
            }
            let w = text[s..i].to_ascii_uppercase();
            match w.as_str() {
                "NOT" => toks.push(Tok::Un(U::Not)),
                "MOD" => toks.push(Tok::Bin(B::Mod)),
                "AND" => toks.push(Tok::Bin(B::And)),
                "OR" => toks.push(Tok::Bin(B::Or)),
                _ => {
                    let v = w.strip_prefix('Q').and_then(|r| r.strip_suffix('%')).and_then(|d| d.parse::<i64>().ok());
                    match v {
                        Some(v) if (1..=12).contains(&v) => {
                            toks.push(Tok::Leaf(leaves.len()));
                            leaves.push(T::Var(v));
                        }
                        _ => return Err(format!("unknown word {}", w)),
                    }
                }
            }
            continue;
        }
        let two = if i + 1 < b.len() { &text[i..i + 2] } else { "" };
        let (tok, len) = match (c, two) {
            (_, "<=") => (Tok::Bin(B::Le), 2),
            (_, ">=") => (Tok::Bin(B::Ge), 2),
            (_, "<>") => (Tok::Bin(B::Ne), 2),
            ('<', _) => (Tok::Bin(B::Lt), 1),
            ('>', _) => (Tok::Bin(B::Gt), 1),
            ('=', _) => (Tok::Bin(B::Eq), 1),
            ('+', _) => (Tok::Bin(B::Add), 1),
            ('*', _) => (Tok::Bin(B::Mul), 1),
            ('/', _) => (Tok::Bin(B::Div), 1),
            ('(', _) => (Tok::LP, 1),
            (')', _) => (Tok::RP, 1),
            ('-', _) => (if operand_before { Tok::Bin(B::Sub) } else { Tok::Un(U::Neg) }, 1),
            _ => return Err(format!("unexpected character {:?}", c)),
        };
        toks.push(tok);
        i += len;
    }
    Ok((toks, leaves))
}

#[derive(Clone)]
struct ChainLine {
    text: String,
    n_bin: usize,
    n_un: usize,
    /// expected tree with concrete leaves, `-literal` folded
    exp: T,
    /// value of the expected tree, if it is admissible (inside INTEGER, whole quotients, no zero divisor)
    value: Option<i64>,
}

/// Err: the statement does not determine this text (or it is not a chain at all).
fn analyse_chain(text: &str) -> Result<ChainLine, String> {
    let (toks, leaves) = tokenise(text)?;
    if !tokens_legal(&toks) {
        return Err("a unary operator stands where the stated ranks do not determine its operand".into());
    }
    let rt = RefParser::parse(&toks)?;
    let exp = fold_neg(concretise(&rt, &leaves));
    let value = eval(&exp, &[]).ok();
    Ok(ChainLine {
        text: text.to_string(),
        n_bin: toks.iter().filter(|t| matches!(t, Tok::Bin(_))).count(),
        n_un: toks.iter().filter(|t| matches!(t, Tok::Un(_))).count(),
        exp,
        value,
    })
}

// ---------------------------------------------------------------------------------------------
// implementation side
// ---------------------------------------------------------------------------------------------

fn from_expr(e: &Expression) -> T {
    match e {
        Expression::IntegerLiteral(v) => T::Lit(*v as i64),
        Expression::LongLiteral(v) => T::Lit(*v),
        Expression::Variable(name, _) => {
            let s = name.to_string().to_ascii_uppercase();
            match s.strip_prefix('Q').and_then(|r| r.strip_suffix('%')).and_then(|d| d.parse::<i64>().ok()) {
                Some(v) => T::Var(v),
                None => T::Other(format!("variable {}", s)),
            }
        }
        Expression::BinaryExpression(op, l, r, _) => T::Bin(B::from_impl(op), Box::new(from_expr(&l.element)), Box::new(from_expr(&r.element))),
        Expression::UnaryExpression(op, c) => {
            let u = match op {
                UnaryOperator::Minus => U::Neg,
                UnaryOperator::Not => U::Not,
            };
            T::Un(u, Box::new(from_expr(&c.element)))
        }
        Expression::Parenthesis(c) => T::Par(Box::new(from_expr(&c.element))),
        other => {
            let d = format!("{:?}", other);
            T::Other(d.chars().take(60).collect())
        }
    }
}

/// The expression of a `PRINT <expr>` or `X = <expr>` statement.
fn stmt_expr(gs: &GlobalStatement) -> Option<&Expression> {
    match gs {
        GlobalStatement::Statement(Statement::Print(p)) => {
            if p.args.len() == 1 {
                if let PrintArg::Expression(e) = &p.args[0] {
                    return Some(&e.element);
                }
            }
            None
        }
        GlobalStatement::Statement(Statement::Assignment(a)) => Some(&a.rvalue().element),
        _ => None,
    }
}

const PRE_ROWS: usize = 12;

fn preamble() -> String {
    let mut s = String::new();
    for v in 1..=12 {
        s.push_str(&format!("Q{}% = {}\n", v, v));
    }
    s
}

fn fmt_int(i: i64) -> String {
    if i < 0 { format!("{} ", i) } else { format!(" {} ", i) }
}

fn chain_inputs(l: &ChainLine) -> Value {
    json!({"kind":"chain","expr":l.text,"program":format!("{}PRINT {}\n", preamble(), l.text)})
}

/// Outcome counters of one batch (flushed into the shard's class histogram by the caller).
#[derive(Default)]
struct Tally {
    m: BTreeMap<String, u64>,
    d: BTreeMap<String, u64>,
}

impl Tally {
    fn class(&mut self, k: &str) {
        *self.m.entry(k.to_string()).or_insert(0) += 1;
    }
    fn discard(&mut self, k: &str) {
        *self.d.entry(k.to_string()).or_insert(0) += 1;
    }
    fn flush(self, sh: &mut Shard) {
        for (k, n) in self.m {
            sh.class_n(&k, n);
        }
        for (k, n) in self.d {
            for _ in 0..n {
                sh.discard(&k);
            }
        }
    }
}

/// Tree oracle for one line. Ok(true): same tree; Ok(false): differs only by a value-preserving regrouping.
fn compare_trees(l: &ChainLine, got: &T) -> Result<bool, Vec<Violation>> {
    if *got == l.exp {
        return Ok(true);
    }
    let gn = benign_norm(got.clone());
    let en = benign_norm(l.exp.clone());
    if gn == en {
        return Ok(false);
    }
    // classify on the tree as parsed; patterns that are harmless on their own (see benign_norm) are named only
    // when nothing else explains the difference (e.g. `a / -b / c + d` parsed as `a / (-(b / c)) + d`)
    let mut all = vec![];
    inversions(got, &mut all);
    all.sort();
    all.dedup();
    let harmless = |s: &String| {
        matches!(s.as_str(), "grouping:and-then-and:right-grouped" | "grouping:or-then-or:right-grouped" | "grouping:neg-then-muldiv:unary-captures" | "grouping:neg-then-mod:unary-captures")
    };
    let mut inv: Vec<String> = all.iter().filter(|s| !harmless(s)).cloned().collect();
    if inv.is_empty() {
        // AND/OR re-association is a pure equivalence; only a captured -(x*y) / -(x MOD y) can sit in a place where
        // it changes the grouping of its neighbours
        inv = all.iter().filter(|s| s.starts_with("grouping:neg-")).cloned().collect();
    }
    if inv.is_empty() {
        inversions(&gn, &mut inv);
        inv.sort();
        inv.dedup();
    }
    if inv.is_empty() {
        inv.push(if contains_other(&gn) { "tree:unexpected-node".to_string() } else { "grouping:unclassified".to_string() });
    }
    let exp_v = l.value;
    let got_v = eval(got, &[]);
    let effect = match (exp_v, got_v) {
        (Some(a), Ok(b)) if a == b => "same value for these operands".to_string(),
        (Some(a), Ok(b)) => format!("value {} instead of {}", b, a),
        (Some(a), Err(e)) => format!("{:?} instead of {}", e, a),
        (None, _) => "value not compared".to_string(),
    };
    Err(inv
        .into_iter()
        .map(|sig| {
            Violation::new(sig.clone(), format!("`{}` is not grouped by the stated ranks ({}); {}", l.text, sig, effect), chain_inputs(l))
                .exp_obs(json!({"tree": show(&l.exp), "value": exp_v}), json!({"tree": show(got), "value_of_that_grouping": format!("{:?}", got_v)}))
        })
        .collect())
}

fn contains_other(t: &T) -> bool {
    match t {
        T::Other(_) => true,
        T::Un(_, c) | T::Par(c) => contains_other(c),
        T::Bin(_, l, r) => contains_other(l) || contains_other(r),
        _ => false,
    }
}

fn ops_classes(t: &T, out: &mut Vec<&'static str>) {
    match t {
        T::Un(u, c) => {
            out.push(u.cls());
            ops_classes(c, out);
        }
        T::Bin(b, l, r) => {
            out.push(b.cls());
            ops_classes(l, out);
            ops_classes(r, out);
        }
        T::Par(c) => ops_classes(c, out),
        _ => {}
    }
}

fn value_sig(prefix: &str, t: &T) -> String {
    let mut c = vec![];
    ops_classes(t, &mut c);
    c.sort();
    c.dedup();
    format!("{}:{}", prefix, c.join("+"))
}

/// Checks a batch of chains in as few programs as possible. `run_all`: also execute lines whose tree is wrong
/// (replay only; their output is reported, not judged a second time). Returns every violation found.
fn check_chains(sh: &mut Shard, lines: &[ChainLine], run_all: bool, tally: &mut Tally) -> Vec<Violation> {
    let mut viols: Vec<Violation> = vec![];
    let mut active: Vec<usize> = (0..lines.len()).collect();
    let mut attempts = 0;
    let program: Program = loop {
        if active.is_empty() {
            return viols;
        }
        let mut src = preamble();
        for i in &active {
            src.push_str("PRINT ");
            src.push_str(&lines[*i].text);
            src.push('\n');
        }
        sh.journal(&src);
        match impl_run::parse(&src) {
            Ok(p) => break p,
            Err(FrontErr::Parse { variant, debug, row, col }) => {
                let k = (row as usize).wrapping_sub(PRE_ROWS + 1);
                if k >= active.len() {
                    // not attributable to a line: infrastructure problem of this module
                    panic!("C10: parse error outside the chain lines: {} at {}:{}", debug, row, col);
                }
                let l = &lines[active[k]];
                tally.class("outcome:rejected-by-parser");
                viols.push(Violation::new(format!("chain-rejected:parse:{}", variant), format!("`{}` is rejected by the parser", l.text), chain_inputs(l)).exp_obs("accepted", json!({"error":debug,"col":col})));
                active.remove(k);
                attempts += 1;
                if attempts > 40 {
                    for _ in &active {
                        tally.discard("batch abandoned after 40 parser rejections");
                    }
                    return viols;
                }
            }
            Err(e) => {
                // parser panic (or lint error, impossible here): bisect
                if active.len() == 1 {
                    let l = &lines[active[0]];
                    tally.class("outcome:parser-panic");
                    viols.push(Violation::new(format!("chain-rejected:{}", e.class()), format!("`{}` makes the parser panic", l.text), chain_inputs(l)).exp_obs("accepted", e.to_json()));
                    return viols;
                }
                let sub: Vec<ChainLine> = active.iter().map(|i| lines[*i].clone()).collect();
                let (a, b) = sub.split_at(sub.len() / 2);
                viols.extend(check_chains(sh, a, run_all, tally));
                viols.extend(check_chains(sh, b, run_all, tally));
                return viols;
            }
        }
    };
    // oracle 1: trees
    let mut by_row: BTreeMap<usize, &GlobalStatement> = BTreeMap::new();
    for gs in &program {
        by_row.insert(gs.pos.row() as usize, &gs.element);
    }
    let mut runnable: Vec<usize> = vec![]; // indexes into `active`
    let mut tree_bad: Vec<bool> = vec![false; active.len()];
    for (k, i) in active.iter().enumerate() {
        let l = &lines[*i];
        let row = PRE_ROWS + k + 1;
        let Some(e) = by_row.get(&row).and_then(|gs| stmt_expr(gs)) else {
            tally.class("outcome:statement-not-a-print");
            viols.push(Violation::new("tree:statement-shape", format!("`PRINT {}` was not parsed as a PRINT of one expression", l.text), chain_inputs(l)).exp_obs("PRINT with one expression", format!("{:?}", by_row.get(&row)).chars().take(200).collect::<String>()));
            tree_bad[k] = true;
            continue;
        };
        let got = fold_neg(from_expr(e));
        match compare_trees(l, &got) {
            Ok(true) => tally.class("outcome:tree-identical"),
            Ok(false) => tally.class("outcome:tree-differs-by-value-preserving-regrouping"),
            Err(vs) => {
                tally.class("outcome:tree-mismatch");
                for v in &vs {
                    tally.class(&format!("mismatch:{}", v.sig));
                }
                viols.extend(vs);
                tree_bad[k] = true;
            }
        }
        if l.value.is_none() {
            tally.discard("value oracle skipped: no admissible operand values (INTEGER range / whole quotients)");
        } else if tree_bad[k] && !run_all {
            tally.class("value:not-run-tree-already-wrong");
        }
        if (l.value.is_some() && !tree_bad[k]) || run_all {
            runnable.push(k);
        }
    }
    // oracle 2: printed values
    let mut pending: Vec<usize> = runnable;
    let mut restarts = 0;
    while !pending.is_empty() {
        let rows: std::collections::BTreeSet<usize> = pending.iter().map(|k| PRE_ROWS + k + 1).collect();
        let prog: Program = program.iter().filter(|gs| (gs.pos.row() as usize) <= PRE_ROWS || rows.contains(&(gs.pos.row() as usize))).cloned().collect();
        let compiled = match impl_run::lint_program(prog).and_then(|(p, ctx)| impl_run::codegen(p, ctx)) {
            Ok(c) => c,
            Err(e) => {
                let row = e.pos().map(|p| p.0 as usize).unwrap_or(0);
                let k = row.wrapping_sub(PRE_ROWS + 1);
                if let Some(ix) = pending.iter().position(|x| *x == k) {
                    tally.discard(&format!("chain rejected after parsing ({}): outside the statement", e.class()));
                    pending.remove(ix);
                    restarts += 1;
                    if restarts > 40 {
                        for _ in &pending {
                            tally.discard("batch abandoned after 40 rejections");
                        }
                        break;
                    }
                    continue;
                }
                for _ in &pending {
                    tally.discard(&format!("batch not runnable ({})", e.class()));
                }
                break;
            }
        };
        let out = impl_run::run(compiled, &RunOpts::budget(200_000 + 2_000 * pending.len() as u64));
        let text = out.stdout_str();
        let mut printed: Vec<&str> = text.split("\r\n").collect();
        if printed.last() == Some(&"") {
            printed.pop();
        }
        let failed_row: Option<usize> = match &out.end {
            End::Err { pos, .. } => pos.first().map(|p| p.0 as usize),
            _ => None,
        };
        let mut consumed = 0;
        let mut next_pending: Vec<usize> = vec![];
        for (n, k) in pending.iter().enumerate() {
            let l = &lines[active[*k]];
            let row = PRE_ROWS + k + 1;
            if n < printed.len() {
                consumed = n + 1;
                if tree_bad[*k] {
                    // replay only: attach the printed value to the tree violations of this line
                    for v in viols.iter_mut().filter(|v| v.inputs["expr"] == json!(l.text)) {
                        if let Value::Object(m) = &mut v.observed {
                            m.insert("printed".into(), json!(printed[n]));
                        }
                    }
                    continue;
                }
                let want = fmt_int(l.value.unwrap());
                if printed[n] == want {
                    tally.class("outcome:value-equal");
                } else {
                    tally.class("outcome:value-differs");
                    viols.push(Violation::new(value_sig("value-mismatch", &l.exp), format!("`PRINT {}` prints {:?}, the stated grouping {} gives {:?} (tree was parsed as stated)", l.text, printed[n], show(&l.exp), want), chain_inputs(l)).exp_obs(want, printed[n]));
                }
                continue;
            }
            // not printed: the run stopped before this line
            if n == consumed && failed_row == Some(row) {
                if !tree_bad[*k] {
                    tally.class("outcome:value-runtime-error");
                    viols.push(Violation::new(value_sig("value-runtime-error", &l.exp), format!("`PRINT {}` stops with {} although the stated grouping {} evaluates to {}", l.text, out.end.short(), show(&l.exp), l.value.unwrap()), chain_inputs(l)).exp_obs(fmt_int(l.value.unwrap()), out.end.to_json()));
                } else {
                    for v in viols.iter_mut().filter(|v| v.inputs["expr"] == json!(l.text)) {
                        if let Value::Object(m) = &mut v.observed {
                            m.insert("run".into(), out.end.to_json());
                        }
                    }
                }
                continue;
            }
            next_pending.push(*k);
        }
        if next_pending.len() == pending.len() || matches!(out.end, End::Ok) && !next_pending.is_empty() {
            // nothing consumed or output shorter than expected without an error: cannot attribute
            match &out.end {
                End::Panic(p) => {
                    let l = &lines[active[next_pending[0]]];
                    viols.push(Violation::new(format!("value-run-panic:{}", p.sig()), format!("running `PRINT {}` (or a line after it) panics", l.text), chain_inputs(l)).exp_obs("no panic", out.end.to_json()));
                }
                End::Budget => {
                    for _ in &next_pending {
                        tally.discard("instruction budget exhausted (inconclusive)");
                    }
                }
                _ => {
                    let l = &lines[active[next_pending[0]]];
                    viols.push(Violation::new("value-output-shape", format!("program with `PRINT {}` printed fewer lines than PRINT statements", l.text), chain_inputs(l)).exp_obs(format!("{} lines", pending.len()), json!({"stdout": text, "end": out.end.to_json()})));
                }
            }
            break;
        }
        pending = next_pending;
    }
    viols
}

// ---------------------------------------------------------------------------------------------
// generator side: chains
// ---------------------------------------------------------------------------------------------

#[derive(Clone, Copy, PartialEq, Eq, Debug)]
enum Pre {
    Un(U),
    LP,
}

/// x0 op1 x1 ... opn xn; before operand k the items `pre[k]` (unary operators and opening parentheses, in
/// order), after it `post[k]` closing parentheses.
#[derive(Clone, Debug)]
struct Chain {
    ops: Vec<B>,
    pre: Vec<Vec<Pre>>,
    post: Vec<u8>,
}

impl Chain {
    fn plain(ops: &[B]) -> Chain {
        Chain { ops: ops.to_vec(), pre: vec![vec![]; ops.len() + 1], post: vec![0; ops.len() + 1] }
    }
    fn tokens(&self) -> Vec<Tok> {
        let mut t = vec![];
        for k in 0..=self.ops.len() {
            for p in &self.pre[k] {
                t.push(match p {
                    Pre::Un(u) => Tok::Un(*u),
                    Pre::LP => Tok::LP,
                });
            }
            t.push(Tok::Leaf(k));
            for _ in 0..self.post[k] {
                t.push(Tok::RP);
            }
            if k < self.ops.len() {
                t.push(Tok::Bin(self.ops[k]));
            }
        }
        t
    }
}

/// leaf_mode 0: integer literals, 1: INTEGER variables, 2: alternating
fn render(toks: &[Tok], vals: &[i64], leaf_mode: u8) -> String {
    let mut s = String::new();
    for t in toks {
        match t {
            Tok::Leaf(k) => {
                let lit = leaf_mode == 0 || (leaf_mode == 2 && k % 2 == 0);
                if lit { s.push_str(&vals[*k].to_string()) } else { s.push_str(&format!("Q{}%", vals[*k])) }
            }
            Tok::Bin(b) => {
                s.push(' ');
                s.push_str(b.text());
                s.push(' ');
            }
            // no blank after a unary minus: `- x` is a lexical matter outside this property (`--x` is accepted)
            Tok::Un(U::Neg) => s.push('-'),
            Tok::Un(U::Not) => s.push_str("NOT "),
            Tok::LP => s.push('('),
            Tok::RP => s.push(')'),
        }
    }
    s
}

/// Chooses operand values for the chain and renders it. The text is all the oracle gets.
fn realise(c: &Chain, seed: u64, leaf_mode: u8, tries: u32, tally: &mut Tally) -> String {
    let toks = c.tokens();
    let rt = RefParser::parse(&toks).expect("generated chain must be well formed");
    let n = c.ops.len() + 1;
    let vals = match choose_values(&rt, n, seed, tries) {
        Some((v, score, of)) => {
            if of > 0 {
                tally.class(if score == of { "operands:tell-all-neighbour-groupings-apart" } else if score > 0 { "operands:tell-some-neighbour-groupings-apart" } else { "operands:cannot-tell-groupings-apart" });
            }
            v
        }
        None => {
            let mut rng = Rng(seed);
            (0..n).map(|_| 1 + rng.below(12) as i64).collect()
        }
    };
    render(&toks, &vals, leaf_mode)
}

/// All sets of at most `max_pairs` distinct, non-crossing operand ranges (i<j) over `n_operands` operands.
fn paren_configs(n_operands: usize, max_pairs: usize) -> Vec<Vec<(usize, usize)>> {
    let mut ranges = vec![];
    for i in 0..n_operands {
        for j in i + 1..n_operands {
            ranges.push((i, j));
        }
    }
    let mut out = vec![vec![]];
    if max_pairs >= 1 {
        for r in &ranges {
            out.push(vec![*r]);
        }
    }
    if max_pairs >= 2 {
        for a in 0..ranges.len() {
            for b in a + 1..ranges.len() {
                let (p, q) = (ranges[a], ranges[b]);
                let disjoint = p.1 < q.0 || q.1 < p.0;
                let nested = (p.0 <= q.0 && q.1 <= p.1) || (q.0 <= p.0 && p.1 <= q.1);
                if disjoint || nested {
                    out.push(vec![p, q]);
                }
            }
        }
    }
    out
}

/// Every assignment of at most `max_unary` unary operators (at most one per operand; before or after the
/// parentheses that open at that operand) that is legal by `unary_legal`, on top of one parenthesis config.
fn unary_variants(ops: &[B], cfg: &[(usize, usize)], max_unary: usize, f: &mut dyn FnMut(Chain)) {
    let n = ops.len() + 1;
    let mut base = Chain::plain(ops);
    // outer ranges first so that nesting is rendered properly
    let mut cfg: Vec<(usize, usize)> = cfg.to_vec();
    cfg.sort_by_key(|r| (r.0, std::cmp::Reverse(r.1)));
    for (i, j) in &cfg {
        base.pre[*i].push(Pre::LP);
        base.post[*j] += 1;
    }
    fn rec(k: usize, n: usize, left: usize, cur: &mut Chain, f: &mut dyn FnMut(Chain)) {
        if k == n {
            f(cur.clone());
            return;
        }
        rec(k + 1, n, left, cur, f);
        if left == 0 {
            return;
        }
        let lps = cur.pre[k].len();
        let prev_outer: Option<Tok> = if k == 0 { None } else { Some(Tok::Bin(cur.ops[k - 1])) };
        for u in [U::Neg, U::Not] {
            // before the parentheses
            if unary_legal(prev_outer, u) {
                cur.pre[k].insert(0, Pre::Un(u));
                rec(k + 1, n, left - 1, cur, f);
                cur.pre[k].remove(0);
            }
            // after the parentheses (always legal: directly after `(`)
            if lps > 0 {
                cur.pre[k].push(Pre::Un(u));
                rec(k + 1, n, left - 1, cur, f);
                cur.pre[k].pop();
            }
        }
    }
    rec(0, n, max_unary, &mut base, f);
}

/// What is enumerated for a sequence of n operators (see `rule`).
struct Policy {
    /// (max parenthesis pairs, max unary operators) — the union of these products is enumerated completely
    full: Vec<(usize, usize)>,
    /// two-pair placements without unary operators: every `two_pair_stride`-th placement, offset rotating with the sequence index (0: none)
    two_pair_stride: u64,
}

fn policy(tier: Tier, n: usize) -> Policy {
    match (tier, n) {
        (_, 1) | (_, 2) => Policy { full: vec![(2, 3)], two_pair_stride: 0 },
        (Tier::Quick, 3) => Policy { full: vec![(2, 1), (1, 2), (0, 4)], two_pair_stride: 0 },
        (Tier::Thorough, 3) => Policy { full: vec![(2, 2), (1, 3), (0, 4)], two_pair_stride: 0 },
        (_, 4) => Policy { full: vec![(2, 0), (1, 1), (0, 2)], two_pair_stride: 0 },
        _ => Policy { full: vec![(1, 0), (0, 1)], two_pair_stride: 8 },
    }
}

fn enumerate_sequence(ops: &[B], pol: &Policy, seq_idx: u64, f: &mut dyn FnMut(Chain)) {
    let n_operands = ops.len() + 1;
    let max_pairs = pol.full.iter().map(|p| p.0).max().unwrap_or(0);
    for cfg in paren_configs(n_operands, max_pairs) {
        let max_unary = pol.full.iter().filter(|p| p.0 >= cfg.len()).map(|p| p.1).max();
        if let Some(mu) = max_unary {
            unary_variants(ops, &cfg, mu, f);
        }
    }
    if pol.two_pair_stride > 0 && max_pairs < 2 {
        let mut i = 0u64;
        for cfg in paren_configs(n_operands, 2) {
            if cfg.len() == 2 {
                if (i + seq_idx) % pol.two_pair_stride == 0 {
                    unary_variants(ops, &cfg, 0, f);
                }
                i += 1;
            }
        }
    }
}

fn sequence(mut code: u64, n: usize) -> Vec<B> {
    let mut v = vec![B::Mul; n];
    for k in (0..n).rev() {
        v[k] = BINOPS[(code % 13) as usize];
        code /= 13;
    }
    v
}

/// A random longer chain decoded from the tape: 1..=12 operators, up to 3 parenthesis pairs (also around a
/// single operand), 0..2 unary operators per operand wherever they are legal.
fn random_chain(t: &mut Tape) -> Chain {
    let n = 1 + t.choose(12);
    let ops: Vec<B> = (0..n).map(|_| BINOPS[t.choose(13)]).collect();
    let mut c = Chain::plain(&ops);
    let pairs = t.choose(4);
    let mut ranges: Vec<(usize, usize)> = vec![];
    for _ in 0..pairs {
        let i = t.choose(n + 1);
        let j = i + t.choose(n + 1 - i);
        let ok = ranges.iter().all(|q| {
            let p = (i, j);
            p != *q && (p.1 < q.0 || q.1 < p.0 || (p.0 <= q.0 && q.1 <= p.1) || (q.0 <= p.0 && p.1 <= q.1))
        });
        if ok {
            ranges.push((i, j));
        }
    }
    ranges.sort_by_key(|r| (r.0, std::cmp::Reverse(r.1)));
    for (i, j) in &ranges {
        c.pre[*i].push(Pre::LP);
        c.post[*j] += 1;
    }
    for k in 0..=n {
        let how = t.choose(8);
        let wanted: Vec<U> = match how {
            0..=4 => vec![],
            5 => vec![U::Neg],
            6 => vec![U::Not],
            _ => match t.choose(3) {
                0 => vec![U::Not, U::Neg],
                1 => vec![U::Not, U::Not],
                _ => vec![U::Neg, U::Neg],
            },
        };
        for u in wanted {
            // position among the items before operand k: 0 = outermost
            let at = t.choose(c.pre[k].len() + 1);
            let mut cand = c.pre[k].clone();
            cand.insert(at, Pre::Un(u));
            // legality of every unary in the candidate prefix
            let mut prev: Option<Tok> = if k == 0 { None } else { Some(Tok::Bin(c.ops[k - 1])) };
            let mut ok = true;
            for p in &cand {
                let tok = match p {
                    Pre::Un(u) => Tok::Un(*u),
                    Pre::LP => Tok::LP,
                };
                if let Tok::Un(u) = tok {
                    if !unary_legal(prev, u) {
                        ok = false;
                    }
                }
                prev = Some(tok);
            }
            if ok {
                c.pre[k] = cand;
            }
        }
    }
    c
}

// ---------------------------------------------------------------------------------------------
// literals
// ---------------------------------------------------------------------------------------------

#[derive(Clone, Copy, Debug, PartialEq)]
enum LitV {
    Int(i32),
    Long(i64),
    Single(f32),
    Double(f64),
}

impl LitV {
    fn type_name(&self) -> &'static str {
        match self {
            LitV::Int(_) => "INTEGER",
            LitV::Long(_) => "LONG",
            LitV::Single(_) => "SINGLE",
            LitV::Double(_) => "DOUBLE",
        }
    }
    fn as_f64(&self) -> f64 {
        match self {
            LitV::Int(v) => *v as f64,
            LitV::Long(v) => *v as f64,
            LitV::Single(v) => *v as f64,
            LitV::Double(v) => *v,
        }
    }
    fn as_int(&self) -> Option<i64> {
        match self {
            LitV::Int(v) => Some(*v as i64),
            LitV::Long(v) => Some(*v),
            _ => None,
        }
    }
    fn same(&self, o: &LitV) -> bool {
        match (self, o) {
            (LitV::Int(a), LitV::Int(b)) => a == b,
            (LitV::Long(a), LitV::Long(b)) => a == b,
            (LitV::Single(a), LitV::Single(b)) => a.to_bits() == b.to_bits(),
            (LitV::Double(a), LitV::Double(b)) => a.to_bits() == b.to_bits(),
            _ => false,
        }
    }
    fn show(&self) -> String {
        match self {
            LitV::Int(v) => format!("INTEGER {}", v),
            LitV::Long(v) => format!("LONG {}", v),
            LitV::Single(v) => format!("SINGLE {:e} (bits {:08x})", v, v.to_bits()),
            LitV::Double(v) => format!("DOUBLE {:e} (bits {:016x})", v, v.to_bits()),
        }
    }
}

#[derive(Clone)]
struct LitLine {
    text: String,
    neg: bool,
    class: &'static str,
    /// value and type of the literal itself (without the sign in front)
    exp: LitV,
    lower_prefix: bool,
    nontrivial: bool,
}

/// Expected type and value of a literal text by the statement's rule. Err: not covered by the statement.
fn analyse_literal(text: &str) -> Result<LitLine, String> {
    let (neg, body) = match text.strip_prefix('-') {
        Some(r) => (true, r),
        None => (false, text),
    };
    let near = |v: u128| [32767u128, 65535, 2147483647, 4294967295].iter().any(|b| v + 2 >= *b && v <= *b + 3);
    let mut lower_prefix = false;
    let (class, exp, nontrivial): (&'static str, LitV, bool) = if let Some(radix_body) = body.strip_prefix('&') {
        let mut ch = radix_body.chars();
        let r = ch.next().ok_or("radix")?;
        let digits: &str = ch.as_str();
        lower_prefix = r.is_ascii_lowercase();
        let radix = match r.to_ascii_uppercase() {
            'H' => 16,
            'O' => 8,
            _ => return Err("radix".into()),
        };
        if digits.is_empty() {
            return Err("no digits".into());
        }
        let v = u64::from_str_radix(digits, radix).map_err(|_| "digits".to_string())?;
        // significant bits after leading zeros
        let bits = 64 - v.leading_zeros();
        let lz = digits.starts_with('0') && digits.len() > 1;
        if bits <= 16 {
            (if radix == 16 { "hex16" } else { "oct16" }, LitV::Int((v as u16) as i16 as i32), lz || neg || near(v as u128))
        } else if bits <= 32 {
            (if radix == 16 { "hex32" } else { "oct32" }, LitV::Long((v as u32) as i32 as i64), lz || neg || near(v as u128))
        } else {
            return Err("more than 32 significant bits: not covered by the statement".into());
        }
    } else if body.contains('.') {
        let (num, dbl) = match body.strip_suffix('#') {
            Some(n) => (n, true),
            None => (body, false),
        };
        let (ip, fp) = num.split_once('.').ok_or("dot")?;
        if fp.is_empty() || !ip.chars().all(|c| c.is_ascii_digit()) || !fp.chars().all(|c| c.is_ascii_digit()) {
            return Err("fraction digits".into());
        }
        let canon = format!("{}.{}", if ip.is_empty() { "0" } else { ip }, fp);
        if dbl {
            ("frac-double", LitV::Double(canon.parse::<f64>().map_err(|_| "f64".to_string())?), true)
        } else {
            let f = canon.parse::<f32>().map_err(|_| "f32".to_string())?;
            if !f.is_finite() {
                return Err("beyond SINGLE".into());
            }
            ("frac-single", LitV::Single(f), true)
        }
    } else {
        if body.is_empty() || !body.chars().all(|c| c.is_ascii_digit()) || body.len() > 30 {
            return Err("decimal digits".into());
        }
        let v: u128 = body.parse().map_err(|_| "u128".to_string())?;
        let lz = body.starts_with('0') && body.len() > 1;
        if v <= 32767 {
            ("dec-int", LitV::Int(v as i32), lz || neg || near(v))
        } else if v <= 2147483647 {
            ("dec-long", LitV::Long(v as i64), lz || neg || near(v))
        } else {
            (if v <= 4294967295 { "dec-double-upto-u32" } else { "dec-double-above-u32" }, LitV::Double(body.parse::<f64>().map_err(|_| "f64".to_string())?), true)
        }
    };
    Ok(LitLine { text: text.to_string(), neg, class, exp, lower_prefix, nontrivial })
}

#[derive(Debug)]
enum LitObs {
    Folded(LitV),
    Negated(LitV),
    Other(String),
}

fn lit_of(e: &Expression) -> Option<LitV> {
    match e {
        Expression::IntegerLiteral(v) => Some(LitV::Int(*v)),
        Expression::LongLiteral(v) => Some(LitV::Long(*v)),
        Expression::SingleLiteral(v) => Some(LitV::Single(*v)),
        Expression::DoubleLiteral(v) => Some(LitV::Double(*v)),
        _ => None,
    }
}

fn lit_obs(e: &Expression) -> LitObs {
    if let Some(l) = lit_of(e) {
        return LitObs::Folded(l);
    }
    if let Expression::UnaryExpression(UnaryOperator::Minus, c) = e {
        if let Some(l) = lit_of(&c.element) {
            return LitObs::Negated(l);
        }
    }
    LitObs::Other(format!("{:?}", e).chars().take(80).collect())
}

fn lit_inputs(l: &LitLine, print: bool) -> Value {
    json!({"kind":"literal","text":l.text,"print":print,"program":format!("{}{}\n", if print { "PRINT " } else { "X = " }, l.text)})
}

/// Classifier for a wrong value: a floating literal of the right type that is the NEIGHBOUR of the nearest value
/// (magnitudes one unit in the last place apart) is a rounding failure, anything else a plain wrong value.
fn value_kind(exp: &LitV, got: &LitV) -> &'static str {
    let adjacent = match (exp, got) {
        (LitV::Single(a), LitV::Single(b)) => a.is_finite() && b.is_finite() && (a.abs().to_bits() as i64 - b.abs().to_bits() as i64).abs() == 1,
        (LitV::Double(a), LitV::Double(b)) => a.is_finite() && b.is_finite() && (a.abs().to_bits() as i128 - b.abs().to_bits() as i128).abs() == 1,
        _ => false,
    };
    if adjacent { "misrounded" } else { "value" }
}

/// The literal oracle for one parsed line.
fn judge_literal(l: &LitLine, obs: &LitObs, print: bool) -> Result<(), Violation> {
    let suffix = if l.neg { ":after-minus" } else { "" };
    let fail = |kind: &str, what: String, exp: String, got: String| Err(Violation::new(format!("literal-{}:{}{}", kind, l.class, suffix), what, lit_inputs(l, print)).exp_obs(exp, got));
    match obs {
        LitObs::Other(d) => fail("shape", format!("literal `{}` is not parsed as a literal", l.text), l.exp.show(), d.clone()),
        LitObs::Folded(got) if !l.neg => {
            if got.same(&l.exp) {
                Ok(())
            } else if got.as_f64() == l.exp.as_f64() && std::mem::discriminant(got) != std::mem::discriminant(&l.exp) {
                fail("type", format!("literal `{}` has type {} instead of {}", l.text, got.type_name(), l.exp.type_name()), l.exp.show(), got.show())
            } else {
                fail(value_kind(&l.exp, got), format!("literal `{}` does not denote its written value", l.text), l.exp.show(), got.show())
            }
        }
        LitObs::Negated(got) if l.neg => {
            if got.same(&l.exp) {
                Ok(())
            } else {
                fail(value_kind(&l.exp, got), format!("the literal after the minus sign in `{}` is wrong", l.text), format!("-({})", l.exp.show()), format!("-({})", got.show()))
            }
        }
        LitObs::Negated(got) => fail("shape", format!("literal `{}` parsed as a negation", l.text), l.exp.show(), format!("-({})", got.show())),
        LitObs::Folded(got) => {
            // sign folded into the literal: exact value; the type is asserted except at the type minimum
            let exact = match (l.exp.as_int(), got.as_int()) {
                (Some(a), Some(b)) => -a == b,
                (Some(a), None) => got.as_f64() == -(a as f64) && (a.unsigned_abs() < (1u64 << 53)),
                (None, _) => match (&l.exp, got) {
                    (LitV::Single(a), LitV::Single(b)) => (-*a).to_bits() == b.to_bits() || (*a == 0.0 && *b == 0.0),
                    (LitV::Double(a), LitV::Double(b)) => (-*a).to_bits() == b.to_bits() || (*a == 0.0 && *b == 0.0),
                    (a, b) => -a.as_f64() == b.as_f64(),
                },
            };
            if !exact {
                return fail(value_kind(&l.exp, got), format!("`{}` does not denote minus the written value", l.text), format!("-({})", l.exp.show()), got.show());
            }
            // whatever the type, the folded literal must be a value of that type (INTEGER 32768 does not exist)
            let in_range = match got {
                LitV::Int(v) => (-32768..=32767).contains(v),
                LitV::Long(v) => (-2147483648i64..=2147483647).contains(v),
                _ => true,
            };
            if !in_range {
                return fail("type", format!("`{}` is folded into a {} literal outside that type's range", l.text, got.type_name()), format!("-({})", l.exp.show()), got.show());
            }
            let mag = l.exp.as_f64().abs();
            let boundary = mag == 32768.0 || mag == 2147483648.0;
            if !boundary && std::mem::discriminant(got) != std::mem::discriminant(&l.exp) {
                return fail("type", format!("`{}` has type {} instead of {}", l.text, got.type_name(), l.exp.type_name()), format!("-({})", l.exp.show()), got.show());
            }
            Ok(())
        }
    }
}

/// Checks a batch of literals (`X = <lit>` lines; `PRINT <lit>` lines that are also run when `print`).
fn check_literals(sh: &mut Shard, lines: &[LitLine], print: bool, tally: &mut Tally) -> Vec<Violation> {
    let mut viols = vec![];
    let mut active: Vec<usize> = (0..lines.len()).collect();
    let mut attempts = 0;
    let program: Program = loop {
        if active.is_empty() {
            return viols;
        }
        let mut src = String::new();
        for i in &active {
            src.push_str(if print { "PRINT " } else { "X = " });
            src.push_str(&lines[*i].text);
            src.push('\n');
        }
        sh.journal(&src);
        match impl_run::parse(&src) {
            Ok(p) => break p,
            Err(FrontErr::Parse { debug, row, col, .. }) => {
                let k = (row as usize).wrapping_sub(1);
                if k >= active.len() {
                    panic!("C10: parse error outside the literal lines: {} at {}:{}", debug, row, col);
                }
                let l = &lines[active[k]];
                if l.lower_prefix {
                    tally.discard("lower-case &h/&o prefix not accepted (the statement does not require it)");
                } else {
                    tally.class(&format!("literal-outcome:rejected:{}", l.class));
                    viols.push(Violation::new(format!("literal-rejected:{}", l.class), format!("literal `{}` ({}, expected {}) is rejected by the parser", l.text, l.class, l.exp.show()), lit_inputs(l, print)).exp_obs(l.exp.show(), json!({"error":debug,"col":col})));
                }
                active.remove(k);
                attempts += 1;
                if attempts > 64 {
                    for _ in &active {
                        tally.discard("literal batch abandoned after 64 parser rejections");
                    }
                    return viols;
                }
            }
            Err(e) => {
                if active.len() == 1 {
                    let l = &lines[active[0]];
                    viols.push(Violation::new(format!("literal-rejected:{}:{}", l.class, e.class()), format!("literal `{}` makes the parser panic", l.text), lit_inputs(l, print)).exp_obs(l.exp.show(), e.to_json()));
                    return viols;
                }
                let sub: Vec<LitLine> = active.iter().map(|i| lines[*i].clone()).collect();
                let (a, b) = sub.split_at(sub.len() / 2);
                viols.extend(check_literals(sh, a, print, tally));
                viols.extend(check_literals(sh, b, print, tally));
                return viols;
            }
        }
    };
    let mut by_row: BTreeMap<usize, &GlobalStatement> = BTreeMap::new();
    for gs in &program {
        by_row.insert(gs.pos.row() as usize, &gs.element);
    }
    let mut ok_rows: Vec<usize> = vec![];
    for (k, i) in active.iter().enumerate() {
        let l = &lines[*i];
        let obs = match by_row.get(&(k + 1)).and_then(|gs| stmt_expr(gs)) {
            Some(e) => lit_obs(e),
            None => LitObs::Other(format!("{:?}", by_row.get(&(k + 1))).chars().take(120).collect()),
        };
        match judge_literal(l, &obs, print) {
            Ok(()) => {
                tally.class(&format!("literal-outcome:ok:{}{}", l.class, if l.neg { ":after-minus" } else { "" }));
                ok_rows.push(k);
            }
            Err(v) => {
                tally.class(&format!("literal-outcome:{}", v.sig));
                viols.push(v);
            }
        }
    }
    if !print {
        return viols;
    }
    // printed values of INTEGER / LONG literals whose tree was right
    let run_rows: Vec<usize> = ok_rows.into_iter().filter(|k| lines[active[*k]].exp.as_int().is_some()).collect();
    if run_rows.is_empty() {
        return viols;
    }
    let rows: std::collections::BTreeSet<usize> = run_rows.iter().map(|k| k + 1).collect();
    let prog: Program = program.iter().filter(|gs| rows.contains(&(gs.pos.row() as usize))).cloned().collect();
    match impl_run::lint_program(prog).and_then(|(p, ctx)| impl_run::codegen(p, ctx)) {
        Err(e) => {
            for _ in &run_rows {
                tally.discard(&format!("literal PRINT batch rejected after parsing ({})", e.class()));
            }
        }
        Ok(c) => {
            let out = impl_run::run(c, &RunOpts::budget(100_000 + 1_000 * run_rows.len() as u64));
            let text = out.stdout_str();
            let mut printed: Vec<&str> = text.split("\r\n").collect();
            if printed.last() == Some(&"") {
                printed.pop();
            }
            if out.end != End::Ok || printed.len() != run_rows.len() {
                let l = &lines[active[run_rows[printed.len().min(run_rows.len() - 1)]]];
                viols.push(Violation::new(format!("literal-print-run:{}", l.class), format!("printing literals stops at `PRINT {}`: {}", l.text, out.end.short()), lit_inputs(l, true)).exp_obs("all lines printed", json!({"end": out.end.to_json(), "lines": printed.len()})));
                return viols;
            }
            for (n, k) in run_rows.iter().enumerate() {
                let l = &lines[active[*k]];
                let v = l.exp.as_int().unwrap();
                let want = fmt_int(if l.neg { -v } else { v });
                if printed[n] == want {
                    tally.class("literal-outcome:printed-equal");
                } else {
                    viols.push(Violation::new(format!("literal-printed:{}{}", l.class, if l.neg { ":after-minus" } else { "" }), format!("`PRINT {}` prints {:?} instead of {:?}", l.text, printed[n], want), lit_inputs(l, true)).exp_obs(want, printed[n]));
                }
            }
        }
    }
    viols
}

fn dec_text(v: u128, zeros: usize, neg: bool) -> String {
    format!("{}{}{}", if neg { "-" } else { "" }, "0".repeat(zeros), v)
}

fn hex_text(v: u64, zeros: usize, lower_digits: bool, lower_prefix: bool, neg: bool) -> String {
    let d = if lower_digits { format!("{:x}", v) } else { format!("{:X}", v) };
    format!("{}&{}{}{}", if neg { "-" } else { "" }, if lower_prefix { "h" } else { "H" }, "0".repeat(zeros), d)
}

fn oct_text(v: u64, zeros: usize, lower_prefix: bool, neg: bool) -> String {
    format!("{}&{}{}{:o}", if neg { "-" } else { "" }, if lower_prefix { "o" } else { "O" }, "0".repeat(zeros), v)
}

// ---------------------------------------------------------------------------------------------
// rounding-critical fraction literals
//
// The statement says that a fraction literal denotes "exactly its written value" as a SINGLE (DOUBLE with #):
// the value of that type NEAREST to the written decimal.  Where "nearest" is decided is next to a rounding
// boundary: the midpoint of two adjacent values of the type.  The literals below are written from the EXACT
// decimal expansion of such a midpoint (every m * 2^e has a finite one), taken as it is (a tie: the neighbour
// with the even significand, IEEE 754 round-to-nearest-even, which is also what the reference conversion does),
// or moved off the midpoint by less than one unit of its last digit (above: the upper neighbour; below: the
// lower one), and in the same three ways around a representable value (always that value).  The expectation is
// known by construction from exact decimal-string arithmetic; the oracle proper (`analyse_literal`, working
// from the text alone, also on replay) is Rust's correctly rounded `str::parse`; the generator insists that
// the two agree.
// ---------------------------------------------------------------------------------------------

/// Exact decimal expansion of m * 2^e (m > 0): integer digits (no leading zeros, "0" if none) and fraction
/// digits (no trailing zeros, possibly empty).
fn dyadic_decimal(m: u128, e: i32) -> (String, String) {
    assert!(m > 0);
    if e >= 0 {
        assert!((128 - m.leading_zeros()) as i32 + e < 127, "dyadic_decimal: too large");
        return ((m << e).to_string(), String::new());
    }
    let mut int: Vec<u8> = m.to_string().bytes().map(|b| b - b'0').collect();
    let mut frac: Vec<u8> = vec![];
    for _ in 0..(-e) {
        // halve the decimal number int.frac digit by digit
        let mut rem = 0u8;
        for d in int.iter_mut().chain(frac.iter_mut()) {
            let v = rem * 10 + *d;
            *d = v / 2;
            rem = v % 2;
        }
        if rem == 1 {
            frac.push(5);
        }
    }
    let first = int.iter().position(|d| *d != 0).unwrap_or(int.len() - 1);
    let ip: String = int[first..].iter().map(|d| (b'0' + d) as char).collect();
    while frac.last() == Some(&0) {
        frac.pop();
    }
    let fp: String = frac.iter().map(|d| (b'0' + d) as char).collect();
    (ip, fp)
}

/// digits - 1 in the last place, for a digit string that denotes a positive number
fn dec_string_pred(digits: &str) -> String {
    let mut d: Vec<u8> = digits.bytes().collect();
    let mut i = d.len();
    loop {
        assert!(i > 0, "dec_string_pred of zero");
        i -= 1;
        if d[i] == b'0' {
            d[i] = b'9';
        } else {
            d[i] -= 1;
            break;
        }
    }
    String::from_utf8(d).unwrap()
}

#[derive(Clone, Copy, PartialEq, Eq, Debug)]
enum Anchor {
    /// the midpoint between the value with the given bits and the next one up
    Midpoint,
    /// the value with the given bits itself
    Representable,
}

#[derive(Clone, Copy, PartialEq, Eq, Debug)]
enum Nudge {
    Exact,
    Above,
    Below,
}

/// One literal next to a rounding boundary. `bits`: a positive normal f32 (dbl = false) or f64 pattern whose
/// successor is finite too. `pad`: zeros / nines written between the exact expansion and the deciding digit.
/// Returns the text and the value it must denote BY CONSTRUCTION (without the sign).
fn critical_text(dbl: bool, bits: u64, anchor: Anchor, nudge: Nudge, pad: usize, zeros: usize, neg: bool) -> (String, LitV) {
    let (m, e): (u128, i32) = if dbl {
        let ef = ((bits >> 52) & 0x7ff) as i32;
        assert!(ef > 0 && ef < 0x7fe && bits >> 63 == 0);
        (((bits & ((1u64 << 52) - 1)) | (1u64 << 52)) as u128, ef - 1023 - 52)
    } else {
        let ef = ((bits >> 23) & 0xff) as i32;
        assert!(ef > 0 && ef < 0xfe && bits >> 31 == 0);
        (((bits & 0x7f_ffff) | 0x80_0000) as u128, ef - 127 - 23)
    };
    let value = |b: u64| if dbl { LitV::Double(f64::from_bits(b)) } else { LitV::Single(f32::from_bits(b as u32)) };
    // the gap between bits and bits+1 is 2^e, so their midpoint is (2m+1) * 2^(e-1)
    let ((ip, fp), exp) = match anchor {
        Anchor::Midpoint => (
            dyadic_decimal(2 * m + 1, e - 1),
            match nudge {
                Nudge::Exact => value(if bits % 2 == 0 { bits } else { bits + 1 }),
                Nudge::Above => value(bits + 1),
                Nudge::Below => value(bits),
            },
        ),
        Anchor::Representable => {
            // written with all -e fraction digits, so that one unit of the last digit (10^e) is below a quarter of the gap (2^(e-2))
            let (ip, fp) = dyadic_decimal(m, e);
            let width = if e < 0 { (-e) as usize } else { 0 };
            ((ip, format!("{:0<width$}", fp, width = width)), value(bits))
        }
    };
    // the nudge is smaller than one unit of the last digit of the exact expansion, which is smaller than the
    // distance from the anchor to the nearest rounding boundary on that side (see the module comment)
    let (ip, fp) = match nudge {
        Nudge::Exact => {
            let fp = if fp.is_empty() { format!("0{}", "0".repeat(pad)) } else { format!("{}{}", fp, "0".repeat(pad)) };
            (ip, fp)
        }
        Nudge::Above => (ip, format!("{}{}1", fp, "0".repeat(pad))),
        Nudge::Below => {
            let all = dec_string_pred(&format!("{}{}", ip, fp));
            let (a, b) = all.split_at(ip.len());
            (a.to_string(), format!("{}{}9", b, "9".repeat(pad)))
        }
    };
    // integer part: strip zeros produced by the borrow, then write the requested leading zeros; a zero integer part may be left out
    let ip = ip.trim_start_matches('0');
    let ip = if ip.is_empty() { if zeros == 0 { String::new() } else { "0".repeat(zeros) } } else { format!("{}{}", "0".repeat(zeros), ip) };
    (format!("{}{}.{}{}", if neg { "-" } else { "" }, ip, fp, if dbl { "#" } else { "" }), exp)
}

fn float_bits(dbl: bool, exponent: i32, mantissa: u64) -> u64 {
    if dbl { (((exponent + 1023) as u64) << 52) | (mantissa & ((1u64 << 52) - 1)) } else { (((exponent + 127) as u64) << 23) | (mantissa & 0x7f_ffff) }
}

/// number of significant decimal digits written
fn significant_digits(text: &str) -> usize {
    let d: String = text.chars().filter(|c| c.is_ascii_digit()).collect();
    d.trim_start_matches('0').len()
}

/// Analyses a rounding-critical literal, insists that the expectation by construction and the reference
/// conversion agree, and labels the case.
fn critical_line(text: &str, by_construction: Option<LitV>, what: &str, tally: &mut Tally) -> LitLine {
    let l = analyse_literal(text).unwrap_or_else(|e| panic!("C10 literal generator/oracle disagreement on {}: {}", text, e));
    if let Some(c) = by_construction {
        if !c.same(&l.exp) {
            panic!("C10: `{}` denotes {} by construction but {} by the reference conversion", text, c.show(), l.exp.show());
        }
    }
    let ty = if matches!(l.exp, LitV::Double(_)) { "double" } else { "single" };
    tally.class(&format!("literal:critical:{}:{}", ty, what));
    let n = significant_digits(text);
    tally.class(&format!(
        "literal:critical:{}:significant-digits={}",
        ty,
        if n <= 9 { "01-09" } else if n <= 17 { "10-17" } else if n <= 25 { "18-25" } else if n <= 40 { "26-40" } else { "41+" }
    ));
    if l.neg {
        tally.class("literal:critical:after-minus");
    }
    // measured, not assumed: does the literal tell "nearest SINGLE" from "nearest DOUBLE, then nearest SINGLE"?
    if let LitV::Single(f) = l.exp {
        let body = text.trim_start_matches('-');
        let canon = if body.starts_with('.') { format!("0{}", body) } else { body.to_string() };
        if let Ok(d) = canon.parse::<f64>() {
            if (d as f32).to_bits() != f.to_bits() {
                tally.class("literal:critical:single:two-step-rounding-differs");
            }
        }
    }
    l
}

// ---------------------------------------------------------------------------------------------
// the property
// ---------------------------------------------------------------------------------------------

const CHAIN_BATCH: usize = 400;
const LIT_BATCH: usize = 500;

/// Runs one batch of chain texts; violations are reported to the shard. Returns false when the shard should stop.
fn flush_chains(sh: &mut Shard, texts: &mut Vec<String>, tally: &mut Tally) -> bool {
    if texts.is_empty() {
        return true;
    }
    let mut lines = vec![];
    for t in texts.drain(..) {
        match analyse_chain(&t) {
            Ok(l) => lines.push(l),
            Err(e) => panic!("C10 generator produced a chain its own oracle does not accept: {} ({})", t, e),
        }
    }
    for l in &lines {
        sh.eval();
        if l.n_bin + l.n_un >= 2 {
            sh.nontrivial(hash64(&l.text));
        }
    }
    let first = lines[0].text.clone();
    let last = lines[lines.len() - 1].text.clone();
    sh.sample_sparse(7, || json!({"kind":"chain-batch","first":first,"last":last}));
    let viols = check_chains(sh, &lines, false, tally);
    let mut go = true;
    for v in viols {
        go = sh.report(Err(v)) && go;
    }
    go
}

fn flush_literals(sh: &mut Shard, texts: &mut Vec<String>, print: bool, tally: &mut Tally) -> bool {
    if texts.is_empty() {
        return true;
    }
    let mut lines = vec![];
    for t in texts.drain(..) {
        match analyse_literal(&t) {
            Ok(l) => lines.push(l),
            Err(e) => panic!("C10 generator produced a literal its own oracle does not accept: {} ({})", t, e),
        }
    }
    for l in &lines {
        sh.eval();
        if l.nontrivial {
            sh.nontrivial(hash64(&l.text));
        }
    }
    let first = lines[0].text.clone();
    let last = lines[lines.len() - 1].text.clone();
    sh.sample_sparse(11, || json!({"kind":"literal-batch","print":print,"first":first,"last":last}));
    let viols = check_literals(sh, &lines, print, tally);
    let mut go = true;
    for v in viols {
        go = sh.report(Err(v)) && go;
    }
    go
}

/// Like `flush_literals` for lines that are analysed already.
fn flush_lit_lines(sh: &mut Shard, lines: &mut Vec<LitLine>, tally: &mut Tally) -> bool {
    if lines.is_empty() {
        return true;
    }
    for l in lines.iter() {
        sh.eval();
        if l.nontrivial {
            sh.nontrivial(hash64(&l.text));
        }
    }
    let first = lines[0].text.clone();
    let last = lines[lines.len() - 1].text.clone();
    sh.sample_sparse(5, || json!({"kind":"literal-batch","print":false,"first":first,"last":last}));
    let viols = check_literals(sh, lines, false, tally);
    lines.clear();
    let mut go = true;
    for v in viols {
        go = sh.report(Err(v)) && go;
    }
    go
}

/// For `search` closures: known findings are counted, the first unknown violation fails the case.
fn triage_all(sh: &mut Shard, viols: Vec<Violation>) -> Result<(), Violation> {
    let mut first: Option<Violation> = None;
    for v in viols {
        if let Err(v) = sh.triage(v) {
            if first.is_none() {
                first = Some(v);
            }
        }
    }
    match first {
        Some(v) => Err(v),
        None => Ok(()),
    }
}

fn chain_classes(c: &Chain, tally: &mut Tally) {
    let un: usize = c.pre.iter().map(|p| p.iter().filter(|x| matches!(x, Pre::Un(_))).count()).sum();
    let par: usize = c.post.iter().map(|p| *p as usize).sum();
    tally.class(&format!("chain:operators={:02}", c.ops.len()));
    tally.class(&format!("chain:unary={}", un.min(4)));
    tally.class(&format!("chain:parens={}", par));
}

impl C10 {
    fn run_enumerated_chains(&self, sh: &mut Shard) -> bool {
        let max_n = sh.tier.pick(3, 5);
        let mut texts: Vec<String> = vec![];
        let mut tally = Tally::default();
        let mut seq_idx: u64 = 0;
        let mut chains_total: u64 = 0;
        let tries = 8;
        for n in 1..=max_n {
            let pol = policy(sh.tier, n);
            let count = 13u64.pow(n as u32);
            let mut chains_n: u64 = 0;
            for code in 0..count {
                seq_idx += 1;
                if !sh.mine(seq_idx) {
                    continue;
                }
                let ops = sequence(code, n);
                let mut chains: Vec<Chain> = vec![];
                enumerate_sequence(&ops, &pol, seq_idx, &mut |c| chains.push(c));
                for (vi, c) in chains.iter().enumerate() {
                    chain_classes(c, &mut tally);
                    let leaf_mode = ((seq_idx + vi as u64) % 3) as u8;
                    tally.class(match leaf_mode {
                        0 => "chain:leaves=literals",
                        1 => "chain:leaves=variables",
                        _ => "chain:leaves=alternating",
                    });
                    let seed = hash64(&(n as u64, code, vi as u64));
                    texts.push(realise(c, seed, leaf_mode, tries, &mut tally));
                    chains_n += 1;
                    if texts.len() >= CHAIN_BATCH && !flush_chains(sh, &mut texts, &mut tally) {
                        tally.flush(sh);
                        return false;
                    }
                }
            }
            chains_total += chains_n;
            sh.note(&format!("enumerated_chains_with_{}_operators", n), json!(chains_n));
        }
        let go = flush_chains(sh, &mut texts, &mut tally);
        tally.flush(sh);
        sh.note("enumerated_chains", json!(chains_total));
        match sh.tier {
            Tier::Quick => {
                sh.exhaustive("all 13+13^2+13^3 = 2379 sequences of 1..3 binary operators; n<=2: every placement of <=2 parenthesis pairs (ranges of >=2 operands, nested or disjoint) x every legal assignment of <=1 unary operator per operand (before or after the parentheses opening there); n=3: the same with (<=2 pairs, <=1 unary) U (<=1 pair, <=2 unary) U (no pair, any number of unary)");
            }
            Tier::Thorough => {
                sh.exhaustive("all 13^1..13^5 = 402 234 sequences of 1..5 binary operators; n<=2: <=2 parenthesis pairs x all legal unary assignments; n=3: (<=2 pairs, <=2 unary) U (<=1 pair, <=3 unary) U (no pair, any unary); n=4: (<=2 pairs, no unary) U (<=1 pair, <=1 unary) U (no pair, <=2 unary); n=5: (<=1 pair, no unary) U (no pair, <=1 unary) exhaustively, two-pair placements sampled 1 in 8 rotating with the sequence index");
            }
        }
        go
    }

    fn run_random_chains(&self, sh: &mut Shard) {
        let per_case = 16usize;
        let cells_per_chain = 64usize;
        let cases = sh.share(sh.tier.pick(6_000, 160_000));
        sh.search(10, cases, per_case * cells_per_chain, per_case * cells_per_chain, |sh, tape| {
            let mut tally = Tally::default();
            let mut lines = vec![];
            for k in 0..per_case {
                let cells = &tape[k * cells_per_chain..(k + 1) * cells_per_chain];
                let mut t = Tape::new(cells);
                let seed = t.raw() as u64;
                let leaf_mode = t.choose(3) as u8;
                let c = random_chain(&mut t);
                chain_classes(&c, &mut tally);
                let text = realise(&c, seed, leaf_mode, 12, &mut tally);
                let l = analyse_chain(&text).unwrap_or_else(|e| panic!("C10 generator/oracle disagreement on {}: {}", text, e));
                sh.eval();
                if l.n_bin + l.n_un >= 2 {
                    sh.nontrivial(hash64(&l.text));
                }
                lines.push(l);
            }
            let longest = lines.iter().max_by_key(|l| l.n_bin).map(|l| l.text.clone()).unwrap_or_default();
            sh.sample_sparse(5, || json!({"kind":"random-chain","expr":longest}));
            let viols = check_chains(sh, &lines, false, &mut tally);
            tally.flush(sh);
            triage_all(sh, viols)
        });
    }

    fn run_16bit_literals(&self, sh: &mut Shard) -> bool {
        let thorough = sh.tier == Tier::Thorough;
        let mut texts: Vec<String> = vec![];
        let mut tally = Tally::default();
        let mut batch_no = 0u64;
        for v in 0u64..=65535 {
            if !sh.mine(v) {
                continue;
            }
            let has_letters = format!("{:X}", v).chars().any(|c| c.is_ascii_alphabetic());
            if thorough {
                for z in 0..=3usize {
                    for neg in [false, true] {
                        texts.push(dec_text(v as u128, z, neg));
                        texts.push(oct_text(v, z, false, neg));
                        texts.push(hex_text(v, z, false, false, neg));
                        if has_letters {
                            texts.push(hex_text(v, z, true, false, neg));
                        }
                    }
                }
            } else {
                for neg in [false, true] {
                    texts.push(dec_text(v as u128, 0, neg));
                    texts.push(hex_text(v, 0, false, false, neg));
                    texts.push(oct_text(v, 0, false, neg));
                }
                for z in 1..=3usize {
                    let lower = (v + z as u64) % 2 == 0;
                    let neg = (v / 2 + z as u64) % 2 == 0;
                    texts.push(hex_text(v, z, lower, false, neg));
                    texts.push(oct_text(v, z, false, !neg));
                }
                texts.push(dec_text(v as u128, 1 + (v % 3) as usize, v % 2 == 0));
            }
            if v % 257 == 0 {
                texts.push(hex_text(v, 0, false, true, false));
                texts.push(oct_text(v, 0, true, false));
            }
            if texts.len() >= LIT_BATCH {
                batch_no += 1;
                if !flush_literals(sh, &mut texts, batch_no % 4 == 0, &mut tally) {
                    tally.flush(sh);
                    return false;
                }
            }
        }
        let go = flush_literals(sh, &mut texts, true, &mut tally);
        tally.flush(sh);
        sh.exhaustive(if thorough {
            "all 65536 16-bit values as decimal, &H (upper and lower case digits) and &O literals, each with 0..3 leading zeros, each also directly after a unary minus"
        } else {
            "all 65536 16-bit values as decimal, &H and &O literals, plain and directly after a unary minus; plus one variant per value and per 1..3 leading zeros (letter case and sign alternating)"
        });
        go
    }

    fn run_special_literals(&self, sh: &mut Shard) -> bool {
        let mut tally = Tally::default();
        let mut texts: Vec<String> = vec![];
        let mut idx = 0u64;
        let mut go = true;
        // powers of two +-1 up to 2^32
        for k in 0..=32u32 {
            for d in [-1i64, 0, 1] {
                let v = (1i64 << k) + d;
                if !(0..=4294967295).contains(&v) {
                    continue;
                }
                idx += 1;
                if !sh.mine(idx) {
                    continue;
                }
                let v = v as u64;
                for z in 0..=3usize {
                    for neg in [false, true] {
                        if v <= 2147483647 {
                            texts.push(dec_text(v as u128, z, neg));
                        }
                        texts.push(hex_text(v, z, false, false, neg));
                        texts.push(hex_text(v, z, true, false, neg));
                        texts.push(oct_text(v, z, false, neg));
                    }
                }
            }
        }
        go = flush_literals(sh, &mut texts, false, &mut tally) && go;
        // decimal values between LONG and 2^32 (DOUBLE), and the fixed fractional boundary cases
        let fixed = [
            "2147483648", "2147483649", "4294967294", "4294967295", "-2147483648", "-2147483649", "-4294967295", "3000000000", "02147483648",
            "0.5", ".5", "0.1", "1.0", "0.0", "16777217.0", "16777216.5", "123456789.125", "32767.5", "32768.0", "0.1#", ".5#", "1.0#", "3.14159265358979#",
            "2147483648.5#", "4294967296.0#", "99999999999999999999.5#", "0.000001", "0.000001#", "1.05", "1.005#", "10.01", "-0.5", "-.5", "-0.1#", "-1.05", "-16777217.0", "-0.0",
            "123456789012345678.5#", "007.50", "000.125#",
        ];
        for (i, t) in fixed.iter().enumerate() {
            if sh.mine(i as u64) {
                texts.push(t.to_string());
            }
        }
        go = flush_literals(sh, &mut texts, false, &mut tally) && go;
        // decimal values above 4294967295 (small batches: each rejection costs a re-parse)
        let above = ["4294967296", "4294967297", "5000000000", "9999999999", "10000000000", "-4294967296", "18446744073709551615", "18446744073709551616", "100000000000000000000", "1234567890123456789012345", "9999999999999999999999999", "-9999999999999999999999999", "9007199254740993", "04294967296"];
        for (i, t) in above.iter().enumerate() {
            if sh.mine(i as u64) {
                texts.push(t.to_string());
            }
        }
        go = flush_literals(sh, &mut texts, false, &mut tally) && go;
        tally.flush(sh);
        sh.exhaustive("2^k-1, 2^k, 2^k+1 for k=0..32 (below 2^32) in decimal (up to LONG), &H (both cases) and &O, 0..3 leading zeros, with and without minus");
        go
    }

    /// Fraction literals next to the rounding boundaries of SINGLE and DOUBLE, enumerated part.
    fn run_critical_literals(&self, sh: &mut Shard) -> bool {
        let mut tally = Tally::default();
        let mut lines: Vec<LitLine> = vec![];
        let mut idx = 0u64;
        let thorough = sh.tier == Tier::Thorough;
        let pads_off: &[usize] = if thorough { &[0, 1, 2, 3, 5, 8, 11, 14, 17, 20, 26] } else { &[0, 3, 8, 14, 20] };
        let pads_exact: &[usize] = if thorough { &[0, 1, 3, 8] } else { &[0, 3] };
        let pads_repr: &[usize] = if thorough { &[0, 3, 8, 20] } else { &[0, 8] };
        for dbl in [false, true] {
            let (e_hi, full): (i32, u64) = if dbl { (60, (1u64 << 52) - 1) } else { (40, 0x7f_ffff) };
            let low: u64 = if thorough { 8 } else { 4 };
            let mut mantissas: Vec<u64> = (0..low).collect();
            mantissas.extend((0..low.min(if thorough { 8 } else { 3 })).map(|k| full - k));
            for exponent in -12..=e_hi {
                for mant in &mantissas {
                    idx += 1;
                    if !sh.mine(idx) {
                        continue;
                    }
                    let bits = float_bits(dbl, exponent, *mant);
                    let mut n = idx;
                    let mut emit = |anchor: Anchor, nudge: Nudge, pad: usize, lines: &mut Vec<LitLine>, tally: &mut Tally| {
                        n += 1;
                        let neg = n % 2 == 0;
                        let zeros = if n % 5 == 0 { 1 + (n % 2) as usize } else { 0 };
                        let (text, exp) = critical_text(dbl, bits, anchor, nudge, pad, zeros, neg);
                        let what = format!("{}-{}", if anchor == Anchor::Midpoint { "midpoint" } else { "representable" }, match nudge {
                            Nudge::Exact => "exact",
                            Nudge::Above => "above",
                            Nudge::Below => "below",
                        });
                        lines.push(critical_line(&text, Some(exp), &what, tally));
                    };
                    for pad in pads_exact {
                        emit(Anchor::Midpoint, Nudge::Exact, *pad, &mut lines, &mut tally);
                    }
                    for pad in pads_off {
                        emit(Anchor::Midpoint, Nudge::Above, *pad, &mut lines, &mut tally);
                        emit(Anchor::Midpoint, Nudge::Below, *pad, &mut lines, &mut tally);
                    }
                    for pad in pads_repr {
                        emit(Anchor::Representable, Nudge::Exact, *pad, &mut lines, &mut tally);
                        emit(Anchor::Representable, Nudge::Above, *pad, &mut lines, &mut tally);
                        emit(Anchor::Representable, Nudge::Below, *pad, &mut lines, &mut tally);
                    }
                    if lines.len() >= LIT_BATCH && !flush_lit_lines(sh, &mut lines, &mut tally) {
                        tally.flush(sh);
                        return false;
                    }
                }
            }
        }
        let go = flush_lit_lines(sh, &mut lines, &mut tally);
        tally.flush(sh);
        sh.exhaustive(if thorough {
            "rounding boundaries: every SINGLE with binary exponent -12..40 and every DOUBLE with binary exponent -12..60 whose significand fraction is one of the 8 lowest or 8 highest: the exact decimal expansion of the midpoint to its successor (0/1/3/8 trailing zeros), that expansion moved above and below by one digit after 0,1,2,3,5,8,11,14,17,20,26 zeros/nines, and the value itself exact/above/below (0,3,8,20); signs and leading zeros alternating"
        } else {
            "rounding boundaries: every SINGLE with binary exponent -12..40 and every DOUBLE with binary exponent -12..60 whose significand fraction is one of 0,1,2,3 or the 3 highest: the exact decimal expansion of the midpoint to its successor (0/3 trailing zeros), that expansion moved above and below by one digit after 0,3,8,14,20 zeros/nines, and the value itself exact/above/below (0,8); signs and leading zeros alternating"
        });
        go
    }

    /// Fraction literals next to rounding boundaries of random values, and long random digit strings.
    fn run_random_critical_literals(&self, sh: &mut Shard) {
        let per_case = 40usize;
        let cells = 12usize;
        let cases = sh.share(sh.tier.pick(480, 12_000));
        sh.search(23, cases, per_case * cells, per_case * cells, |sh, tape| {
            let mut tally = Tally::default();
            let mut lines = vec![];
            for k in 0..per_case {
                let mut t = Tape::new(&tape[k * cells..(k + 1) * cells]);
                let dbl = t.chance(1, 3);
                let family = t.choose(8);
                let neg = t.chance(1, 3);
                let zeros = if t.chance(1, 4) { 1 + t.choose(3) } else { 0 };
                let r1 = t.raw() as u64;
                let r2 = t.raw() as u64;
                let l = if family == 7 {
                    // long digit strings that are near nothing in particular: the reference conversion alone decides
                    let mut rng = Rng(r1 << 32 | r2);
                    let ilen = t.choose(21);
                    let flen = 1 + t.choose(30);
                    let mut ip = String::new();
                    for i in 0..ilen {
                        let d = rng.below(10) as u8;
                        ip.push((b'0' + if i == 0 { 1 + d % 9 } else { d }) as char);
                    }
                    let fp: String = (0..flen).map(|_| (b'0' + rng.below(10) as u8) as char).collect();
                    let ip = if ilen == 0 && zeros == 0 { String::new() } else { format!("{}{}", "0".repeat(if ilen == 0 { zeros } else { zeros.min(2) }), ip) };
                    let text = format!("{}{}.{}{}", if neg { "-" } else { "" }, ip, fp, if dbl { "#" } else { "" });
                    critical_line(&text, None, "long-random-digits", &mut tally)
                } else {
                    let e_hi: i64 = if dbl { 60 } else { 40 };
                    let prec: i64 = if dbl { 52 } else { 23 };
                    let exponent = match t.choose(4) {
                        0 => t.range(0, prec + 1),
                        1 => t.range(-12, -1),
                        2 => t.range(prec + 1, e_hi),
                        _ => t.range(-12, e_hi),
                    } as i32;
                    let full: u64 = (1u64 << prec) - 1;
                    let mant = match t.choose(6) {
                        0 => 0,
                        1 => full,
                        2 => r1 % 16,
                        3 => full - r1 % 16,
                        // few significant bits: short expansions
                        4 => (r1 % 4096) << (prec - 12),
                        _ => (r1 << 32 | r2) & full,
                    };
                    let anchor = if family < 5 { Anchor::Midpoint } else { Anchor::Representable };
                    let nudge = match t.choose(3) {
                        0 => Nudge::Above,
                        1 => Nudge::Below,
                        _ => Nudge::Exact,
                    };
                    let pad = t.choose(25);
                    let bits = float_bits(dbl, exponent, mant);
                    let (text, exp) = critical_text(dbl, bits, anchor, nudge, pad, zeros, neg);
                    let what = format!("{}-{}", if anchor == Anchor::Midpoint { "midpoint" } else { "representable" }, match nudge {
                        Nudge::Exact => "exact",
                        Nudge::Above => "above",
                        Nudge::Below => "below",
                    });
                    critical_line(&text, Some(exp), &what, &mut tally)
                };
                sh.eval();
                sh.nontrivial(hash64(&l.text));
                lines.push(l);
            }
            let s = lines[per_case / 2].text.clone();
            sh.sample_sparse(3, || json!({"kind":"literal","text":s}));
            let viols = check_literals(sh, &lines, false, &mut tally);
            tally.flush(sh);
            triage_all(sh, viols)
        });
    }

    fn run_random_literals(&self, sh: &mut Shard) {
        // 32-bit values in all three notations
        let per_case = 250usize;
        let cases = sh.share(sh.tier.pick(160, 4_000));
        sh.search(20, cases, per_case * 6, per_case * 6, |sh, tape| {
            let mut t = Tape::new(tape);
            let mut tally = Tally::default();
            let mut lines = vec![];
            for _ in 0..per_case {
                let shape = t.choose(4);
                let raw = t.raw() as u64;
                let v: u64 = match shape {
                    0 => raw & 0xFFFF,
                    1 => ((1u64 << (raw % 33)) + (raw >> 8) % 5).saturating_sub(2).min(4294967295),
                    _ => raw,
                };
                let notation = t.choose(3);
                let zeros = t.choose(4);
                let lower = t.chance(1, 2);
                let neg = t.chance(1, 2);
                let text = match notation {
                    0 => dec_text(v as u128, zeros, neg),
                    1 => hex_text(v, zeros, lower, false, neg),
                    _ => oct_text(v, zeros, false, neg),
                };
                let l = analyse_literal(&text).unwrap_or_else(|e| panic!("C10 literal generator/oracle disagreement on {}: {}", text, e));
                sh.eval();
                if l.nontrivial {
                    sh.nontrivial(hash64(&l.text));
                }
                lines.push(l);
            }
            let s = lines[per_case / 2].text.clone();
            sh.sample_sparse(13, || json!({"kind":"literal","text":s}));
            let print = lines.iter().all(|l| l.exp.as_int().is_some()) && tape[0] % 2 == 0;
            let viols = check_literals(sh, &lines, print, &mut tally);
            tally.flush(sh);
            triage_all(sh, viols)
        });
        // fractional literals
        let max_frac = sh.tier.pick(8usize, 15usize);
        let cases = sh.share(sh.tier.pick(100, 2_000));
        sh.search(21, cases, per_case * 6, per_case * 6, move |sh, tape| {
            let mut t = Tape::new(tape);
            let mut tally = Tally::default();
            let mut lines = vec![];
            for _ in 0..per_case {
                let ilen = t.choose(10);
                let flen = 1 + t.choose(max_frac);
                let mut a = t.raw() as u64 * 4294967296 + t.raw() as u64;
                let mut ip = String::new();
                match ilen {
                    0 => ip.push('0'),
                    9 => {}
                    n => {
                        for _ in 0..n {
                            ip.push((b'0' + (a % 10) as u8) as char);
                            a /= 10;
                        }
                    }
                }
                let mut fp = String::new();
                for _ in 0..flen {
                    fp.push((b'0' + (a % 10) as u8) as char);
                    a /= 10;
                }
                let dbl = t.chance(1, 2);
                let neg = t.chance(1, 3);
                let text = format!("{}{}.{}{}", if neg { "-" } else { "" }, ip, fp, if dbl { "#" } else { "" });
                let l = analyse_literal(&text).unwrap_or_else(|e| panic!("C10 literal generator/oracle disagreement on {}: {}", text, e));
                sh.eval();
                sh.nontrivial(hash64(&l.text));
                lines.push(l);
            }
            let s = lines[per_case / 2].text.clone();
            sh.sample_sparse(13, || json!({"kind":"literal","text":s}));
            let viols = check_literals(sh, &lines, false, &mut tally);
            tally.flush(sh);
            triage_all(sh, viols)
        });
        // decimal integers beyond LONG, 10..25 digits
        let per_case = 12usize;
        let cases = sh.share(sh.tier.pick(160, 3_200));
        sh.search(22, cases, per_case * 8, per_case * 8, |sh, tape| {
            let mut t = Tape::new(tape);
            let mut tally = Tally::default();
            let mut lines = vec![];
            for _ in 0..per_case {
                let len = 10 + t.choose(16);
                let mut s = String::new();
                let mut a = 0u64;
                for i in 0..len {
                    if i % 9 == 0 {
                        a = t.raw() as u64;
                    }
                    let d = (a % 10) as u8;
                    a /= 10;
                    s.push((b'0' + if i == 0 { 2 + d % 8 } else { d }) as char);
                }
                let zeros = t.choose(3);
                let neg = t.chance(1, 3);
                let text = format!("{}{}{}", if neg { "-" } else { "" }, "0".repeat(zeros), s);
                let l = analyse_literal(&text).unwrap_or_else(|e| panic!("C10 literal generator/oracle disagreement on {}: {}", text, e));
                sh.eval();
                sh.nontrivial(hash64(&l.text));
                lines.push(l);
            }
            let s = lines[0].text.clone();
            sh.sample_sparse(13, || json!({"kind":"literal","text":s}));
            let viols = check_literals(sh, &lines, false, &mut tally);
            tally.flush(sh);
            triage_all(sh, viols)
        });
    }
}

impl Prop for C10 {
    fn id(&self) -> &'static str {
        "C10"
    }
    fn rule(&self) -> &'static str {
        "(a) Chains x0 op1 x1 .. opn xn over the 13 binary operators, unary minus / NOT only where the stated ranks determine their operand (chain start, after `(`, after a binary operator of lower rank, after a unary operator of not higher rank), parenthesis pairs around operand ranges; all sequences up to n=3 (quick) / n=5 (thorough) enumerated with the parenthesis/unary products listed under exhaustive_parts, plus random chains of up to 12 operators, 3 pairs and 2 unary operators per operand. Operands are integers 1..12 (literals, INTEGER variables Q1%..Q12% holding 1..12, or alternating), chosen per chain so that the stated grouping evaluates inside INTEGER with whole quotients and differs from neighbouring groupings. ~400 chains per program (`PRINT <chain>` lines). Oracle 1: the parsed Expression mapped to Binary/Unary/Paren/Leaf equals the tree of a precedence-climbing parser over the same text (ranks from the statement; `-literal` folded on both sides; regroupings that cannot change a value — AND/OR re-association, -(x*y) vs (-x)*y — are counted, not failed). Oracle 2: for chains whose tree is right the printed value equals the value of the expected tree. Non-trivial: chains with at least two operators (binary or unary), distinct by text. (b) Literals: every 16-bit value in decimal/&H/&O with 0..3 leading zeros, letter cases and a minus sign in front, 2^k+-1, random 32-bit values, decimal integers of 10..25 digits, fractional literals with and without #; ~500 `X = <lit>` lines per program, expected Expression variant and exact value from the statement's rule (float values: correctly rounded, i.e. Rust's str::parse of the same digits); every fourth batch of integer literals is PRINTed and the output compared. Non-trivial: within 2 of a type boundary, or with leading zeros, sign, or fraction. (c) Rounding-critical fraction literals (value class: the written decimal lies next to a rounding boundary of its type, 10..70 significant digits): the exact decimal expansion of the midpoint of two adjacent SINGLE (no #) / DOUBLE (#) values — itself (a tie: even significand), moved above / below the midpoint by one digit placed after 0..26 zeros / nines (upper / lower neighbour) — and the same around a representable value; enumerated for all binary exponents -12..40 (SINGLE) / -12..60 (DOUBLE) with the lowest and highest significands (powers of two and their predecessors, where the gap changes), random significands/exponents/distances otherwise; plus random digit strings of up to 20+30 digits; each also after a minus sign, with leading zeros or without integer part. Expected value: known by construction (exact decimal-string arithmetic on m*2^e) AND Rust's correctly rounded str::parse of the same digits, which must agree (the generator aborts otherwise); compared bit for bit with the parsed SingleLiteral/DoubleLiteral. The class `two-step-rounding-differs` counts (measured) the SINGLE literals for which rounding to DOUBLE first would give another SINGLE. A result exactly one unit in the last place off gets the sig kind `misrounded`."
    }
    fn assumptions(&self) -> Vec<&'static str> {
        vec![
            "a unary operator after a binary operator of higher or equal rank (e.g. `a + NOT b`, `a = NOT b`) or unary minus applied directly to NOT is not determined by the stated ranks and is not generated",
            "tree differences that cannot change any value (x AND (y AND z), x OR (y OR z), -(x*y), -(x/y), -(x MOD y) instead of the left-grouped forms) are counted in the class histogram and are not failures, because the statement speaks of evaluation",
            "the type of a literal at a type minimum after a minus sign (-32768, -2147483648, -&H8000 ...) is not asserted, only its value",
            "&h / &o lower-case prefixes and hex/octal literals with more than 32 significant bits are outside the statement (rejections are counted as discards)",
            "a chain that the linter rejects after the parser built the right tree is discarded and counted (typing rules are other properties)",
            "values: only whole numbers inside INTEGER occur in the expected evaluation, so no rounding, overflow or print-format rule is involved",
            "a fraction literal denotes the value of its type NEAREST to the written decimal (the statement: exactly its written value, as SINGLE, or DOUBLE with #); a decimal exactly half-way between two adjacent values denotes the one with the even significand (IEEE 754 round-to-nearest-even, the rule of the reference conversion); literals are kept inside the normal range of their type (no overflow to infinity, no subnormals)",
            "rounding-critical literals are observed in the parse tree only (bit-exact SingleLiteral / DoubleLiteral); printing them would involve the PRINT number format, which is another property",
        ]
    }
    fn run(&self, sh: &mut Shard) {
        if !self.run_enumerated_chains(sh) {
            return;
        }
        self.run_random_chains(sh);
        if !self.run_16bit_literals(sh) {
            return;
        }
        if !self.run_special_literals(sh) {
            return;
        }
        if !self.run_critical_literals(sh) {
            return;
        }
        self.run_random_literals(sh);
        self.run_random_critical_literals(sh);
    }
    fn replay(&self, sh: &mut Shard, inputs: &Value) -> Result<(), Violation> {
        let mut tally = Tally::default();
        match inputs["kind"].as_str().unwrap_or("") {
            "chain" => {
                let text = inputs["expr"].as_str().unwrap_or("");
                let l = analyse_chain(text).unwrap_or_else(|e| panic!("replay: {}: {}", text, e));
                let mut viols = check_chains(sh, &[l], true, &mut tally);
                if viols.is_empty() { Ok(()) } else { Err(viols.remove(0)) }
            }
            "literal" => {
                let text = inputs["text"].as_str().unwrap_or("");
                let l = analyse_literal(text).unwrap_or_else(|e| panic!("replay: {}: {}", text, e));
                let mut viols = check_literals(sh, &[l], inputs["print"].as_bool().unwrap_or(false), &mut tally);
                if viols.is_empty() { Ok(()) } else { Err(viols.remove(0)) }
            }
            k => panic!("unknown replay kind {}", k),
        }
    }
}

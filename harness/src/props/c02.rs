//! C02 — loops and branches mean the same wherever they are nested or however written.
//! Metamorphic: the implementation is compared with itself on a program and an
//! equivalent spelling of it (rewrite rules applied on the IR at chosen sites).

use serde_json::{Value, json};

use crate::engine::{Shard, Tape, Violation, hash64};
use crate::genr::build::{Gen, GenCfg};
use crate::genr::ir::*;
use crate::genr::print::{Layout, render};
use crate::impl_run::{self, End, RunOpts};
use crate::props::Prop;
use crate::props::common::norm_numbers;
use crate::refsem::static_ty;

pub struct C02;

pub const RULES: [&str; 16] = [
    "for-to-while",
    "while-to-do-while",
    "do-until-to-do-while-not",
    "select-to-if-chain",
    "ifline-to-block",
    "for-add-step-1",
    "body-in-if-true",
    "wrap-for-once",
    "wrap-for-once-step1",
    "wrap-for-once-step-neg",
    "wrap-for-once-step-computed",
    "wrap-while-once",
    "wrap-do-once",
    "wrap-if-true",
    "wrap-select-once",
    "body-in-for-once-step-neg",
];

struct Rw<'a> {
    rule: &'a str,
    /// decides for the k-th eligible site whether to rewrite it
    pick: &'a dyn Fn(usize) -> bool,
    eligible: usize,
    applied: Vec<String>,
    new_vars: Vec<VarInfo>,
    base_vars: usize,
    tmp_seq: usize,
    prog_snapshot: Program,
}

fn lit(v: i64) -> Expr {
    if v < 0 { Expr::Un(UnOp::Neg, Box::new(Expr::Lit(Lit::Whole(-v)))) } else { Expr::Lit(Lit::Whole(v)) }
}
fn paren(e: Expr) -> Expr {
    match e {
        Expr::Lit(_) | Expr::Load(_) | Expr::Paren(_) => e,
        o => Expr::Paren(Box::new(o)),
    }
}
fn bin(op: BinOp, a: Expr, b: Expr) -> Expr {
    Expr::Bin(op, Box::new(paren(a)), Box::new(paren(b)))
}

fn is_loop_or_branch(s: &Stmt) -> bool {
    matches!(s, Stmt::If { .. } | Stmt::IfLine { .. } | Stmt::Select { .. } | Stmt::For { .. } | Stmt::While { .. } | Stmt::Do { .. })
}

fn leaf(e: &Expr) -> bool {
    match e {
        Expr::Lit(_) | Expr::Load(LValue { index: _, .. }) => matches!(e, Expr::Lit(_)) || matches!(e, Expr::Load(l) if l.index.is_empty()),
        Expr::Un(UnOp::Neg, x) => matches!(**x, Expr::Lit(_)),
        Expr::Paren(x) => leaf(x),
        _ => false,
    }
}

impl<'a> Rw<'a> {
    fn tmp(&mut self, ty: Ty) -> LValue {
        self.tmp_seq += 1;
        let name = format!("ZT{}{}", self.tmp_seq, ty.suffix());
        let idx = self.base_vars + self.new_vars.len();
        self.new_vars.push(VarInfo { name: name.clone(), sty: STy::B(ty), bounds: vec![], shared: false });
        LValue { name, var: idx, index: vec![], fields: vec![], sty: STy::B(ty) }
    }

    fn want(&mut self) -> bool {
        let k = self.eligible;
        self.eligible += 1;
        (self.pick)(k)
    }

    /// Rewrites a block; a statement may expand into several.
    fn block(&mut self, stmts: Vec<Stmt>, path: &str) -> Vec<Stmt> {
        let mut out = vec![];
        for (i, s) in stmts.into_iter().enumerate() {
            let p = format!("{}/{}", path, i);
            // children first
            let s = self.children(s, &p);
            self.stmt(s, &p, &mut out);
        }
        out
    }

    fn children(&mut self, s: Stmt, p: &str) -> Stmt {
        match s {
            Stmt::If { arms, else_ } => Stmt::If {
                arms: arms.into_iter().enumerate().map(|(k, (c, b))| (c, self.block(b, &format!("{}/a{}", p, k)))).collect(),
                else_: else_.map(|b| self.block(b, &format!("{}/else", p))),
            },
            Stmt::Select { subject, cases, else_ } => Stmt::Select {
                subject,
                cases: cases.into_iter().enumerate().map(|(k, (it, b))| (it, self.block(b, &format!("{}/c{}", p, k)))).collect(),
                else_: else_.map(|b| self.block(b, &format!("{}/else", p))),
            },
            Stmt::For { var, from, to, step, body, next_names } => Stmt::For { var, from, to, step, body: self.block(body, &format!("{}/b", p)), next_names },
            Stmt::While { cond, body } => Stmt::While { cond, body: self.block(body, &format!("{}/b", p)) },
            Stmt::Do { kind, cond, body } => Stmt::Do { kind, cond, body: self.block(body, &format!("{}/b", p)) },
            o => o,
        }
    }

    fn stmt(&mut self, s: Stmt, p: &str, out: &mut Vec<Stmt>) {
        let rule = self.rule;
        match (rule, s) {
            ("for-to-while", Stmt::For { var, from, to, step, body, next_names }) => {
                if !self.want() {
                    out.push(Stmt::For { var, from, to, step, body, next_names });
                    return;
                }
                self.applied.push(p.to_string());
                let vty = var.ety();
                let limit = self.tmp(vty);
                out.push(Stmt::Assign(var.clone(), from));
                out.push(Stmt::Assign(limit.clone(), to));
                let v = || Expr::Load(var.clone());
                let l = || Expr::Load(limit.clone());
                let (cond, inc): (Expr, Expr) = match step {
                    None => (bin(BinOp::Le, v(), l()), bin(BinOp::Add, v(), lit(1))),
                    Some(st) => {
                        let sty = static_ty(&self.prog_snapshot, &st);
                        let stmp = self.tmp(sty);
                        out.push(Stmt::Assign(stmp.clone(), st));
                        let s = || Expr::Load(stmp.clone());
                        let pos = bin(BinOp::And, bin(BinOp::Ge, s(), lit(0)), bin(BinOp::Le, v(), l()));
                        let neg = bin(BinOp::And, bin(BinOp::Lt, s(), lit(0)), bin(BinOp::Ge, v(), l()));
                        (bin(BinOp::Or, pos, neg), bin(BinOp::Add, v(), s()))
                    }
                };
                let mut b = body;
                b.push(Stmt::Assign(var.clone(), inc));
                out.push(Stmt::While { cond, body: b });
            }
            ("while-to-do-while", Stmt::While { cond, body }) => {
                if self.want() {
                    self.applied.push(p.to_string());
                    out.push(Stmt::Do { kind: DoKind::TopWhile, cond, body });
                } else {
                    out.push(Stmt::While { cond, body });
                }
            }
            ("do-until-to-do-while-not", Stmt::Do { kind, cond, body }) if matches!(kind, DoKind::TopUntil | DoKind::BottomUntil) && matches!(&cond, Expr::Bin(op, _, _) if op.is_relational()) => {
                if self.want() {
                    self.applied.push(p.to_string());
                    let k = if kind == DoKind::TopUntil { DoKind::TopWhile } else { DoKind::BottomWhile };
                    out.push(Stmt::Do { kind: k, cond: Expr::Un(UnOp::Not, Box::new(Expr::Paren(Box::new(cond)))), body });
                } else {
                    out.push(Stmt::Do { kind, cond, body });
                }
            }
            ("select-to-if-chain", Stmt::Select { subject, cases, else_ }) => {
                // a CASE with several items (or a range) becomes one condition that evaluates all of them, whereas SELECT stops at
                // the first item that matches: such items must be free of calls; a single value / IS item may be any expression
                // (the chain evaluates it at the same moment and as often as SELECT does)
                let items_ok = cases.iter().all(|(items, _)| {
                    (items.len() == 1 && matches!(items[0], CaseItem::Val(_) | CaseItem::Is(..)))
                        || items.iter().all(|it| match it {
                            CaseItem::Val(e) | CaseItem::Is(_, e) => leaf(e),
                            CaseItem::Range(a, b) => leaf(a) && leaf(b),
                        })
                });
                if !items_ok || cases.is_empty() || !self.want() {
                    out.push(Stmt::Select { subject, cases, else_ });
                    return;
                }
                self.applied.push(p.to_string());
                let sty = static_ty(&self.prog_snapshot, &subject);
                let t = self.tmp(sty);
                out.push(Stmt::Assign(t.clone(), subject));
                let tv = || Expr::Load(t.clone());
                let mut arms = vec![];
                for (items, body) in cases {
                    let mut cond: Option<Expr> = None;
                    for it in items {
                        let c = match it {
                            CaseItem::Val(e) => bin(BinOp::Eq, tv(), e),
                            CaseItem::Is(op, e) => bin(op, tv(), e),
                            CaseItem::Range(a, b) => bin(BinOp::And, bin(BinOp::Ge, tv(), a), bin(BinOp::Le, tv(), b)),
                        };
                        cond = Some(match cond {
                            None => c,
                            Some(prev) => bin(BinOp::Or, prev, c),
                        });
                    }
                    arms.push((cond.unwrap(), body));
                }
                out.push(Stmt::If { arms, else_ });
            }
            ("ifline-to-block", Stmt::IfLine { cond, then_, else_ }) => {
                if self.want() {
                    self.applied.push(p.to_string());
                    out.push(Stmt::If { arms: vec![(cond, then_)], else_ });
                } else {
                    out.push(Stmt::IfLine { cond, then_, else_ });
                }
            }
            ("for-add-step-1", Stmt::For { var, from, to, step: None, body, next_names }) => {
                if self.want() {
                    self.applied.push(p.to_string());
                    out.push(Stmt::For { var, from, to, step: Some(lit(1)), body, next_names });
                } else {
                    out.push(Stmt::For { var, from, to, step: None, body, next_names });
                }
            }
            ("body-in-if-true", s) if matches!(s, Stmt::For { .. } | Stmt::While { .. } | Stmt::Do { .. }) => {
                if !self.want() {
                    out.push(s);
                    return;
                }
                self.applied.push(p.to_string());
                let wrap = |b: Vec<Stmt>| vec![Stmt::If { arms: vec![(lit(-1), b)], else_: None }];
                out.push(match s {
                    Stmt::For { var, from, to, step, body, next_names } => Stmt::For { var, from, to, step, body: wrap(body), next_names },
                    Stmt::While { cond, body } => {
                        Stmt::While { cond, body: wrap(body) }
                    }
                    Stmt::Do { kind, cond, body } => Stmt::Do { kind, cond, body: wrap(body) },
                    _ => unreachable!(),
                });
            }
            ("body-in-for-once-step-neg", s) if matches!(s, Stmt::For { .. } | Stmt::While { .. } | Stmt::Do { .. }) => {
                if !self.want() {
                    out.push(s);
                    return;
                }
                self.applied.push(p.to_string());
                let q = self.tmp(Ty::Int);
                let wrap = |b: Vec<Stmt>| vec![Stmt::For { var: q.clone(), from: lit(1), to: lit(1), step: Some(lit(-1)), body: b, next_names: false }];
                out.push(match s {
                    Stmt::For { var, from, to, step, body, next_names } => Stmt::For { var, from, to, step, body: wrap(body), next_names },
                    Stmt::While { cond, body } => Stmt::While { cond, body: wrap(body) },
                    Stmt::Do { kind, cond, body } => Stmt::Do { kind, cond, body: wrap(body) },
                    _ => unreachable!(),
                });
            }
            (r, s) if r.starts_with("wrap-") && is_loop_or_branch(&s) => {
                if !self.want() {
                    out.push(s);
                    return;
                }
                self.applied.push(p.to_string());
                match r {
                    "wrap-for-once" | "wrap-for-once-step1" | "wrap-for-once-step-neg" | "wrap-for-once-step-computed" => {
                        let q = self.tmp(Ty::Int);
                        let step = match r {
                            "wrap-for-once" => None,
                            "wrap-for-once-step1" => Some(lit(1)),
                            "wrap-for-once-step-neg" => Some(lit(-1)),
                            _ => {
                                let st = self.tmp(Ty::Int);
                                out.push(Stmt::Assign(st.clone(), bin(BinOp::Sub, lit(1), lit(2))));
                                Some(Expr::Load(st))
                            }
                        };
                        out.push(Stmt::For { var: q, from: lit(1), to: lit(1), step, body: vec![s], next_names: false });
                    }
                    "wrap-while-once" => {
                        let q = self.tmp(Ty::Int);
                        out.push(Stmt::Assign(q.clone(), lit(0)));
                        out.push(Stmt::While { cond: bin(BinOp::Lt, Expr::Load(q.clone()), lit(1)), body: vec![s, Stmt::Assign(q.clone(), bin(BinOp::Add, Expr::Load(q), lit(1)))] });
                    }
                    "wrap-do-once" => {
                        let q = self.tmp(Ty::Int);
                        out.push(Stmt::Assign(q.clone(), lit(0)));
                        out.push(Stmt::Do { kind: DoKind::BottomUntil, cond: bin(BinOp::Ge, Expr::Load(q.clone()), lit(1)), body: vec![s, Stmt::Assign(q.clone(), bin(BinOp::Add, Expr::Load(q), lit(1)))] });
                    }
                    "wrap-if-true" => out.push(Stmt::If { arms: vec![(lit(-1), vec![s])], else_: None }),
                    "wrap-select-once" => out.push(Stmt::Select { subject: lit(1), cases: vec![(vec![CaseItem::Val(lit(1))], vec![s])], else_: None }),
                    other => panic!("unknown wrap rule {}", other),
                }
            }
            (_, s) => out.push(s),
        }
    }
}

/// Applies `rule` to the main module of `prog` at the sites chosen by `pick`.
/// Returns the rewritten program and the paths (in the ORIGINAL program) of the rewritten sites.
pub fn rewrite(prog: &Program, rule: &str, pick: &dyn Fn(usize) -> bool) -> (Program, Vec<String>, usize) {
    let mut rw = Rw { rule, pick, eligible: 0, applied: vec![], new_vars: vec![], base_vars: prog.vars.len(), tmp_seq: 0, prog_snapshot: prog.clone() };
    let mut out = prog.clone();
    out.main = rw.block(prog.main.clone(), "m");
    out.vars.extend(rw.new_vars.clone());
    // subprogram bodies are rewritten as well (temporaries become locals of that subprogram)
    for (pi, pr) in prog.procs.iter().enumerate() {
        rw.new_vars.clear();
        rw.base_vars = pr.vars.len();
        out.procs[pi].body = rw.block(pr.body.clone(), &format!("p{}", pi));
        out.procs[pi].vars.extend(rw.new_vars.clone());
    }
    (out, rw.applied, rw.eligible)
}

fn site_key(p: &str) -> String {
    // rewrite paths are "m/3/a0/2": same shape as the printer's site keys
    p.to_string()
}

fn compare(orig_text: &str, new_text: &str, rule: &str, sites: &[u32]) -> Result<(bool, bool), Violation> {
    let inputs = json!({"original": orig_text, "rewritten": new_text, "rule": rule});
    let mut opts = RunOpts::budget(2_000_000);
    opts.rows = true;
    let a = match impl_run::run_src(orig_text, &opts) {
        Ok(o) => o,
        Err(_) => return Ok((false, false)), // original rejected: not in the property's domain
    };
    let b = match impl_run::run_src(new_text, &RunOpts::budget(4_000_000)) {
        Ok(o) => o,
        Err(e) => {
            return Err(Violation::new(format!("c02-rewritten-rejected:{}:{}", rule, e.class()), "the equivalent spelling of an accepted program is rejected", inputs).exp_obs("accepted", e.to_json()));
        }
    };
    if matches!(a.end, End::Budget) || matches!(b.end, End::Budget) {
        if matches!(a.end, End::Budget) != matches!(b.end, End::Budget) {
            return Err(Violation::new(format!("c02-termination:{}", rule), "one spelling terminates within the budget, the equivalent one does not", inputs).exp_obs(a.end.to_json(), b.end.to_json()));
        }
        return Ok((false, false));
    }
    let executed = sites.iter().any(|r| a.rows.contains(r));
    let printed = !a.stdout.is_empty();
    if norm_numbers(&a.stdout_str()) != norm_numbers(&b.stdout_str()) || a.lpt1 != b.lpt1 {
        return Err(Violation::new(format!("c02-output:{}", rule), format!("rewriting by rule {} changed what the program prints", rule), inputs).exp_obs(json!({"stdout":a.stdout_str(),"end":a.end.to_json()}), json!({"stdout":b.stdout_str(),"end":b.end.to_json()})));
    }
    let code = |e: &End| -> String {
        match e {
            End::Ok => "ok".into(),
            End::Err { code, .. } => format!("{:?}", code),
            End::Panic(p) => p.sig(),
            End::Budget => "budget".into(),
        }
    };
    if code(&a.end) != code(&b.end) {
        return Err(Violation::new(format!("c02-end:{}", rule), format!("rewriting by rule {} changed how the program ends", rule), inputs).exp_obs(a.end.to_json(), b.end.to_json()));
    }
    Ok((executed, printed))
}

fn one_case(sh: &mut Shard, tape: &[u32], cfg: &GenCfg) -> Result<(), Violation> {
    // the first cells choose rule and site selection, the rest is the program
    let mut t = Tape::new(tape);
    let rule_cell = t.raw();
    let mode = t.choose(3); // 0 = one site, 1 = random subset, 2 = all sites
    let which = t.raw();
    let with_calls = t.chance(1, 4);
    let joined = t.chance(1, 4);
    let used = t.used();
    let prog: Program = if with_calls {
        // loops whose bodies call subprograms with loops of their own (main module and subprogram bodies are rewritten)
        let mut c2 = GenCfg::core(8, 2);
        c2.procs = true;
        c2.data = false;
        c2.deftypes = false;
        c2.errors = cfg.errors;
        c2.force_rec = (which >> 7) % 3 == 0;
        Gen::new(&tape[used.min(tape.len())..], &c2).calls_program()
    } else {
        Gen::new(&tape[used.min(tape.len())..], cfg).core_program()
    };
    // choose among the rules that have an eligible site; the spelling rules (first seven) weigh three times a context rule
    let mut menu: Vec<&str> = vec![];
    // (a construct inside a procedure that is re-entered while the construct runs is where per-activation state matters: a
    // rule with a site there weighs four times as much again)
    let recursive: Vec<String> = prog.procs.iter().enumerate().filter(|(_, p)| p.name == "Rec&").map(|(i, _)| format!("p{}/", i)).collect();
    for (k, r) in RULES.iter().enumerate() {
        let (_, sites, eligible) = rewrite(&prog, r, &|_| !recursive.is_empty());
        if eligible > 0 {
            let in_recursive = sites.iter().any(|s| recursive.iter().any(|p| s.starts_with(p.as_str())));
            for _ in 0..(if k < 7 { 3 } else { 1 }) * (if in_recursive { 4 } else { 1 }) {
                menu.push(r);
            }
        }
    }
    if menu.is_empty() {
        sh.eval();
        sh.discard("program without any loop or branch");
        return Ok(());
    }
    let rule = menu[((rule_cell as u64 * menu.len() as u64) >> 32) as usize];
    let pick: Box<dyn Fn(usize) -> bool> = match mode {
        0 => Box::new(move |k| k == (which % 3) as usize),
        1 => Box::new(move |k| hash64(&(which, k)) % 2 == 0),
        _ => Box::new(|_| true),
    };
    let (new_prog, applied, _eligible) = rewrite(&prog, rule, &*pick);
    sh.eval();
    if applied.is_empty() {
        sh.discard("no eligible site for the drawn rule");
        return Ok(());
    }
    // a quarter of the cases put neighbouring statements and loop lines on one line (FOR I = 1 TO 2: PRINT I: NEXT)
    let mut lay = Layout::plain();
    if joined {
        lay.colons = 600;
        lay.seed = which as u64;
        sh.class("layout:colon-joined");
    }
    let ro = render(&prog, &lay);
    let rn = render(&new_prog, &lay);
    let rows: Vec<u32> = applied.iter().filter_map(|p| ro.sites.get(&site_key(p))).map(|s| s.row).collect();
    sh.journal(&rn.text);
    let (executed, printed) = compare(&ro.text, &rn.text, rule, &rows)?;
    sh.class(&format!("rule:{}", rule));
    if with_calls {
        sh.class("base:program-with-subprograms");
        if applied.iter().any(|p| p.starts_with('p')) {
            sh.class("site-inside-subprogram");
        }
        if applied.iter().any(|s| recursive.iter().any(|p| s.starts_with(p.as_str()))) {
            sh.class(&format!("site-inside-recursive-function:{}", rule));
        }
    }
    sh.class(match mode {
        0 => "sites:one",
        1 => "sites:subset",
        _ => "sites:all",
    });
    if executed && printed {
        sh.nontrivial(hash64(&(&ro.text, rule, &applied)));
        sh.class(&format!("executed:{}", rule));
    }
    sh.sample_sparse(307, || json!({"rule": rule, "original": ro.text, "rewritten": rn.text}));
    Ok(())
}

/// Context rules on texts (corpus and shape programs): no IR, so the only rewrite applied is
/// wrapping the WHOLE main body of straight-line-free programs; here we use the shape enumerator instead:
/// the same inner statements under every pair of enclosers must print the per-iteration output
/// the same number of times the enclosers iterate.
fn shape_consistency(sh: &mut Shard) {
    use crate::props::shapes::*;
    // baseline: inner under (none, none); each encloser iterates 2 (loops) or 1 (branches) times
    let iters = |e: &str| -> usize { if e.starts_with("for") || e.starts_with("while") || e.starts_with("do") { 2 } else { 1 } };
    for i in 0..INNERS.len() {
        for e1 in 0..ENCLOSERS.len() {
            for e2 in 0..ENCLOSERS.len() {
                let k = (i * ENCLOSERS.len() + e1) * ENCLOSERS.len() + e2;
                if !sh.mine(k as u64) {
                    continue;
                }
                // reference spelling: the same number of iterations through plain FOR loops without STEP
                let n = iters(ENCLOSERS[e1]) * iters(ENCLOSERS[e2]);
                let (stmts, decls, tail) = inner(INNERS[i]);
                let mut body = vec![format!("FOR ZQ% = 1 TO {}", n)];
                body.extend(stmts.iter().map(|l| format!("  {}", l)));
                body.push("NEXT".into());
                let reference = assemble(&decls, &body, &tail);
                let text = pair_program(e1, e2, i);
                sh.eval();
                sh.journal(&text);
                let rule = format!("shape:{}>{}", ENCLOSERS[e1], ENCLOSERS[e2]);
                let r = compare(&reference, &text, &rule, &[]).map(|_| ());
                sh.class("shape-pair-vs-flat-for");
                sh.nontrivial(hash64(&text));
                if !sh.report(r) {
                    return;
                }
            }
        }
    }
    sh.exhaustive("14 x 14 enclosing-construct pairs x 12 inner statement groups, each compared with the flat FOR spelling");
}

impl Prop for C02 {
    fn id(&self) -> &'static str {
        "C02"
    }
    fn rule(&self) -> &'static str {
        "Generated core programs x 16 rewrite rules (FOR->WHILE with typed temporaries, WHILE->DO WHILE, DO UNTIL c->DO WHILE NOT c, SELECT CASE->IF/ELSEIF chain, single-line IF->block IF, FOR->STEP 1, loop body in IF -1, and context rules wrapping a construct in / filling it with once-executing FOR (no step, STEP 1, STEP -1, computed step), WHILE, DO, IF, SELECT) applied at one site, a random subset, or all sites; original and rewritten program run through the implementation and must print the same and end with the same error code. Plus an enumerated family: every pair of 14 enclosing constructs around 12 statement groups compared with the flat-FOR spelling. Non-trivial = a rewritten site was executed (row observed by the tick hook) and the program printed something; distinct by (program, rule, sites)."
    }
    fn assumptions(&self) -> Vec<&'static str> {
        vec![
            "no reference semantics: the implementation is compared with itself",
            "SELECT->IF only where CASE items are literals/variables (an IF chain evaluates all items; SELECT stops at the first match)",
            "error positions are not compared (they legitimately move), only error codes",
        ]
    }
    fn run(&self, sh: &mut Shard) {
        shape_consistency(sh);
        let cases = sh.share(sh.tier.pick(10_000, 300_000));
        let mut cfg = GenCfg::core(sh.tier.pick(14, 30), sh.tier.pick(3, 5));
        cfg.errors = true;
        sh.search(1, cases, 40, sh.tier.pick(300, 600), |sh, tape| one_case(sh, tape, &cfg));
    }
    fn replay(&self, _sh: &mut Shard, inputs: &Value) -> Result<(), Violation> {
        let a = inputs["original"].as_str().unwrap_or("");
        let b = inputs["rewritten"].as_str().unwrap_or("");
        compare(a, b, inputs["rule"].as_str().unwrap_or("replay"), &[]).map(|_| ())
    }
}
